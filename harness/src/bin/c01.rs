//! C01 — honest proofs verify for every circuit shape and proving configuration.
//!
//! Workload (i): E1 generated constraint systems × num_proofs 1..4 × committed instance columns
//! 0..min(2, #instance) × both transcript hashes; every case is first validated by the reference
//! evaluator (E3) — an unsatisfied honest case is a generator bug ⇒ inconclusive. The real prover
//! and verifier run with a logged transcript hash (E2); on a failure the first diverging
//! transcript event is part of the witness. Workload (ii): hand-written stdlib relations through
//! `midnight_zk_stdlib::{setup_vk, setup_pk, prove, verify}` with keys from unknown witnesses.

use std::{collections::BTreeMap, sync::OnceLock};

use group::Group;
use midnight_curves::{Bls12, Fq, G1Projective};
use midnight_proofs::{
    plonk::{commit_to_instances, create_proof, keygen_pk, keygen_vk_with_k, prepare, Circuit},
    poly::{
        commitment::Guard,
        kzg::{params::ParamsKZG, KZGCommitmentScheme},
    },
    transcript::{CircuitTranscript, Hashable, Sampleable, Transcript, TranscriptHash},
};
use midnight_zk_stdlib::{MidnightCircuit, Relation};
use mzv::{
    common::*,
    engines::{
        gen_circuit::*,
        logged_hash::*,
        ref_eval::{check_circuit, Verdicts},
        relations::*,
    },
};
use rand::{Rng, SeedableRng};
use rand_chacha::ChaCha8Rng;
use rayon::prelude::*;
use serde_json::json;

type CS = KZGCommitmentScheme<Bls12>;

fn params_for(k: u32) -> &'static ParamsKZG<Bls12> {
    static P: OnceLock<Vec<OnceLock<ParamsKZG<Bls12>>>> = OnceLock::new();
    let v = P.get_or_init(|| (0..20).map(|_| OnceLock::new()).collect());
    v[k as usize].get_or_init(|| ParamsKZG::unsafe_setup(k, ChaCha8Rng::seed_from_u64(0xC01 + k as u64)))
}

#[derive(Clone, Debug)]
struct FamCase {
    spec: GenSpec,
    np: usize,
    nc: usize,
    poseidon: bool,
    wseeds: Vec<u64>,
}

#[derive(Debug)]
enum Outcome {
    /// generator produced an honest case E3 rejects, or setup failed
    Inconclusive(String),
    Ok { events: usize, proof_len: usize },
    Fail { stage: String, detail: String, divergence: Option<(usize, String, String)> },
}

fn run_family_case<H>(case: &FamCase) -> (Outcome, bool /* mock accepted all */)
where
    H: TranscriptHash,
    G1Projective: Hashable<H>,
    Fq: Hashable<H> + Sampleable<H>,
{
    let spec = &case.spec;
    let k = spec.k;
    let circuits: Vec<GenCircuit> =
        case.wseeds.iter().map(|s| GenCircuit::new(spec.clone(), *s)).collect();
    let instances: Vec<Vec<Vec<Fq>>> =
        case.wseeds.iter().map(|s| instance_of::<Fq>(spec, *s)).collect();
    // reference + mock verdicts on the honest assignment
    let mut mock_all = true;
    for (c, inst) in circuits.iter().zip(instances.iter()) {
        let v: Verdicts = match catch_any(|| check_circuit::<Fq, _>(k, c, inst)) {
            Ok(v) => v,
            Err(p) => return (Outcome::Inconclusive(format!("panic in reference/mock run: {p:?}")), false),
        };
        match v.reference {
            Ok(true) => {}
            Ok(false) => {
                return (
                    Outcome::Inconclusive(format!("generator bug: honest case unsatisfied: {:?}", v.ref_failures)),
                    false,
                )
            }
            Err(e) => return (Outcome::Inconclusive(format!("generator bug: synthesis failed: {e}")), false),
        }
        if !matches!(v.mock, Ok(true)) {
            mock_all = false;
        }
    }
    let params = params_for(k);
    let keygen = catch_any(|| {
        let vk = keygen_vk_with_k::<Fq, CS, _>(params, &Circuit::<Fq>::without_witnesses(&circuits[0]), k)?;
        let pk = keygen_pk::<Fq, CS, _>(vk.clone(), &Circuit::<Fq>::without_witnesses(&circuits[0]))?;
        Ok::<_, midnight_proofs::plonk::Error>((vk, pk))
    });
    let (vk, pk) = match keygen {
        Ok(Ok(x)) => x,
        Ok(Err(e)) => {
            return (
                Outcome::Fail {
                    stage: "keygen-error".into(),
                    detail: format!("{e:?}"),
                    divergence: None,
                },
                mock_all,
            )
        }
        Err(p) => {
            return (
                Outcome::Fail {
                    stage: format!("keygen-panic@{}", repo_file(&p.file)),
                    detail: format!("{p:?}"),
                    divergence: None,
                },
                mock_all,
            )
        }
    };
    let inst_refs: Vec<Vec<&[Fq]>> =
        instances.iter().map(|i| i.iter().map(|c| c.as_slice()).collect()).collect();
    let inst_refs2: Vec<&[&[Fq]]> = inst_refs.iter().map(|i| i.as_slice()).collect();

    start_log();
    let proved = catch_any(|| {
        let mut t = CircuitTranscript::<H>::init();
        create_proof::<Fq, CS, _, _>(
            params,
            &pk,
            &circuits,
            case.nc,
            &inst_refs2,
            ChaCha8Rng::seed_from_u64(case.wseeds[0] ^ 0x5eed),
            &mut t,
        )
        .map(|_| t.finalize())
    });
    let plog = hash_events(&take_log());
    let proof = match proved {
        Ok(Ok(p)) => p,
        Ok(Err(e)) => {
            return (
                Outcome::Fail {
                    stage: "prover-error".into(),
                    detail: format!("{e:?}"),
                    divergence: None,
                },
                mock_all,
            )
        }
        Err(p) => {
            return (
                Outcome::Fail {
                    stage: format!("prover-panic@{}", repo_file(&p.file)),
                    detail: format!("{p:?}"),
                    divergence: None,
                },
                mock_all,
            )
        }
    };

    // verifier side: committed columns as commitments, the rest plain
    let committed: Vec<Vec<G1Projective>> = instances
        .iter()
        .map(|inst| {
            inst[..case.nc]
                .iter()
                .map(|col| commit_to_instances::<Fq, CS>(params, vk.get_domain(), col))
                .collect()
        })
        .collect();
    let committed_refs: Vec<&[G1Projective]> = committed.iter().map(|c| c.as_slice()).collect();
    let plain: Vec<Vec<&[Fq]>> =
        instances.iter().map(|i| i[case.nc..].iter().map(|c| c.as_slice()).collect()).collect();
    let plain_refs: Vec<&[&[Fq]]> = plain.iter().map(|i| i.as_slice()).collect();

    start_log();
    let verified = catch_any(|| {
        let mut t = CircuitTranscript::<H>::init_from_bytes(&proof);
        let guard = prepare::<Fq, CS, _>(&vk, &committed_refs, &plain_refs, &mut t)
            .map_err(|e| ("prepare-error".to_string(), format!("{e:?}")))?;
        t.assert_empty().map_err(|e| ("trailing-bytes".to_string(), format!("{e:?}")))?;
        guard
            .verify(&params.verifier_params())
            .map_err(|e| ("verify-error".to_string(), format!("{e:?}")))
    });
    let vlog = hash_events(&take_log());
    match verified {
        Ok(Ok(())) => (
            Outcome::Ok {
                events: vlog.len(),
                proof_len: proof.len(),
            },
            mock_all,
        ),
        Ok(Err((stage, detail))) => (
            Outcome::Fail {
                stage,
                detail,
                divergence: first_divergence(&plog, &vlog),
            },
            mock_all,
        ),
        Err(p) => (
            Outcome::Fail {
                stage: format!("verifier-panic@{}", repo_file(&p.file)),
                detail: format!("{p:?}"),
                divergence: first_divergence(&plog, &vlog),
            },
            mock_all,
        ),
    }
}

fn case_json(c: &FamCase) -> serde_json::Value {
    json!({"spec": c.spec, "num_proofs": c.np, "committed": c.nc, "hash": if c.poseidon {"poseidon"} else {"blake2b"}, "witness_seeds": c.wseeds})
}

fn run_case(c: &FamCase) -> (Outcome, bool) {
    if c.poseidon {
        run_family_case::<LPoseidon>(c)
    } else {
        run_family_case::<LBlake>(c)
    }
}

/// Stdlib relation through the façade with the given hash.
fn run_relation<R: Relation, H>(
    rel: &R,
    instance: &R::Instance,
    witness: R::Witness,
    seed: u64,
) -> Result<usize, (String, String)>
where
    H: TranscriptHash,
    G1Projective: Hashable<H>,
    Fq: Hashable<H> + Sampleable<H>,
{
    let k = MidnightCircuit::from_relation(rel).min_k();
    let params = params_for(k);
    let r = catch_any(|| {
        let vk = midnight_zk_stdlib::setup_vk(params, rel);
        let pk = midnight_zk_stdlib::setup_pk(rel, &vk);
        let proof = midnight_zk_stdlib::prove::<R, H>(
            params,
            &pk,
            rel,
            instance,
            witness,
            ChaCha8Rng::seed_from_u64(seed),
        )
        .map_err(|e| ("prover-error".to_string(), format!("{e:?}")))?;
        midnight_zk_stdlib::verify::<R, H>(&params.verifier_params(), &vk, instance, None, &proof)
            .map_err(|e| ("verify-error".to_string(), format!("{e:?}")))?;
        Ok(proof.len())
    });
    match r {
        Ok(x) => x,
        Err(p) => Err((format!("panic@{}", repo_file(&p.file)), format!("{p:?}"))),
    }
}

fn main() {
    let ctx = Ctx::from_args("C01");
    let mut rep = Report::new(
        &ctx,
        "family cases = (generated constraint-system spec, num_proofs, #committed instance columns, transcript hash, witness seeds); \
         a case is non-trivial iff the reference evaluator accepts the honest assignment of every circuit in it and at least one \
         constraint (gate/lookup/copy/trash) is active; distinct = distinct hash of the whole case descriptor",
    );
    rep.assume("SRS from ParamsKZG::unsafe_setup with a seeded RNG (the trusted-setup file is not available offline)");
    rep.assume("reference evaluator (harness) decides what a satisfying assignment is");

    // ---- replay --------------------------------------------------------------------------------
    if let Some(path) = &ctx.replay {
        let j = load_replay(path).expect("replay file");
        let w = &j["witness"];
        if w.get("spec").is_some() {
            let case = FamCase {
                spec: serde_json::from_value(w["spec"].clone()).expect("spec"),
                np: w["num_proofs"].as_u64().unwrap() as usize,
                nc: w["committed"].as_u64().unwrap() as usize,
                poseidon: w["hash"] == "poseidon",
                wseeds: w["witness_seeds"].as_array().unwrap().iter().map(|x| x.as_u64().unwrap()).collect(),
            };
            let (o, _) = run_case(&case);
            println!("replay outcome: {o:?}");
            rep.eval();
            if let Outcome::Fail { stage, detail, divergence } = o {
                rep.violation(
                    &format!("C01/family/{stage}"),
                    &format!("honest proof not accepted: {detail}; first transcript divergence {divergence:?}"),
                    case_json(&case),
                );
            }
            rep.nontrivial(&1u8);
            rep.nontrivial(&2u8);
            rep.finish();
        }
    }

    // ---- (i) family ----------------------------------------------------------------------------
    let n_cases = ctx.extra.get("cases").and_then(|c| c.parse().ok()).unwrap_or(ctx.tier.pick(240usize, 6000usize));
    let mut rng = ctx.rng("family");
    let mut cases: Vec<FamCase> = vec![];
    let mut attempts = 0;
    while cases.len() < n_cases && attempts < n_cases * 4 {
        attempts += 1;
        let knobs = GenKnobs::sample(&mut rng);
        let Some(spec) = gen_spec::<Fq>(&mut rng, &knobs, 9) else { continue };
        // stratify configuration: cycle through (np, nc, hash) so every combination appears
        let i = cases.len();
        let np = 1 + (i % 4);
        let nc = (i / 4) % (spec.n_instance.min(2) + 1);
        let poseidon = (i / 12) % 2 == 1;
        let wseeds = (0..np).map(|_| rng.gen()).collect();
        cases.push(FamCase {
            spec,
            np,
            nc,
            poseidon,
            wseeds,
        });
    }
    // make sure every k in use has its parameters before the parallel part
    for k in 4..=9 {
        let _ = params_for(k);
    }
    let results: Vec<(FamCase, Outcome, bool)> = cases
        .into_par_iter()
        .map(|c| {
            let (o, m) = run_case(&c);
            (c, o, m)
        })
        .collect();

    let mut feature_cov: BTreeMap<String, u64> = BTreeMap::new();
    let mut cfg_cov: BTreeMap<String, u64> = BTreeMap::new();
    let mut events_total = 0u64;
    for (c, o, mock_ok) in &results {
        rep.eval();
        match o {
            Outcome::Inconclusive(why) => {
                rep.inconclusive(why);
                rep.count("family.inconclusive");
            }
            Outcome::Ok { events, proof_len } => {
                rep.count("family.accepted");
                events_total += *events as u64;
                let plan = Plan::derive(&c.spec);
                let active = plan.gate_rows.iter().chain(plan.lookup_rows.iter()).map(|r| r.len()).sum::<usize>();
                if active > 0 {
                    rep.nontrivial_hash(fnv(case_json(c).to_string().as_bytes()));
                } else {
                    rep.count("family.trivial_no_active_constraint");
                }
                for f in c.spec.features() {
                    *feature_cov.entry(f).or_insert(0) += 1;
                }
                *cfg_cov
                    .entry(format!("np{}-nc{}-{}-k{}", c.np, c.nc, if c.poseidon { "pos" } else { "blk" }, c.spec.k))
                    .or_insert(0) += 1;
                if !*mock_ok {
                    rep.count("family.mock_rejected_honest(reported under C02)");
                }
                if rep.samples.len() < 3 {
                    rep.sample(json!({"case": case_json(c), "transcript_events_compared": events, "proof_bytes": proof_len}));
                }
            }
            Outcome::Fail { stage, detail, divergence } => {
                let div_kind = match divergence {
                    Some((_, a, b)) => format!(
                        " div[{}|{}]",
                        a.split(|c: char| !c.is_alphabetic()).next().unwrap_or("?"),
                        b.split(|c: char| !c.is_alphabetic()).next().unwrap_or("?")
                    ),
                    None => String::new(),
                };
                let cfg = format!(
                    " cfg[multi-proof:{},committed:{},plain:{}]",
                    c.np > 1,
                    c.nc > 0,
                    c.spec.n_instance > c.nc
                );
                rep.violation(
                    &format!("C01/family/{stage}{div_kind}{cfg}"),
                    &format!("honest proof of a generated circuit not accepted ({stage}: {detail}); first transcript divergence (prover|verifier) = {divergence:?}"),
                    case_json(c),
                );
            }
        }
    }
    rep.set("feature_coverage", json!(feature_cov));
    rep.set("configuration_coverage", json!(cfg_cov));
    rep.set("transcript_events_compared", json!(events_total));

    // ---- (ii) stdlib relations -----------------------------------------------------------------
    let reps = ctx.tier.pick(1usize, 6usize);
    let mut rrng = ctx.rng("relations");
    let mut rel_results: Vec<(String, Result<usize, (String, String)>)> = vec![];
    for r in 0..reps {
        for poseidon in [false, true] {
            let h = if poseidon { "poseidon" } else { "blake2b" };
            macro_rules! go {
                ($rel:expr, $name:expr, $sample:expr) => {{
                    let (i, w) = $sample;
                    let res = if poseidon {
                        run_relation::<_, midnight_circuits::hash::poseidon::PoseidonState<Fq>>(&$rel, &i, w, rrng.gen())
                    } else {
                        run_relation::<_, blake2b_simd::State>(&$rel, &i, w, rrng.gen())
                    };
                    rel_results.push((format!("{}/{h}", $name), res));
                }};
            }
            go!(ArithRel, "ArithRel", ArithRel::sample(&mut rrng));
            go!(PoseidonRel, "PoseidonRel", PoseidonRel::sample(&mut rrng));
            go!(EccRel, "EccRel", EccRel::sample(&mut rrng));
            if ctx.tier == Tier::Thorough || (r == 0 && !poseidon) {
                go!(ShaRel, "ShaRel", ShaRel::sample(&mut rrng));
            }
        }
    }
    for (name, res) in rel_results {
        rep.eval();
        match res {
            Ok(len) => {
                rep.count(&format!("relation.accepted.{name}"));
                rep.nontrivial(&format!("{name}/{len}/{}", rep.evaluations));
            }
            Err((stage, detail)) => rep.violation(
                &format!("C01/relation/{}/{stage}", name.split('/').next().unwrap()),
                &format!("honest stdlib proof not accepted: {detail}"),
                json!({"relation": name}),
            ),
        }
    }
    let _ = G1Projective::identity();
    rep.min_nontrivial = (n_cases as u64) / 2;
    rep.finish();
}
