//! C02 — the verifier enforces every constraint class and agrees with the mock checker.
//!
//! For generated circuits (E1) and fault lists applied inside `synthesize`, three verdicts are
//! taken on the same assignment: `ref` = harness reference evaluator (E3), `mock` = the
//! repository's `MockProver::verify`, `real` = `create_proof` succeeded ∧ `prepare`+`verify`
//! succeeded. Refuting events: the verdicts are not all equal. A second source drives library
//! circuits (stdlib relations) through the real prover under an H1 fault plan.

use std::{collections::BTreeMap, sync::OnceLock};

use ff::Field;
use midnight_curves::{Bls12, Fq, G1Projective};
use midnight_proofs::{
    dev::MockProver,
    plonk::{create_proof, keygen_pk, keygen_vk_with_k, prepare, Circuit, ProvingKey, VerifyingKey},
    poly::{
        commitment::Guard,
        kzg::{params::ParamsKZG, KZGCommitmentScheme},
    },
    transcript::{CircuitTranscript, Transcript},
};
use midnight_zk_stdlib::{MidnightCircuit, Relation};
use mzv::{
    common::*,
    engines::{
        gen_circuit::*,
        ref_eval::{collect, CollectOpts, Failure, Tables},
        relations::*,
    },
};
use rand::{seq::SliceRandom, Rng, SeedableRng};
use rand_chacha::ChaCha8Rng;
use rayon::prelude::*;
use serde_json::json;

type CS = KZGCommitmentScheme<Bls12>;
type H = blake2b_simd::State;

fn params_for(k: u32) -> &'static ParamsKZG<Bls12> {
    static P: OnceLock<Vec<OnceLock<ParamsKZG<Bls12>>>> = OnceLock::new();
    let v = P.get_or_init(|| (0..20).map(|_| OnceLock::new()).collect());
    v[k as usize].get_or_init(|| ParamsKZG::unsafe_setup(k, ChaCha8Rng::seed_from_u64(0xC02 + k as u64)))
}

#[derive(Clone, Debug, PartialEq, Eq)]
enum Real {
    Accepted,
    Rejected(String),
}

fn real_verdict<C: Circuit<Fq>>(
    k: u32,
    pk: &ProvingKey<Fq, CS>,
    vk: &VerifyingKey<Fq, CS>,
    circuit: C,
    instance: &[Vec<Fq>],
    seed: u64,
) -> Real {
    let params = params_for(k);
    let inst: Vec<&[Fq]> = instance.iter().map(|c| c.as_slice()).collect();
    let r = catch_any(|| {
        let mut t = CircuitTranscript::<H>::init();
        create_proof::<Fq, CS, _, _>(
            params,
            pk,
            &[circuit],
            0,
            &[&inst],
            ChaCha8Rng::seed_from_u64(seed),
            &mut t,
        )
        .map_err(|e| format!("prover-error:{e:?}"))?;
        let proof = t.finalize();
        let mut t = CircuitTranscript::<H>::init_from_bytes(&proof);
        let empty: &[G1Projective] = &[];
        let g = prepare::<Fq, CS, _>(vk, &[empty], &[&inst], &mut t).map_err(|e| format!("prepare-error:{e:?}"))?;
        t.assert_empty().map_err(|e| format!("trailing:{e:?}"))?;
        g.verify(&params.verifier_params()).map_err(|e| format!("verify-error:{e:?}"))
    });
    match r {
        Ok(Ok(())) => Real::Accepted,
        Ok(Err(e)) => Real::Rejected(e),
        Err(p) => Real::Rejected(format!("panic@{}:{}", repo_file(&p.file), p.message)),
    }
}

fn mock_verdict<C: Circuit<Fq>>(k: u32, circuit: &C, instance: &[Vec<Fq>]) -> Result<bool, String> {
    match catch_any(|| MockProver::<Fq>::run(k, circuit, instance.to_vec()).map(|p| p.verify())) {
        Ok(Ok(Ok(()))) => Ok(true),
        Ok(Ok(Err(f))) => Err(format!("{:?}", f.iter().take(2).collect::<Vec<_>>())).or(Ok(false)),
        Ok(Err(e)) => Err(format!("synthesis:{e:?}")),
        Err(p) => Err(format!("panic:{p:?}")),
    }
}

fn mock_failures<C: Circuit<Fq>>(k: u32, circuit: &C, instance: &[Vec<Fq>]) -> String {
    match catch_any(|| MockProver::<Fq>::run(k, circuit, instance.to_vec()).map(|p| p.verify())) {
        Ok(Ok(Err(f))) => format!("{:?}", f.iter().take(2).collect::<Vec<_>>()),
        other => format!("{:?}", other.map(|r| r.map(|v| v.is_ok()))),
    }
}

#[derive(Clone, Debug)]
struct FaultCase {
    spec: GenSpec,
    wseed: u64,
    faults: Vec<Fault>,
    inst_fault: Option<(usize, usize)>,
    /// classes of the constraints the fault violates according to E3 (empty = satisfied)
    classes: Vec<&'static str>,
    stratum: String,
}

struct CaseResult {
    case: FaultCase,
    reference_ok: bool,
    mock: Result<bool, String>,
    real: Real,
}

fn classes_of(f: &[Failure]) -> Vec<&'static str> {
    let mut v: Vec<&'static str> = f.iter().map(|x| x.class()).collect();
    v.sort();
    v.dedup();
    v
}

fn tables_for(spec: &GenSpec, wseed: u64, faults: &[Fault], inst: &[Vec<Fq>]) -> Result<Tables<Fq>, String> {
    let mut c = GenCircuit::new(spec.clone(), wseed);
    c.faults = faults.to_vec();
    collect::<Fq, _>(spec.k, &c, inst, CollectOpts::default())
}

fn fault_json(c: &FaultCase) -> serde_json::Value {
    json!({"spec": c.spec, "witness_seed": c.wseed, "faults": c.faults, "instance_fault": c.inst_fault, "classes": c.classes, "stratum": c.stratum})
}

fn run_fault_case(case: FaultCase, pk: &ProvingKey<Fq, CS>, vk: &VerifyingKey<Fq, CS>) -> CaseResult {
    let spec = &case.spec;
    let mut inst = instance_of::<Fq>(spec, case.wseed);
    if let Some((c, r)) = case.inst_fault {
        inst[c][r] += Fq::ONE;
    }
    let mut circuit = GenCircuit::new(spec.clone(), case.wseed);
    circuit.faults = case.faults.clone();
    let reference_ok = case.classes.is_empty();
    let mock = mock_verdict(spec.k, &circuit, &inst);
    let real = real_verdict(spec.k, pk, vk, circuit, &inst, case.wseed ^ 0xfa17);
    CaseResult {
        case,
        reference_ok,
        mock,
        real,
    }
}

fn main() {
    let ctx = Ctx::from_args("C02");
    let mut rep = Report::new(
        &ctx,
        "case = (generated circuit spec, witness seed, one fault on an assigned advice cell or on an instance cell); the three verdicts \
         ref (harness evaluator) / mock (MockProver::verify) / real (create_proof ∧ verify) must coincide. A case is non-trivial iff the fault \
         changes the value of the cell (so the assignment really differs from the honest one); distinct = distinct (spec, cell, fault kind). \
         Strata = set of constraint classes the reference evaluator reports as violated (gate / lookup / copy / trash / none)",
    );
    rep.assume("reference evaluator (harness) decides which constraints an assignment violates");
    rep.assume("a prover that returns Err or panics on a violating assignment counts as 'rejected'");
    rep.assume("lookup/permutation soundness against a malicious (non-repository) prover is out of scope: only honest-prover-code executions are observable");

    let n_circuits = ctx.extra.get("circuits").and_then(|c| c.parse().ok()).unwrap_or(ctx.tier.pick(40usize, 400usize));
    let per_circuit = ctx.tier.pick(40usize, usize::MAX);
    let mut rng = ctx.rng("c02-family");

    // ---- generate circuits, validate honest case, enumerate faults ------------------------------
    let mut specs: Vec<(GenSpec, u64)> = vec![];
    let mut attempts = 0;
    while specs.len() < n_circuits && attempts < n_circuits * 5 {
        attempts += 1;
        let mut knobs = GenKnobs::sample(&mut rng);
        // make constraint classes likely to be present
        if specs.len() % 3 == 0 {
            knobs.n_trash = knobs.n_trash.max(1);
        }
        if specs.len() % 3 == 1 {
            knobs.n_lookups = knobs.n_lookups.max(1);
        }
        knobs.copies = true;
        let Some(spec) = gen_spec::<Fq>(&mut rng, &knobs, 8) else { continue };
        specs.push((spec, rng.gen()));
    }
    for k in 4..=8 {
        let _ = params_for(k);
    }

    let seed = ctx.seed;
    let tier = ctx.tier;
    let per_spec: Vec<(Vec<CaseResult>, Option<String>, Option<(bool, String)>, Option<String>)> = specs
        .par_iter()
        .enumerate()
        .map(|(si, (spec, wseed))| {
            let mut lrng = rng_for(seed, &format!("faults-{si}"));
            let inst = instance_of::<Fq>(spec, *wseed);
            let honest = match tables_for(spec, *wseed, &[], &inst) {
                Ok(t) => t,
                Err(e) => return (vec![], Some(format!("generator bug (synthesis): {e}")), None, None),
            };
            if !honest.satisfied() {
                return (vec![], Some(format!("generator bug: honest case unsatisfied {:?}", honest.violations(3))), None, None);
            }
            // honest mock verdict (a disagreement on the honest assignment is itself a finding)
            let hc = GenCircuit::new(spec.clone(), *wseed);
            let honest_mock = mock_verdict(spec.k, &hc, &inst);
            let honest_mock_note = match &honest_mock {
                Ok(true) => None,
                _ => Some((false, mock_failures(spec.k, &hc, &inst))),
            };
            let params = params_for(spec.k);
            let keys = catch_any(|| {
                let vk = keygen_vk_with_k::<Fq, CS, _>(params, &Circuit::<Fq>::without_witnesses(&hc), spec.k)?;
                let pk = keygen_pk::<Fq, CS, _>(vk.clone(), &Circuit::<Fq>::without_witnesses(&hc))?;
                Ok::<_, midnight_proofs::plonk::Error>((vk, pk))
            });
            let (vk, pk) = match keys {
                Ok(Ok(x)) => x,
                other => return (vec![], Some(format!("keygen failed: {:?}", other.map(|r| r.map(|_| ())))), honest_mock_note, None),
            };

            // monitor: the verifying key commits to exactly the fixed table (fixed columns, then
            // selectors as 0/1 columns) that the harness collector sees for this circuit
            let mut key_note: Option<String> = None;
            {
                use midnight_proofs::poly::commitment::PolynomialCommitmentScheme;
                let dom = vk.get_domain();
                let mut cols: Vec<Vec<Fq>> = honest.fixed.clone();
                for sel in &honest.selectors {
                    cols.push(sel.iter().map(|b| if *b { Fq::ONE } else { Fq::ZERO }).collect());
                }
                let coms = vk.fixed_commitments();
                if coms.len() != cols.len() {
                    key_note = Some(format!("vk has {} fixed commitments, the circuit has {} fixed+selector columns", coms.len(), cols.len()));
                } else {
                    for (i, col) in cols.into_iter().enumerate() {
                        let c: G1Projective = CS::commit_lagrange(params, &dom.lagrange_from_vec(col));
                        if c != coms[i] {
                            key_note = Some(format!("fixed commitment {i} of the verifying key differs from the commitment to column {i} of the circuit's fixed table"));
                            break;
                        }
                    }
                }
            }

            // enumerate candidate faults
            let cells = honest.assigned_advice_cells();
            let mut cands: Vec<FaultCase> = vec![];
            for (c, r) in &cells {
                let kinds: Vec<FaultKind> = match tier {
                    Tier::Quick => vec![[FaultKind::Plus1, FaultKind::Zero, FaultKind::SwapBelow, FaultKind::Random(lrng.gen())]
                        .choose(&mut lrng)
                        .unwrap()
                        .clone()],
                    Tier::Thorough => vec![FaultKind::Plus1, FaultKind::Zero, FaultKind::SwapBelow, FaultKind::Random(lrng.gen())],
                };
                for kind in kinds {
                    let faults = vec![Fault {
                        col: *c,
                        row: *r,
                        kind,
                    }];
                    let Ok(t) = tables_for(spec, *wseed, &faults, &inst) else { continue };
                    // trivial fault (value unchanged)?
                    if t.advice == honest.advice {
                        continue;
                    }
                    let classes = classes_of(&t.violations(64));
                    let stratum = if classes.is_empty() { "none".to_string() } else { classes.join("+") };
                    cands.push(FaultCase {
                        spec: spec.clone(),
                        wseed: *wseed,
                        faults,
                        inst_fault: None,
                        classes,
                        stratum,
                    });
                }
            }
            // instance faults
            for (ic, col) in inst.iter().enumerate() {
                for ir in 0..col.len() {
                    let mut inst2 = inst.clone();
                    inst2[ic][ir] += Fq::ONE;
                    let Ok(t) = tables_for(spec, *wseed, &[], &inst2) else { continue };
                    let classes = classes_of(&t.violations(64));
                    let stratum = format!("instance:{}", if classes.is_empty() { "none".to_string() } else { classes.join("+") });
                    cands.push(FaultCase {
                        spec: spec.clone(),
                        wseed: *wseed,
                        faults: vec![],
                        inst_fault: Some((ic, ir)),
                        classes,
                        stratum,
                    });
                }
            }
            // multi-cell faults: all inputs of one lookup row forced to zero
            {
                let plan = Plan::derive(spec);
                for (li, rows) in plan.lookup_rows.iter().enumerate() {
                    for row in rows {
                        let faults: Vec<Fault> = spec.lookups[li]
                            .inputs
                            .iter()
                            .map(|(c, r)| Fault {
                                col: *c,
                                row: (*row as i64 + *r as i64) as usize,
                                kind: FaultKind::Zero,
                            })
                            .collect();
                        let Ok(t) = tables_for(spec, *wseed, &faults, &inst) else { continue };
                        if t.advice == honest.advice {
                            continue;
                        }
                        let classes = classes_of(&t.violations(64));
                        let stratum = format!("lookup-row-zero:{}", if classes.is_empty() { "none".to_string() } else { classes.join("+") });
                        cands.push(FaultCase {
                            spec: spec.clone(),
                            wseed: *wseed,
                            faults,
                            inst_fault: None,
                            classes,
                            stratum,
                        });
                    }
                }
            }
            // stratified selection: round-robin over strata
            let mut by: BTreeMap<String, Vec<FaultCase>> = BTreeMap::new();
            for c in cands {
                by.entry(c.stratum.clone()).or_default().push(c);
            }
            for v in by.values_mut() {
                v.shuffle(&mut lrng);
            }
            let mut chosen = vec![];
            'outer: loop {
                let mut any = false;
                for v in by.values_mut() {
                    if let Some(c) = v.pop() {
                        chosen.push(c);
                        any = true;
                        if chosen.len() >= per_circuit {
                            break 'outer;
                        }
                    }
                }
                if !any {
                    break;
                }
            }
            let results: Vec<CaseResult> = chosen.into_iter().map(|c| run_fault_case(c, &pk, &vk)).collect();
            (results, None, honest_mock_note, key_note)
        })
        .collect();

    // ---- judge ----------------------------------------------------------------------------------
    let mut matrix: BTreeMap<String, BTreeMap<String, u64>> = BTreeMap::new();
    for ((spec, wseed), (results, inconclusive, honest_mock_note, key_note)) in specs.iter().zip(per_spec) {
        if let Some(why) = inconclusive {
            rep.inconclusive(&why);
            continue;
        }
        if let Some(note) = key_note {
            rep.eval();
            rep.violation(
                "C02/family/key-fixed-table-differs-from-circuit",
                &format!("{note}: the keys enforce a different fixed table than the one the constraint checker evaluates"),
                json!({"spec": spec}),
            );
        } else {
            rep.count("key_fixed_table_matches_circuit");
        }
        if let Some((_, failures)) = honest_mock_note {
            rep.eval();
            let only_trash = false;
            let _ = only_trash;
            rep.violation(
                "C02/family/mock-rejects-honest",
                &format!("MockProver rejects an assignment the reference evaluator and the real verifier accept: {failures}"),
                json!({"spec": spec, "witness_seed": wseed, "mock_failures": failures}),
            );
        }
        for r in results {
            rep.eval();
            let real_ok = r.real == Real::Accepted;
            let mock_ok = matches!(r.mock, Ok(true));
            let row = matrix.entry(r.case.stratum.clone()).or_default();
            *row.entry(format!("ref={} mock={} real={}", r.reference_ok, mock_ok, real_ok)).or_insert(0) += 1;
            rep.nontrivial_hash(fnv(fault_json(&r.case).to_string().as_bytes()));
            if rep.samples.len() < 4 {
                rep.sample(json!({"case": {"k": r.case.spec.k, "features": r.case.spec.features(), "faults": r.case.faults, "instance_fault": r.case.inst_fault, "stratum": r.case.stratum},
                                  "ref": r.reference_ok, "mock": mock_ok, "real": format!("{:?}", r.real)}));
            }
            let cls = r.case.stratum.clone();
            if !r.reference_ok && real_ok {
                rep.violation(
                    &format!("C02/family/real-accepts-violating[{cls}]"),
                    "the real verifier accepted a proof made from an assignment that violates a constraint",
                    fault_json(&r.case),
                );
            }
            if r.reference_ok && !real_ok {
                rep.violation(
                    &format!("C02/family/real-rejects-satisfying[{cls}]"),
                    &format!("a fault confined to cells no enabled constraint reads made the real prover/verifier reject: {:?}", r.real),
                    fault_json(&r.case),
                );
            }
            if mock_ok != real_ok {
                rep.violation(
                    &format!("C02/family/mock-vs-verifier mock={mock_ok} real={real_ok} [{cls}]"),
                    &format!("MockProver verdict differs from the verifier's on the same assignment (mock: {:?}, real: {:?})", r.mock, r.real),
                    fault_json(&r.case),
                );
            }
        }
    }

    // ---- H1: library circuits under the real prover with a fault plan ----------------------------
    let h1_per_rel = ctx.tier.pick(8usize, 150usize);
    let mut hrng = ctx.rng("h1");
    h1_relation(&mut rep, &mut matrix, "ArithRel", &ArithRel, ArithRel::sample(&mut hrng), h1_per_rel, &mut hrng);
    h1_relation(&mut rep, &mut matrix, "PoseidonRel", &PoseidonRel, PoseidonRel::sample(&mut hrng), h1_per_rel, &mut hrng);
    h1_relation(&mut rep, &mut matrix, "EccRel", &EccRel, EccRel::sample(&mut hrng), h1_per_rel, &mut hrng);
    if ctx.tier == Tier::Thorough {
        h1_relation(&mut rep, &mut matrix, "ShaRel", &ShaRel, ShaRel::sample(&mut hrng), h1_per_rel, &mut hrng);
    }

    rep.set("class_verdict_matrix", json!(matrix));
    let needed = ["gate", "lookup", "copy", "trash", "none"];
    for n in needed {
        if !matrix.keys().any(|k| k.contains(n)) {
            rep.inconclusive(&format!("no fault case in class {n}"));
            rep.count("missing_class");
        }
    }
    rep.min_nontrivial = (n_circuits as u64) * 4;
    rep.finish();
}

/// Proves a stdlib relation with single-cell faults injected through the H1 fault plan and
/// compares reference evaluator / mock (table-level, through H2) / real verdicts.
fn h1_relation<R: Relation>(
    rep: &mut Report,
    matrix: &mut BTreeMap<String, BTreeMap<String, u64>>,
    name: &str,
    rel: &R,
    (instance, witness): (R::Instance, R::Witness),
    n_faults: usize,
    rng: &mut ChaCha8Rng,
) {
    let k = MidnightCircuit::from_relation(rel).min_k();
    let params = params_for(k);
    let setup = catch_any(|| {
        let vk = midnight_zk_stdlib::setup_vk(params, rel);
        let pk = midnight_zk_stdlib::setup_pk(rel, &vk);
        (vk, pk)
    });
    let Ok((vk, pk)) = setup else {
        rep.inconclusive(&format!("H1 {name}: setup panicked"));
        return;
    };
    let pi = R::format_instance(&instance).expect("format_instance");
    let inst = vec![vec![], pi.clone()];
    // honest tables through the harness collector
    let mk = || {
        MidnightCircuit::new(
            rel,
            midnight_proofs::circuit::Value::known(instance.clone()),
            midnight_proofs::circuit::Value::known(witness.clone()),
            None,
        )
    };
    let honest = match collect::<Fq, _>(k, &mk(), &inst, CollectOpts::default()) {
        Ok(t) => t,
        Err(e) => {
            rep.inconclusive(&format!("H1 {name}: collect failed {e}"));
            return;
        }
    };
    if !honest.satisfied() {
        rep.violation(
            &format!("C02/h1/{name}/honest-unsatisfied"),
            &format!("reference evaluator rejects the honest assignment of a library circuit: {:?}", honest.violations(3)),
            json!({"relation": name}),
        );
        return;
    }
    let mut cells = honest.assigned_advice_cells();
    cells.shuffle(rng);
    let mut t = honest;
    for (c, r) in cells.into_iter().take(n_faults) {
        rep.eval();
        // reference verdict on the faulted table
        let old = t.advice[c][r];
        let new = old + Fq::ONE;
        t.advice[c][r] = new;
        let fails = t.violations(64);
        let classes = classes_of(&fails);
        let only_trash = !fails.is_empty() && t.violations_without_trash(1).is_empty();
        t.advice[c][r] = old;
        let stratum = format!("h1:{}", if classes.is_empty() { "none".to_string() } else { classes.join("+") });
        // mock verdict on the same table (H2)
        let mock_ok = catch_any(|| {
            let mut mp = MockProver::<Fq>::run(k, &mk(), inst.clone()).expect("mock run");
            mp.advice_mut()[c][r] = midnight_proofs::dev::CellValue::Assigned(new);
            mp.verify().is_ok()
        })
        .unwrap_or(false);
        // real verdict (H1 fault plan in the prover's witness collection)
        let mut plan = BTreeMap::new();
        plan.insert((c, r), new);
        midnight_proofs::verif_hooks::set_fault_plan::<Fq>(plan);
        let proved = catch_any(|| {
            midnight_zk_stdlib::prove::<R, H>(params, &pk, rel, &instance, witness.clone(), ChaCha8Rng::seed_from_u64(rng.gen()))
        });
        let (hits, _seen) = midnight_proofs::verif_hooks::clear_fault_plan();
        if hits.is_empty() {
            rep.inconclusive(&format!("H1 {name}: planned cell ({c},{r}) was not assigned by the prover"));
            continue;
        }
        let real_ok = match proved {
            Ok(Ok(proof)) => {
                midnight_zk_stdlib::verify::<R, H>(&params.verifier_params(), &vk, &instance, None, &proof).is_ok()
            }
            _ => false,
        };
        let reference_ok = fails.is_empty();
        *matrix
            .entry(stratum.clone())
            .or_default()
            .entry(format!("ref={reference_ok} mock={mock_ok} real={real_ok}"))
            .or_insert(0) += 1;
        rep.nontrivial(&(name.to_string(), c, r));
        let wit = json!({"relation": name, "k": k, "cell": [c, r], "classes": classes, "fault": "+1"});
        if !reference_ok && real_ok {
            rep.violation(&format!("C02/h1/{name}/real-accepts-violating[{stratum}]"), "verifier accepted a proof from a violating assignment of a library circuit", wit.clone());
        }
        if reference_ok && !real_ok {
            rep.violation(&format!("C02/h1/{name}/real-rejects-satisfying"), "fault on a cell no constraint reads made the proof fail", wit.clone());
        }
        if mock_ok != real_ok {
            let sig = if only_trash && mock_ok && !real_ok {
                "C02/h1/mock-ignores-trash-argument".to_string()
            } else {
                format!("C02/h1/{name}/mock-vs-verifier mock={mock_ok} real={real_ok} [{stratum}]")
            };
            rep.violation(&sig, "MockProver verdict differs from the verifier's on the same assignment", wit);
        }
    }
}
