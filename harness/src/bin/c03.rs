//! C03 — a proof is accepted only for the exact statement and bytes it was made for.
//!
//! Proof sources: generated-family configurations (both hashes, multi-proof, committed
//! instances) and stdlib relations through `midnight_zk_stdlib::verify`. The element boundaries
//! of every proof are derived at run time from the verifier's own reads (E2). Every mutated
//! verification must return an error; acceptance is the refuting event. A panic is recorded as
//! "not accepted" here (C16 reports panics).

use std::collections::BTreeMap;

use ff::{Field, PrimeField};
use group::{prime::PrimeCurveAffine, Curve, Group, GroupEncoding};
use midnight_curves::{Fq, G1Affine, G1Projective};
use midnight_proofs::transcript::{Hashable, Sampleable, TranscriptHash};
use midnight_zk_stdlib::{MidnightCircuit, Relation};
use mzv::{
    common::*,
    engines::{gen_circuit::*, logged_hash::*, plonk_util::*, relations::*},
};
use num_bigint::BigUint;
use rand::{seq::SliceRandom, Rng, SeedableRng};
use rand_chacha::ChaCha8Rng;
use rayon::prelude::*;
use serde_json::json;

type PState = midnight_circuits::hash::poseidon::PoseidonState<Fq>;

/// One mutated verification input.
#[derive(Clone, Debug)]
struct Mutant {
    kind: String,
    detail: String,
    proof: Vec<u8>,
    /// instances [proof][column][row] as the *prover's* full vectors (committed columns first)
    instances: Option<Vec<Vec<Vec<Fq>>>>,
    /// override committed commitments
    committed: Option<Vec<Vec<G1Projective>>>,
}

fn scalar_le() -> bool {
    Fq::ONE.to_repr().as_ref()[0] == 1
}

fn r_modulus() -> BigUint {
    BigUint::parse_bytes(Fq::MODULUS.trim_start_matches("0x").as_bytes(), 16).unwrap()
}

fn scalar_bytes_from_big(v: &BigUint) -> Option<[u8; 32]> {
    let mut b = if scalar_le() { v.to_bytes_le() } else { v.to_bytes_be() };
    if b.len() > 32 {
        return None;
    }
    if scalar_le() {
        b.resize(32, 0);
    } else {
        let mut p = vec![0u8; 32 - b.len()];
        p.extend(b);
        b = p;
    }
    b.try_into().ok()
}

fn enc(p: &G1Projective) -> Vec<u8> {
    GroupEncoding::to_bytes(p).as_ref().to_vec()
}

/// A non-trivial point of E(Fp) whose order divides the cofactor (so it is on the curve but not
/// in the prime-order subgroup): [r]R for the first curve point R with small x outside G1.
fn torsion_point() -> Option<G1Projective> {
    static T: std::sync::OnceLock<Option<G1Projective>> = std::sync::OnceLock::new();
    *T.get_or_init(|| {
        let r = r_modulus();
        for x in 1u8..=200 {
            let mut repr = <G1Projective as GroupEncoding>::Repr::default();
            let b = repr.as_mut();
            let l = b.len();
            b[l - 1] = x;
            b[0] |= 0x80; // compressed
            let p: Option<G1Projective> = G1Projective::from_bytes_unchecked(&repr).into();
            let Some(p) = p else { continue };
            // [r]p by double-and-add with the library's own addition (r is 0 as a scalar)
            let mut acc = G1Projective::identity();
            for i in (0..r.bits()).rev() {
                acc = acc.double();
                if r.bit(i) {
                    acc += p;
                }
            }
            if !bool::from(acc.is_identity()) {
                return Some(acc);
            }
        }
        None
    })
}

/// Mutations of one proof element.
fn element_mutants(kind: char, bytes: &[u8], rng: &mut ChaCha8Rng) -> Vec<(String, Vec<u8>)> {
    let mut out = vec![];
    match kind {
        'P' => {
            let mut repr = <G1Projective as GroupEncoding>::Repr::default();
            repr.as_mut().copy_from_slice(bytes);
            let p: Option<G1Projective> = G1Projective::from_bytes(&repr).into();
            if let Some(p) = p {
                out.push(("point+G".into(), enc(&(p + G1Projective::generator()))));
                out.push(("point-neg".into(), enc(&(-p))));
                out.push(("point-identity".into(), enc(&G1Projective::identity())));
                out.push(("point-random".into(), enc(&G1Projective::random(&mut *rng))));
                // same subgroup component, different cofactor component: on the curve, outside
                // the subgroup, invisible to the pairing — only the decoder can reject it
                if let Some(t) = torsion_point() {
                    out.push(("point+torsion".into(), enc(&(p + t))));
                }
            }
            // x not on the curve: bump the low byte until decoding fails
            for d in 1..=40u8 {
                let mut b = bytes.to_vec();
                let l = b.len() - 1;
                b[l] = b[l].wrapping_add(d);
                let mut r = <G1Projective as GroupEncoding>::Repr::default();
                r.as_mut().copy_from_slice(&b);
                if bool::from(G1Projective::from_bytes(&r).is_none()) {
                    out.push(("point-x-off-curve".into(), b));
                    break;
                }
            }
            // flag combinations on the first byte
            for (name, f) in [
                ("flag-uncompressed", 0x7fu8 & bytes[0]),
                ("flag-infinity-with-payload", bytes[0] | 0x40),
                ("flag-all", bytes[0] | 0xe0),
                ("flag-none", bytes[0] & 0x1f),
            ] {
                let mut b = bytes.to_vec();
                b[0] = f;
                if b != bytes {
                    out.push((name.into(), b));
                }
            }
            // x = p (non-canonical representative of 0) with the compression flag
            let p_hex = "1a0111ea397fe69a4b1ba7b6434bacd764774b84f38512bf6730d2a0f6b0f6241eabfffeb153ffffb9feffffffffaaab";
            let mut b = hex::decode(p_hex).unwrap();
            b[0] |= 0x80;
            out.push(("point-x-equals-p".into(), b));
        }
        'S' => {
            let mut repr = <Fq as PrimeField>::Repr::default();
            repr.as_mut().copy_from_slice(bytes);
            let s: Option<Fq> = Fq::from_repr(repr).into();
            if let Some(s) = s {
                out.push(("scalar+1".into(), (s + Fq::ONE).to_repr().as_ref().to_vec()));
                out.push(("scalar-zero".into(), Fq::ZERO.to_repr().as_ref().to_vec()));
                out.push(("scalar-random".into(), Fq::random(&mut *rng).to_repr().as_ref().to_vec()));
                // non-canonical: s + r when it fits 256 bits
                let v = if scalar_le() { BigUint::from_bytes_le(bytes) } else { BigUint::from_bytes_be(bytes) };
                if let Some(b) = scalar_bytes_from_big(&(v + r_modulus())) {
                    out.push(("scalar-noncanonical+r".into(), b.to_vec()));
                }
            }
            out.push(("scalar-all-ones".into(), vec![0xff; bytes.len()]));
        }
        _ => {}
    }
    out.retain(|(_, b)| b != bytes);
    out
}

fn byte_level_mutants(proof: &[u8], layout: &[(char, usize, usize)], thorough: bool, rng: &mut ChaCha8Rng) -> Vec<Mutant> {
    let mut v = vec![];
    let mk = |kind: &str, detail: String, p: Vec<u8>| Mutant {
        kind: kind.to_string(),
        detail,
        proof: p,
        instances: None,
        committed: None,
    };
    for (i, (k, off, len)) in layout.iter().enumerate() {
        for (name, b) in element_mutants(*k, &proof[*off..*off + *len], rng) {
            let mut p = proof.to_vec();
            p[*off..*off + *len].copy_from_slice(&b);
            v.push(mk(&name, format!("element {i} ({k}) at {off}"), p));
        }
        // truncation at the element boundary and in the middle of the element
        v.push(mk("truncate-boundary", format!("len {off}"), proof[..*off].to_vec()));
        v.push(mk("truncate-mid-element", format!("len {}", off + len / 2), proof[..off + len / 2].to_vec()));
    }
    for n in [1usize, 2, 3, 31] {
        if proof.len() > n {
            v.push(mk("truncate-tail", format!("{n} bytes"), proof[..proof.len() - n].to_vec()));
        }
    }
    for n in [1usize, 2, 48] {
        let mut p = proof.to_vec();
        p.extend(std::iter::repeat(0u8).take(n));
        v.push(mk("append-zero", format!("{n} bytes"), p));
        let mut p = proof.to_vec();
        p.extend((0..n).map(|_| rng.gen::<u8>()));
        v.push(mk("append-random", format!("{n} bytes"), p));
    }
    // bit flips
    for byte in 0..proof.len() {
        let bits: Vec<u8> = if thorough { (0..8).collect() } else { vec![rng.gen_range(0..8)] };
        for bit in bits {
            let mut p = proof.to_vec();
            p[byte] ^= 1 << bit;
            v.push(mk("bit-flip", format!("byte {byte} bit {bit}"), p));
        }
    }
    v
}

fn statement_mutants(case: &FamCase, vk: &VK, proof: &[u8], instances: &[Vec<Vec<Fq>>], rng: &mut ChaCha8Rng) -> Vec<Mutant> {
    let mut v = vec![];
    let mut push = |kind: &str, detail: String, inst: Vec<Vec<Vec<Fq>>>| {
        if inst != instances {
            v.push(Mutant {
                kind: kind.to_string(),
                detail,
                proof: proof.to_vec(),
                instances: Some(inst),
                committed: None,
            });
        }
    };
    for (pi, proof_inst) in instances.iter().enumerate() {
        for (ci, col) in proof_inst.iter().enumerate() {
            if ci < case.nc {
                continue; // committed columns are handled below
            }
            for ri in 0..col.len() {
                let mut i2 = instances.to_vec();
                i2[pi][ci][ri] += Fq::ONE;
                push("pi+1", format!("proof {pi} col {ci} row {ri}"), i2);
                let mut i2 = instances.to_vec();
                i2[pi][ci][ri] -= Fq::ONE;
                push("pi-1", format!("proof {pi} col {ci} row {ri}"), i2);
            }
            if col.len() >= 2 {
                let mut i2 = instances.to_vec();
                i2[pi][ci].swap(0, col.len() - 1);
                push("pi-swap", format!("proof {pi} col {ci}"), i2);
                let mut i2 = instances.to_vec();
                i2[pi][ci].rotate_left(1);
                push("pi-rotate", format!("proof {pi} col {ci}"), i2);
            }
            if !col.is_empty() {
                let mut i2 = instances.to_vec();
                i2[pi][ci].pop();
                push("pi-drop-last", format!("proof {pi} col {ci}"), i2);
            }
            let mut i2 = instances.to_vec();
            i2[pi][ci].push(Fq::ZERO);
            push("pi-append-zero", format!("proof {pi} col {ci}"), i2);
            // move the last value to another plain column
            if proof_inst.len() - case.nc >= 2 && !col.is_empty() {
                let other = if ci + 1 < proof_inst.len() { ci + 1 } else { case.nc };
                if other != ci {
                    let mut i2 = instances.to_vec();
                    let x = i2[pi][ci].pop().unwrap();
                    i2[pi][other].push(x);
                    push("pi-move-column", format!("proof {pi} col {ci}->{other}"), i2);
                }
            }
        }
    }
    // exchange the instance vectors of two proofs of the batch
    if instances.len() >= 2 {
        let mut i2 = instances.to_vec();
        i2.swap(0, 1);
        push("pi-exchange-proofs", "proofs 0<->1".into(), i2);
    }
    // committed instances: other vector / identity
    if case.nc > 0 {
        let base = committed_of(vk, case.spec.k, instances, case.nc);
        for pi in 0..instances.len() {
            for ci in 0..case.nc {
                let mut c2 = base.clone();
                let mut other = instances[pi][ci].clone();
                other.push(Fq::from(rng.gen::<u64>()));
                c2[pi][ci] = committed_of(vk, case.spec.k, &[vec![other]], 1)[0][0];
                if c2 != base {
                    v.push(Mutant {
                        kind: "committed-other-vector".into(),
                        detail: format!("proof {pi} col {ci}"),
                        proof: proof.to_vec(),
                        instances: None,
                        committed: Some(c2),
                    });
                }
                let mut c2 = base.clone();
                c2[pi][ci] = G1Projective::identity();
                if c2 != base {
                    v.push(Mutant {
                        kind: "committed-identity".into(),
                        detail: format!("proof {pi} col {ci}"),
                        proof: proof.to_vec(),
                        instances: None,
                        committed: Some(c2),
                    });
                }
            }
        }
    }
    v
}

struct Tally {
    evaluations: u64,
    by_kind: BTreeMap<String, (u64, u64)>, // kind -> (rejected, panicked)
    accepted: Vec<(String, String, serde_json::Value)>,
    distinct: Vec<u64>,
}

fn run_source<H>(case: &FamCase, thorough: bool, seed: u64, idx: usize) -> Result<(Tally, serde_json::Value), String>
where
    H: TranscriptHash,
    G1Projective: Hashable<H>,
    Fq: Hashable<H> + Sampleable<H>,
    Logged<H>: TranscriptHash,
    G1Projective: Hashable<Logged<H>>,
    Fq: Hashable<Logged<H>> + Sampleable<Logged<H>>,
{
    let mut rng = rng_for(seed, &format!("c03-src-{idx}"));
    let (vk, pk) = keygen_family(&case.spec)?;
    let proof = prove_family::<H>(case, &pk)?;
    let instances = instances_of(case);
    let (committed, plain) = split_for_verifier(&vk, case, &instances);
    // honest verification with the logged hash: layout from the verifier's reads
    start_log();
    let honest = verify_family::<Logged<H>>(&vk, case.spec.k, &committed, &plain, &proof);
    let log = take_log();
    honest.map_err(|e| format!("honest proof rejected ({e}) — reported by C01"))?;
    let layout = layout_from_log(&log);
    let covered: usize = layout.iter().map(|l| l.2).sum();
    if covered != proof.len() {
        return Err(format!("layout covers {covered} of {} proof bytes", proof.len()));
    }

    let mut mutants = byte_level_mutants(&proof, &layout, thorough, &mut rng);
    mutants.extend(statement_mutants(case, &vk, &proof, &instances, &mut rng));

    let mut tally = Tally {
        evaluations: 0,
        by_kind: BTreeMap::new(),
        accepted: vec![],
        distinct: vec![],
    };
    let results: Vec<(usize, Result<(), String>)> = mutants
        .par_iter()
        .enumerate()
        .map(|(i, m)| {
            let inst = m.instances.clone().unwrap_or_else(|| instances.clone());
            let (c0, p0) = split_for_verifier(&vk, case, &inst);
            let c = m.committed.clone().unwrap_or(c0);
            // statement edits keep the original commitments unless overridden
            let c = if m.instances.is_some() && m.committed.is_none() { committed.clone() } else { c };
            (i, verify_family::<H>(&vk, case.spec.k, &c, &p0, &m.proof))
        })
        .collect();
    for (i, r) in results {
        let m = &mutants[i];
        tally.evaluations += 1;
        tally.distinct.push(fnv(format!("{idx}/{}/{}", m.kind, m.detail).as_bytes()));
        let e = tally.by_kind.entry(m.kind.clone()).or_insert((0, 0));
        match r {
            Ok(()) => tally.accepted.push((
                m.kind.clone(),
                m.detail.clone(),
                json!({"case": case, "mutation": m.kind, "detail": m.detail, "proof_hex": hx(&m.proof),
                       "instances": m.instances.as_ref().map(|i| format!("{i:?}"))}),
            )),
            Err(e2) if e2.starts_with("panic@") => e.1 += 1,
            Err(_) => e.0 += 1,
        }
    }

    // wrong verifying keys / wrong hash
    let mut wrong: Vec<(String, Result<(), String>)> = vec![];
    {
        let mut s2 = case.spec.clone();
        s2.plan_seed ^= 0x9e37;
        if let Ok((vk2, _)) = keygen_family(&s2) {
            wrong.push(("vk-other-circuit-same-shape".into(), verify_family::<H>(&vk2, s2.k, &committed, &plain, &proof)));
        }
        let mut s3 = case.spec.clone();
        s3.k += 1;
        if let Ok((vk3, _)) = keygen_family(&s3) {
            let c3 = committed_of(&vk3, s3.k, &instances, case.nc);
            wrong.push(("vk-same-circuit-other-k".into(), verify_family::<H>(&vk3, s3.k, &c3, &plain, &proof)));
        }
        if case.spec.tweak_col {
            let mut s4 = case.spec.clone();
            s4.tweak_val += 1;
            if let Ok((vk4, _)) = keygen_family(&s4) {
                wrong.push(("vk-one-fixed-cell-changed".into(), verify_family::<H>(&vk4, s4.k, &committed, &plain, &proof)));
            }
        }
    }
    for (kind, r) in wrong {
        tally.evaluations += 1;
        tally.distinct.push(fnv(format!("{idx}/{kind}").as_bytes()));
        let e = tally.by_kind.entry(kind.clone()).or_insert((0, 0));
        match r {
            Ok(()) => tally.accepted.push((kind.clone(), String::new(), json!({"case": case, "mutation": kind}))),
            Err(e2) if e2.starts_with("panic@") => e.1 += 1,
            Err(_) => e.0 += 1,
        }
    }
    let sample = json!({"source": {"k": case.spec.k, "features": case.spec.features(), "np": case.np, "nc": case.nc, "poseidon": case.poseidon},
        "proof_bytes": proof.len(), "elements": layout.len(), "points": layout.iter().filter(|l| l.0 == 'P').count(),
        "scalars": layout.iter().filter(|l| l.0 == 'S').count(), "mutants": mutants.len()});
    Ok((tally, sample))
}

/// Wrong-hash check and façade-level checks on a stdlib relation.
fn relation_checks<R: Relation>(
    name: &str,
    rel: &R,
    (instance, witness): (R::Instance, R::Witness),
    other_instance: R::Instance,
    rng: &mut ChaCha8Rng,
    rep: &mut Report,
) {
    let k = MidnightCircuit::from_relation(rel).min_k();
    let params = params_for(k);
    let res = catch_any(|| {
        let vk = midnight_zk_stdlib::setup_vk(params, rel);
        let pk = midnight_zk_stdlib::setup_pk(rel, &vk);
        let proof = midnight_zk_stdlib::prove::<R, blake2b_simd::State>(
            params, &pk, rel, &instance, witness.clone(), ChaCha8Rng::seed_from_u64(rng.gen()),
        )
        .map_err(|e| format!("{e:?}"))?;
        Ok::<_, String>((vk, proof))
    });
    let (vk, proof) = match res {
        Ok(Ok(x)) => x,
        other => {
            rep.inconclusive(&format!("relation {name}: setup/prove failed: {:?}", other.map(|r| r.map(|_| ()))));
            return;
        }
    };
    let vp = params.verifier_params();
    let ok = midnight_zk_stdlib::verify::<R, blake2b_simd::State>(&vp, &vk, &instance, None, &proof);
    if ok.is_err() {
        rep.inconclusive(&format!("relation {name}: honest proof rejected (reported by C01)"));
        return;
    }
    let mut check = |kind: &str, r: Result<Result<(), midnight_proofs::plonk::Error>, PanicInfo>, rep: &mut Report| {
        rep.eval();
        rep.nontrivial(&format!("{name}/{kind}"));
        match r {
            Ok(Ok(())) => rep.violation(
                &format!("C03/relation/{kind}/accepted"),
                &format!("midnight_zk_stdlib::verify accepted a proof of {name} under mutation {kind}"),
                json!({"relation": name, "mutation": kind, "proof_hex": hx(&proof)}),
            ),
            Ok(Err(_)) => rep.count(&format!("relation.{kind}.rejected")),
            Err(_) => rep.count(&format!("relation.{kind}.panicked(reported by C16)")),
        }
    };
    // wrong transcript hash
    check("wrong-transcript-hash", catch_any(|| midnight_zk_stdlib::verify::<R, PState>(&vp, &vk, &instance, None, &proof)), rep);
    // other statement
    check("other-instance", catch_any(|| midnight_zk_stdlib::verify::<R, blake2b_simd::State>(&vp, &vk, &other_instance, None, &proof)), rep);
    // a committed instance although none was used
    check(
        "spurious-committed-instance",
        catch_any(|| midnight_zk_stdlib::verify::<R, blake2b_simd::State>(&vp, &vk, &instance, Some(G1Affine::generator()), &proof)),
        rep,
    );
    // trailing bytes / truncation through the façade
    let mut p2 = proof.clone();
    p2.push(0);
    check("append-zero", catch_any(|| midnight_zk_stdlib::verify::<R, blake2b_simd::State>(&vp, &vk, &instance, None, &p2)), rep);
    let p3 = proof[..proof.len() - 1].to_vec();
    check("truncate-1", catch_any(|| midnight_zk_stdlib::verify::<R, blake2b_simd::State>(&vp, &vk, &instance, None, &p3)), rep);
    // the same through the batch entry point
    let pi_ok = R::format_instance(&instance).unwrap();
    check(
        "batch-append-zero",
        catch_any(|| midnight_zk_stdlib::batch_verify::<blake2b_simd::State>(&vp, &[vk.clone()], &[pi_ok.clone()], &[p2.clone()])),
        rep,
    );
    check(
        "batch-truncate-1",
        catch_any(|| midnight_zk_stdlib::batch_verify::<blake2b_simd::State>(&vp, &[vk.clone()], &[pi_ok.clone()], &[p3.clone()])),
        rep,
    );
    let mut p4 = proof.clone();
    p4.extend((0..48).map(|_| rng.gen::<u8>()));
    check(
        "batch-append-random-48",
        catch_any(|| midnight_zk_stdlib::batch_verify::<blake2b_simd::State>(&vp, &[vk.clone()], &[pi_ok.clone()], &[p4.clone()])),
        rep,
    );
    // batch_verify with a public-input vector of the wrong length (nb_public_inputs pinned in the key)
    let pi = R::format_instance(&instance).unwrap();
    let mut pi_long = pi.clone();
    pi_long.push(Fq::ZERO);
    check(
        "batch-pi-append-zero",
        catch_any(|| midnight_zk_stdlib::batch_verify::<blake2b_simd::State>(&vp, &[vk.clone()], &[pi_long.clone()], &[proof.clone()])),
        rep,
    );
    if !pi.is_empty() {
        let pi_short = pi[..pi.len() - 1].to_vec();
        check(
            "batch-pi-drop-last",
            catch_any(|| midnight_zk_stdlib::batch_verify::<blake2b_simd::State>(&vp, &[vk.clone()], &[pi_short.clone()], &[proof.clone()])),
            rep,
        );
        // honest batch of one must pass (sanity of the batch path used above)
        let honest = midnight_zk_stdlib::batch_verify::<blake2b_simd::State>(&vp, &[vk.clone()], &[pi.clone()], &[proof.clone()]);
        if honest.is_err() {
            rep.count("relation.batch-honest-rejected(reported by C15)");
        }
    }
}

/// Element decoders must refuse a truncated element whatever the missing bytes are: elements whose
/// trailing bytes are zero are truncated by 1..len-1 bytes.
fn decoder_truncation<H>(hname: &str, rep: &mut Report, rng: &mut ChaCha8Rng)
where
    H: TranscriptHash,
    G1Projective: Hashable<H>,
    Fq: Hashable<H> + Sampleable<H>,
{
    // scalars with many trailing zero bytes in their encoding
    for v in [Fq::ZERO, Fq::ONE, Fq::from(0x1234)] {
        let bytes = <Fq as Hashable<H>>::to_bytes(&v);
        for cut in 1..bytes.len() {
            rep.eval();
            rep.nontrivial(&(hname.to_string(), "dec-scalar", cut, bytes.clone()));
            let mut buf: &[u8] = &bytes[..bytes.len() - cut];
            if let Ok(Ok(_)) = catch_any(|| <Fq as Hashable<H>>::read(&mut buf)) {
                rep.violation(
                    &format!("C03/decoder/{hname}/scalar/accepts-truncated-element"),
                    &format!("Hashable::read accepted a scalar encoding truncated by {cut} byte(s): a proof ending in it verifies after truncation"),
                    json!({"hash": hname, "encoding": hx(&bytes), "cut": cut}),
                );
                break;
            }
        }
    }
    // a point whose encoding ends in a zero byte (grind), and the identity
    let mut pts = vec![G1Projective::identity()];
    for _ in 0..4000 {
        let p = G1Projective::random(&mut *rng);
        if *enc(&p).last().unwrap() == 0 {
            pts.push(p);
            break;
        }
    }
    for p in pts {
        let bytes = <G1Projective as Hashable<H>>::to_bytes(&p);
        for cut in 1..bytes.len() {
            if bytes[bytes.len() - cut..].iter().any(|b| *b != 0) {
                break;
            }
            rep.eval();
            rep.nontrivial(&(hname.to_string(), "dec-point", cut, bytes.clone()));
            let mut buf: &[u8] = &bytes[..bytes.len() - cut];
            if let Ok(Ok(_)) = catch_any(|| <G1Projective as Hashable<H>>::read(&mut buf)) {
                rep.violation(
                    &format!("C03/decoder/{hname}/point/accepts-truncated-element"),
                    &format!("Hashable::read accepted a point encoding truncated by {cut} byte(s): a proof ending in it verifies after truncation"),
                    json!({"hash": hname, "encoding": hx(&bytes), "cut": cut}),
                );
                break;
            }
        }
    }
}

/// Proof-level version: grind honest proofs of one small circuit until the last byte is zero, then
/// the proof with that byte removed must be rejected.
fn grind_truncated_tail<H>(hname: &str, case: &FamCase, budget: usize, rep: &mut Report)
where
    H: TranscriptHash,
    G1Projective: Hashable<H>,
    Fq: Hashable<H> + Sampleable<H>,
{
    let Ok((vk, pk)) = keygen_family(&case.spec) else { return };
    let found: Option<(FamCase, Vec<u8>)> = (0..budget as u64).into_par_iter().find_map_any(|i| {
        let mut c = case.clone();
        c.wseeds = vec![case.wseeds[0].wrapping_add(i * 7919)];
        let proof = prove_family::<H>(&c, &pk).ok()?;
        (*proof.last()? == 0).then_some((c, proof))
    });
    let Some((c, proof)) = found else {
        rep.count(&format!("grind.{hname}.no_zero_tail_found"));
        return;
    };
    let instances = instances_of(&c);
    let (committed, plain) = split_for_verifier(&vk, &c, &instances);
    if verify_family::<H>(&vk, c.spec.k, &committed, &plain, &proof).is_err() {
        return;
    }
    rep.eval();
    rep.nontrivial(&(hname.to_string(), "grind-tail"));
    rep.count(&format!("grind.{hname}.zero_tail_proof_tested"));
    if verify_family::<H>(&vk, c.spec.k, &committed, &plain, &proof[..proof.len() - 1]).is_ok() {
        rep.violation(
            "C03/family/truncate-tail/accepted",
            &format!("a proof ({hname} transcript) whose last byte is zero is accepted after that byte is removed"),
            json!({"case": c, "proof_hex": hx(&proof)}),
        );
    }
}

fn main() {
    let ctx = Ctx::from_args("C03");
    let mut rep = Report::new(
        &ctx,
        "case = (honest proof source, one mutation of the proof bytes / public inputs / committed instance / verifying key / transcript hash); \
         non-trivial iff the mutated input differs from the honest one; distinct = distinct (source, mutation kind, position). \
         Element boundaries are taken from the verifier's own reads of the honest proof (logged at the Hashable::read boundary), not hard-coded.",
    );
    rep.assume("acceptance with probability <= 2^-100 (hash collisions) is ignored");
    rep.assume("panics are counted as 'not accepted' here and reported by C16");
    let thorough = ctx.tier == Tier::Thorough;
    let n_sources = ctx.extra.get("sources").and_then(|c| c.parse().ok()).unwrap_or(ctx.tier.pick(8usize, 24usize));

    // sources: cycle through configurations so that both hashes, multi-proof and committed
    // instances are present; specs sampled from the family with feature-rich knobs
    let mut rng = ctx.rng("c03-sources");
    let mut sources: Vec<FamCase> = vec![];
    let mut attempts = 0;
    while sources.len() < n_sources && attempts < n_sources * 10 {
        attempts += 1;
        let mut knobs = GenKnobs::sample(&mut rng);
        knobs.n_gates = knobs.n_gates.max(1);
        knobs.copies = true;
        knobs.n_instance = knobs.n_instance.max(2);
        if sources.len() % 2 == 0 {
            knobs.n_lookups = knobs.n_lookups.max(1);
            knobs.n_trash = knobs.n_trash.max(1);
        }
        let Some(mut spec) = gen_spec::<Fq>(&mut rng, &knobs, 7) else { continue };
        spec.tweak_col = true;
        spec.n_inst_expose = spec.n_inst_expose.max(2);
        spec.inst_free = spec.inst_free.max(2);
        let i = sources.len();
        let np = if i % 4 == 3 { 2 } else { 1 };
        let nc = [0usize, 1, 0, 1, 2][i % 5].min(spec.n_instance - 1);
        let poseidon = i % 2 == 1;
        sources.push(FamCase {
            spec,
            np,
            nc,
            poseidon,
            wseeds: (0..np).map(|_| rng.gen()).collect(),
        });
    }
    for k in 4..=8 {
        let _ = params_for(k);
    }
    let mut by_kind: BTreeMap<String, (u64, u64)> = BTreeMap::new();
    for (idx, case) in sources.iter().enumerate() {
        let r = if case.poseidon {
            run_source::<PState>(case, thorough, ctx.seed, idx)
        } else {
            run_source::<blake2b_simd::State>(case, thorough, ctx.seed, idx)
        };
        match r {
            Err(e) => rep.inconclusive(&format!("source {idx}: {e}")),
            Ok((t, sample)) => {
                rep.evals(t.evaluations);
                for d in t.distinct {
                    rep.nontrivial_hash(d);
                }
                for (k, (a, b)) in t.by_kind {
                    let e = by_kind.entry(k).or_insert((0, 0));
                    e.0 += a;
                    e.1 += b;
                }
                rep.sample(sample);
                for (kind, detail, wit) in t.accepted {
                    rep.violation(
                        &format!("C03/family/{kind}/accepted"),
                        &format!("verification accepted a mutated input: {kind} ({detail})"),
                        wit,
                    );
                }
            }
        }
    }
    rep.set(
        "mutation_kinds",
        json!(by_kind.iter().map(|(k, (r, p))| (k.clone(), json!({"rejected": r, "panicked": p}))).collect::<BTreeMap<_, _>>()),
    );
    let panics: u64 = by_kind.values().map(|v| v.1).sum();
    rep.count_n("panicked_not_accepted(reported by C16)", panics);

    // element decoders and zero-tail proofs
    let mut drng = ctx.rng("c03-decoders");
    decoder_truncation::<blake2b_simd::State>("blake2b", &mut rep, &mut drng);
    decoder_truncation::<PState>("poseidon", &mut rep, &mut drng);
    if let Some(small) = sources.iter().min_by_key(|c| c.spec.k) {
        let mut c = small.clone();
        c.np = 1;
        c.nc = 0;
        c.wseeds.truncate(1);
        let budget = ctx.tier.pick(1500, 6000);
        grind_truncated_tail::<blake2b_simd::State>("blake2b", &c, budget, &mut rep);
        grind_truncated_tail::<PState>("poseidon", &c, budget, &mut rep);
    }

    // stdlib relations through the façade
    let mut rrng = ctx.rng("c03-relations");
    let (i1, w1) = ArithRel::sample(&mut rrng);
    let (i1b, _) = ArithRel::sample(&mut rrng);
    relation_checks("ArithRel", &ArithRel, (i1, w1), i1b, &mut rrng, &mut rep);
    let (i2, w2) = PoseidonRel::sample(&mut rrng);
    let (i2b, _) = PoseidonRel::sample(&mut rrng);
    relation_checks("PoseidonRel", &PoseidonRel, (i2, w2), i2b, &mut rrng, &mut rep);
    let (i3, w3) = EccRel::sample(&mut rrng);
    let (i3b, _) = EccRel::sample(&mut rrng);
    relation_checks("EccRel", &EccRel, (i3, w3), i3b, &mut rrng, &mut rep);

    let _ = (G1Affine::identity(), G1Projective::identity().to_affine());
    let _ = [1u8].choose(&mut rrng);
    rep.min_nontrivial = 1000;
    rep.finish();
}
