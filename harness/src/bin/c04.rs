//! C04 — native-field gadgets are complete and sound w.r.t. their mathematical meaning.
//!
//! Catalogue driver: one `Entry` (c04_ops/entry.rs) per method of the instruction traits in
//! `circuits/src/instructions/` as implemented on `ZkStdLib` for natives, bits, bytes, bounded
//! values, vectors and the map gadget. Per (entry, input) `engines::catalogue::check_op` does
//! completeness, output edits, out-of-domain and the single-position adversarial repair search;
//! `c04_ops/attacks.rs` adds multi-position attacks (alternative encodings, cross-input claims,
//! out-of-domain inputs at the constraint level). Operand classes: c04_ops/cat.rs.

use std::{
    collections::{BTreeMap, BTreeSet},
    sync::{
        atomic::{AtomicUsize, Ordering},
        Mutex,
    },
};

use mzv::{
    common::*,
    engines::{ars::ArsBudget, catalogue::*},
};
use serde_json::json;

#[path = "c04_ops/attacks.rs"]
mod attacks;
#[path = "c04_ops/cat.rs"]
mod cat;
#[path = "c04_ops/entry.rs"]
mod entry;

use attacks::{run_extra, ExtraStats};
use entry::{Entry, Kind, V};

/// operations of the instruction traits that cannot be reached from outside the crates through
/// `ZkStdLib` (no public field / accessor leads to the implementing chip)
const UNREACHABLE: &[&str] = &[
    "Pow2RangeInstructions::assert_values_lower_than_2_pow_n (implemented by Pow2RangeChip; ZkStdLib keeps core_decomposition_chip private and has no accessor; exercised indirectly by every range check)",
    "AssignedVector buffer/len cells (pub(crate), no accessor): vector contents are observed through get_limits, padding_flag and the off-circuit InnerValue::value() only",
    "EqualityInstructions/AssertionInstructions for AssignedVector and [AssignedByte; N] (implemented by VectorGadget / NativeGadget, not forwarded by ZkStdLib)",
    "ComparisonInstructions / UnsafeConversionInstructions on ZkStdLib itself (not implemented by the façade; reached through jubjub().native_gadget())",
    "ConversionInstructions::convert_value (off-circuit helper, no constraints: outside this property)",
    "MapGadget with a tree over another hash (ZkStdLib fixes Poseidon)",
];

#[derive(Clone)]
struct Config {
    max_bit_len: u8,
    cols: u8,
    /// thorough catalogue + 25 inputs + thorough ARS budget
    deep: bool,
    /// only entries that go through the range-check chip
    range_only: bool,
    /// only the batched small-value assignments (their layout depends on nr_pow2range_cols)
    batches_only: bool,
}

struct Job {
    /// replay of an extra-attack witness: (target instance, out-of-domain family)
    replay_target: Option<(Vec<midnight_curves::Fq>, bool)>,
    idx: usize,
    key: String,
    entry: Entry,
    inputs: Vec<Vec<V>>,
    opts: OpOptions,
    deep: bool,
    weight: usize,
}

struct JobOut {
    idx: usize,
    key: String,
    trait_name: &'static str,
    stats: OpStats,
    extra: ExtraStats,
    part: Report,
}

fn run_job(job: &Job, seed: u64, proto: &Report) -> JobOut {
    let run_all = |part: &mut Report| {
        if let Some((target, ood)) = &job.replay_target {
            let ex = attacks::replay_extra(&job.entry, &job.inputs[0], target, *ood, job.opts.max_bit_len, job.deep, seed, part);
            return (OpStats::default(), ex);
        }
        let inputs = attacks::preflight(&job.entry, &job.inputs, job.opts.max_bit_len, part);
        let st = check_op(&job.entry, &inputs, &job.opts, seed, part);
        let narrow = job.opts.ars.clone().unwrap_or_else(ArsBudget::quick);
        let ex = run_extra(&job.entry, &inputs, job.opts.max_bit_len, job.deep, seed, &narrow, part);
        (st, ex)
    };
    let mut part = proto.fork();
    let (stats, extra) = run_all(&mut part);
    if !part.violations.is_empty() {
        // re-execute the case once before reporting (BUILDERS.md); keep what reproduces
        let mut again = proto.fork();
        let _ = run_all(&mut again);
        let sigs: BTreeSet<String> = again.violations.iter().map(|v| v.signature.clone()).collect();
        let all = std::mem::take(&mut part.violations);
        for v in all {
            if sigs.contains(&v.signature) {
                part.violations.push(v);
            } else {
                part.inconclusive(&format!("violation {} did not reproduce on re-execution", v.signature));
            }
        }
    }
    JobOut { idx: job.idx, key: job.key.clone(), trait_name: job.entry.kind.trait_name(), stats, extra, part }
}

fn main() {
    let mut ctx = Ctx::from_args("C04");
    // --replay <file>: re-run exactly the recorded (operation, input)
    let mut replay: Option<(String, Option<Vec<V>>)> = None;
    let mut replay_target: Option<(Vec<midnight_curves::Fq>, bool)> = None;
    if let Some(path) = ctx.replay.clone() {
        match load_replay(&path) {
            Some(j) => {
                if let Some(s) = j.get("seed").and_then(|s| s.as_u64()) {
                    ctx.seed = s;
                }
                if j.get("tier").and_then(|t| t.as_str()) == Some("thorough") {
                    ctx.tier = Tier::Thorough;
                }
                let w = &j["witness"];
                let op = w["op"].as_str().unwrap_or("").to_string();
                let input = w["input"].as_str().or(w["base_input"].as_str()).and_then(V::parse_list);
                if let Some(acc) = w["accepted_instance"].as_array() {
                    let t: Option<Vec<midnight_curves::Fq>> =
                        acc.iter().map(|h| h.as_str().and_then(|h| V::parse(&format!("N:{h}"))).map(|v| v.n())).collect();
                    let ood = j["signature"].as_str().map(|s| s.ends_with("accepts-out-of-domain-input")).unwrap_or(false);
                    replay_target = t.map(|t| (t, ood));
                }
                replay = Some((op, input));
            }
            None => {
                eprintln!("cannot read replay file {}", path.display());
                std::process::exit(2);
            }
        }
    }
    let mut rep = Report::new(
        &ctx,
        "case = (catalogue entry, input, max_bit_len, nr_pow2range_cols): the honest run must be accepted (reference evaluator and MockProver) with instance = reference(input) \
         written from the trait documentation over BigUint/bool/bytes; every output position edited (+1, 0, complement, negation, other values of the case) must be rejected; \
         inputs outside the documented domain must be unsatisfiable (synthesis panic/error counts as rejection, and the constraints are attacked from an admissible run); \
         the adversarial repair search (single edited outputs, alternative encodings x+p, wrap-around quotients, cross-input claims) must find no assignment that MockProver and \
         (k<=12) the real verifier accept. Non-trivial = distinct (operation, input) whose honest run was accepted, or out-of-domain input that was rejected.",
    );
    rep.assume("ARS is a bounded heuristic search: 'held' = no attack within the node budget from the listed targets");
    rep.assume("vector contents are only observable through get_limits/padding_flag/value() from outside the crate (buffer cells are pub(crate))");
    rep.assume("map reference = circuits::map::cpu::MapMt over the repository's Poseidon (DESIGN names it as the reference for the map)");
    let thorough = ctx.tier == Tier::Thorough;

    let configs: Vec<Config> = if thorough {
        vec![
            Config { max_bit_len: 8, cols: 1, deep: true, range_only: false, batches_only: false },
            Config { max_bit_len: 10, cols: 1, deep: false, range_only: false, batches_only: false },
            Config { max_bit_len: 13, cols: 1, deep: false, range_only: false, batches_only: false },
            Config { max_bit_len: 8, cols: 2, deep: false, range_only: true, batches_only: false },
            Config { max_bit_len: 8, cols: 3, deep: false, range_only: true, batches_only: false },
            Config { max_bit_len: 8, cols: 4, deep: false, range_only: true, batches_only: false },
            Config { max_bit_len: 10, cols: 4, deep: false, range_only: true, batches_only: false },
            Config { max_bit_len: 13, cols: 2, deep: false, range_only: true, batches_only: false },
        ]
    } else {
        vec![
            Config { max_bit_len: 8, cols: 1, deep: false, range_only: false, batches_only: false },
            Config { max_bit_len: 8, cols: 2, deep: false, range_only: true, batches_only: true },
            Config { max_bit_len: 8, cols: 3, deep: false, range_only: true, batches_only: true },
            Config { max_bit_len: 8, cols: 4, deep: false, range_only: true, batches_only: true },
        ]
    };

    // ---- jobs ----
    let mut jobs: Vec<Job> = vec![];
    let mut entries_json = vec![];
    let mut per_trait: BTreeMap<&'static str, BTreeSet<String>> = BTreeMap::new();
    for (ci, cfg) in configs.iter().enumerate() {
        for kind in cat::catalogue(cfg.deep) {
            if cfg.range_only && !kind.uses_range_checks() {
                continue;
            }
            if cfg.batches_only && !matches!(kind, Kind::AssignMany { .. }) {
                continue;
            }
            // debugging aid: MZV_C04_ONLY=<substring of the entry label> restricts the run
            if let Ok(only) = std::env::var("MZV_C04_ONLY") {
                if !kind.label().contains(&only) {
                    continue;
                }
            }
            let label = kind.label();
            let mut rng = ctx.rng(&format!("inputs-{label}"));
            let mut inputs = cat::inputs_for(&kind, cfg.deep, &mut rng);
            let entry = Entry { kind: kind.clone(), cols: cfg.cols };
            if let Some((op, inp)) = &replay {
                if entry.kind.name() != *op {
                    continue;
                }
                if let Some(x) = inp {
                    if !entry.fits(x) {
                        continue;
                    }
                    inputs = vec![x.clone()];
                }
            }
            let mut opts = OpOptions::new("C04", cfg.deep);
            opts.max_bit_len = cfg.max_bit_len;
            // number of output positions of this entry (cost of the search grows with it)
            let n_out = inputs.iter().find_map(|x| entry.reference(x).map(|v| v.len() - entry.n_input_positions(x))).unwrap_or(0);
            if cfg.deep {
                // deep configuration: the engine's thorough budget (256 restarts x 10 000 nodes per
                // target); entries with more than 8 output positions: 8 positions, 64 restarts (every
                // restart rebuilds the copy classes of a circuit with hundreds of public inputs)
                if n_out > 8 {
                    opts.ars = Some(ArsBudget { restarts: 64, nodes_per_restart: 10_000, max_changed: 48 });
                    opts.max_positions = 8;
                }
            } else if cfg.max_bit_len >= 13 {
                // k >= 14: every table pass is 16x the cost of k = 10
                inputs.truncate(3);
            }
            if matches!(kind, Kind::MapGet | Kind::MapInsert) {
                // large circuits (k >= 13): keep the search affordable
                opts.ars = Some(ArsBudget { restarts: if cfg.deep { 16 } else { 6 }, nodes_per_restart: 2000, max_changed: 24 });
                opts.seed_cells = if cfg.deep { 48 } else { 12 };
                opts.seed_inputs = 1;
            }
            if ci == 0 {
                entries_json.push(json!({"entry": label, "trait": kind.trait_name(), "signature_name": kind.name(), "inputs": inputs.len()}));
            }
            per_trait.entry(kind.trait_name()).or_default().insert(label.clone());
            let weight = entry_weight(&entry, &inputs);
            jobs.push(Job {
                replay_target: replay_target.clone(),
                idx: jobs.len(),
                key: format!("{label} @mbl={},cols={}", cfg.max_bit_len, cfg.cols),
                entry,
                inputs,
                opts,
                deep: cfg.deep,
                weight,
            });
        }
    }
    // the same (entry, input) run under several configurations (max_bit_len, range-check columns)
    // is ONE distinct case of the report: the floor is half of the distinct planned pairs
    let planned_inputs: usize = {
        let mut seen: std::collections::HashSet<(String, String)> = std::collections::HashSet::new();
        for j in &jobs {
            for x in &j.inputs {
                seen.insert((j.entry.name(), format!("{x:?}")));
            }
        }
        seen.len()
    };
    let restricted = std::env::var("MZV_C04_ONLY").is_ok();
    if replay.is_none() && !restricted {
        rep.min_nontrivial = (planned_inputs / 2) as u64;
    }

    // ---- run: plain OS threads (the real prover's thread-local fault plan and rayon's work
    // stealing do not mix: a rayon worker that blocks inside `prove` could start another
    // operation on the same thread); inner parallelism stays on the global rayon pool ----
    let order: Vec<usize> = {
        let mut o: Vec<usize> = (0..jobs.len()).collect();
        o.sort_by_key(|i| std::cmp::Reverse(jobs[*i].weight));
        o
    };
    let next = AtomicUsize::new(0);
    let outs: Mutex<Vec<JobOut>> = Mutex::new(vec![]);
    let n_threads = std::thread::available_parallelism().map(|n| n.get()).unwrap_or(8).min(32);
    let progress = std::env::var("MZV_PROGRESS").is_ok();
    std::thread::scope(|s| {
        for t in 0..n_threads {
            let (jobs, order, next, outs, rep, seed) = (&jobs, &order, &next, &outs, &rep, ctx.seed);
            std::thread::Builder::new()
                .name(format!("c04-{t}"))
                .stack_size(64 << 20)
                .spawn_scoped(s, move || loop {
                    let i = next.fetch_add(1, Ordering::SeqCst);
                    if i >= order.len() {
                        break;
                    }
                    let job = &jobs[order[i]];
                    let t0 = std::time::Instant::now();
                    let out = run_job(job, seed, rep);
                    if progress {
                        eprintln!("[c04] {:>4}/{} {:6.1}s {}", i + 1, order.len(), t0.elapsed().as_secs_f64(), job.key);
                    }
                    outs.lock().unwrap().push(out);
                })
                .expect("spawn worker");
        }
    });
    let mut outs = outs.into_inner().unwrap();
    outs.sort_by_key(|o| o.idx);

    // ---- merge ----
    let mut stats: BTreeMap<String, OpStats> = BTreeMap::new();
    let mut extra_json = serde_json::Map::new();
    let mut tot = OpStats::default();
    let mut tot_extra = ExtraStats::default();
    let mut honest_per_trait: BTreeMap<&'static str, u64> = BTreeMap::new();
    for o in outs {
        tot.honest_runs += o.stats.honest_runs;
        tot.edits += o.stats.edits;
        tot.out_of_domain += o.stats.out_of_domain;
        tot.ars_targets += o.stats.ars_targets;
        tot.ars_nodes += o.stats.ars_nodes;
        tot.ars_candidates_wrong_output += o.stats.ars_candidates_wrong_output;
        tot.ars_candidates_same_output += o.stats.ars_candidates_same_output;
        tot_extra.alt_targets += o.extra.alt_targets;
        tot_extra.cross_targets += o.extra.cross_targets;
        tot_extra.ood_targets += o.extra.ood_targets;
        tot_extra.nodes += o.extra.nodes;
        tot_extra.candidates += o.extra.candidates;
        *honest_per_trait.entry(o.trait_name).or_default() += o.stats.honest_runs;
        if o.extra.alt_targets + o.extra.cross_targets + o.extra.ood_targets > 0 {
            extra_json.insert(
                o.key.clone(),
                json!({"alt": o.extra.alt_targets, "cross": o.extra.cross_targets, "ood": o.extra.ood_targets, "nodes": o.extra.nodes, "candidates": o.extra.candidates}),
            );
        }
        stats.insert(o.key, o.stats);
        rep.merge(o.part);
    }
    // per-name counters of the driver are redundant with per_operation: keep the evidence small
    rep.counters.retain(|k, _| !(k.ends_with(".honest_runs") || k.ends_with(".edits") || k.ends_with(".ars_targets") || k.ends_with(".ars_nodes")));
    for (t, set) in &per_trait {
        if honest_per_trait.get(t).copied().unwrap_or(0) == 0 && replay.is_none() && !restricted {
            rep.inconclusive(&format!("trait {t}: {} planned entries, no honest run executed", set.len()));
            rep.min_nontrivial = u64::MAX;
        }
    }
    rep.set("per_operation", stats_json(&stats));
    rep.set("extra_attacks_per_operation", serde_json::Value::Object(extra_json));
    rep.set("catalogue_entries", json!(entries_json));
    rep.set(
        "entries_per_trait",
        json!(per_trait.iter().map(|(t, s)| (t.to_string(), json!({"entries": s.len(), "honest_runs": honest_per_trait.get(t).copied().unwrap_or(0)}))).collect::<BTreeMap<_, _>>()),
    );
    rep.set(
        "configurations",
        json!(configs
            .iter()
            .map(|c| json!({"max_bit_len": c.max_bit_len, "nr_pow2range_cols": c.cols, "range_only_subset": c.range_only, "batched_assignments_only": c.batches_only,
                "catalogue": if c.deep { "thorough" } else { "quick" }, "inputs_per_entry": if c.deep { 25 } else if c.max_bit_len >= 13 { 3 } else { 6 },
                "ars": if c.deep { "256 restarts x 10000 nodes, <=64 positions (entries with >8 outputs: 8 positions, 64 restarts)" } else { "32 restarts x 2000 nodes, 6 positions" }}))
            .collect::<Vec<_>>()),
    );
    rep.set(
        "ars_totals",
        json!({"targets": tot.ars_targets, "nodes": tot.ars_nodes, "candidates_wrong_output": tot.ars_candidates_wrong_output,
               "extra_alt_targets": tot_extra.alt_targets, "extra_cross_targets": tot_extra.cross_targets, "extra_ood_targets": tot_extra.ood_targets,
               "extra_nodes": tot_extra.nodes, "extra_candidates": tot_extra.candidates}),
    );
    rep.set("totals", json!({"jobs": stats.len(), "planned_inputs": planned_inputs, "honest_runs": tot.honest_runs, "output_edits": tot.edits, "out_of_domain_inputs": tot.out_of_domain}));
    rep.set("unreachable", json!(UNREACHABLE));
    rep.set("threads", json!(n_threads));
    rep.finish();
}

/// rough cost of an entry (instance size; the map circuits are the largest) for load balancing
fn entry_weight(entry: &Entry, inputs: &[Vec<V>]) -> usize {
    let base = inputs.first().and_then(|x| entry.reference(x)).map(|v| v.len()).unwrap_or(1);
    let mul = match entry.kind {
        Kind::MapInsert => 400,
        Kind::MapGet => 200,
        _ => 1,
    };
    (base * inputs.len().max(1) + 1) * mul
}
