//! C04 — native-field gadgets are complete and sound (catalogue driver: engines/catalogue.rs).
//! Seed catalogue (is_equal_to_fixed, is_zero, lower_than, mul); extended per instruction trait.

use std::collections::BTreeMap;

use ff::{Field, PrimeField};
use midnight_circuits::instructions::*;
use midnight_circuits::types::{AssignedBit, AssignedNative};
use midnight_curves::Fq as F;
use midnight_proofs::{
    circuit::{Layouter, Value},
    plonk::Error,
};
use midnight_zk_stdlib::ZkStdLib;
use mzv::{common::*, engines::catalogue::*};
use num_bigint::BigUint;
use rand::Rng;

fn big(f: &F) -> BigUint {
    BigUint::from_bytes_le(f.to_repr().as_ref())
}
fn bit(b: bool) -> F {
    if b {
        F::ONE
    } else {
        F::ZERO
    }
}

#[derive(Clone)]
struct IsEqFixed(u64);
impl OpSpec for IsEqFixed {
    type In = F;
    fn name(&self) -> String {
        format!("is_equal_to_fixed[{}]", self.0)
    }
    fn synth(&self, s: &ZkStdLib, l: &mut impl Layouter<F>, x: Value<F>) -> Result<(), Error> {
        let x: AssignedNative<F> = s.assign(l, x)?;
        s.constrain_as_public_input(l, &x)?;
        let b: AssignedBit<F> = s.is_equal_to_fixed(l, &x, F::from(self.0))?;
        s.constrain_as_public_input(l, &b)
    }
    fn reference(&self, x: &F) -> Option<Vec<F>> {
        Some(vec![*x, bit(*x == F::from(self.0))])
    }
    fn n_input_positions(&self, _: &F) -> usize {
        1
    }
}

#[derive(Clone)]
struct IsZero;
impl OpSpec for IsZero {
    type In = F;
    fn name(&self) -> String {
        "is_zero".into()
    }
    fn synth(&self, s: &ZkStdLib, l: &mut impl Layouter<F>, x: Value<F>) -> Result<(), Error> {
        let x: AssignedNative<F> = s.assign(l, x)?;
        s.constrain_as_public_input(l, &x)?;
        let b: AssignedBit<F> = s.is_zero(l, &x)?;
        s.constrain_as_public_input(l, &b)
    }
    fn reference(&self, x: &F) -> Option<Vec<F>> {
        Some(vec![*x, bit(*x == F::ZERO)])
    }
    fn n_input_positions(&self, _: &F) -> usize {
        1
    }
}

#[derive(Clone)]
struct LowerThan(u32);
impl OpSpec for LowerThan {
    type In = (F, F);
    fn name(&self) -> String {
        format!("lower_than[{}]", self.0)
    }
    fn synth(&self, s: &ZkStdLib, l: &mut impl Layouter<F>, w: Value<(F, F)>) -> Result<(), Error> {
        let x: AssignedNative<F> = s.assign(l, w.map(|w| w.0))?;
        let y: AssignedNative<F> = s.assign(l, w.map(|w| w.1))?;
        s.constrain_as_public_input(l, &x)?;
        s.constrain_as_public_input(l, &y)?;
        let b = s.lower_than(l, &x, &y, self.0)?;
        s.constrain_as_public_input(l, &b)
    }
    fn reference(&self, (x, y): &(F, F)) -> Option<Vec<F>> {
        let bound = BigUint::from(1u8) << self.0;
        if big(x) >= bound || big(y) >= bound {
            return None;
        }
        Some(vec![*x, *y, bit(big(x) < big(y))])
    }
    fn n_input_positions(&self, _: &(F, F)) -> usize {
        2
    }
}

#[derive(Clone)]
struct Mul;
impl OpSpec for Mul {
    type In = (F, F);
    fn name(&self) -> String {
        "mul".into()
    }
    fn synth(&self, s: &ZkStdLib, l: &mut impl Layouter<F>, w: Value<(F, F)>) -> Result<(), Error> {
        let x: AssignedNative<F> = s.assign(l, w.map(|w| w.0))?;
        let y: AssignedNative<F> = s.assign(l, w.map(|w| w.1))?;
        s.constrain_as_public_input(l, &x)?;
        s.constrain_as_public_input(l, &y)?;
        let z = s.mul(l, &x, &y, None)?;
        s.constrain_as_public_input(l, &z)
    }
    fn reference(&self, (x, y): &(F, F)) -> Option<Vec<F>> {
        Some(vec![*x, *y, *x * *y])
    }
    fn n_input_positions(&self, _: &(F, F)) -> usize {
        2
    }
    fn extra_targets(&self, _: usize, h: F) -> Vec<F> {
        vec![-h]
    }
}

fn main() {
    let ctx = Ctx::from_args("C04");
    let mut rep = Report::new(
        &ctx,
        "case = (operation, input): honest run must be accepted with instance = reference(input); every output position edited must be rejected; \
         out-of-domain inputs must be unsatisfiable; ARS searches for an adversarial assignment towards each edited output. Non-trivial = distinct (operation, input).",
    );
    let thorough = ctx.tier == Tier::Thorough;
    let opts = OpOptions::new("C04", thorough);
    let mut rng = ctx.rng("c04");
    let mut stats = BTreeMap::new();
    let fs = |rng: &mut rand_chacha::ChaCha8Rng| vec![F::ZERO, F::ONE, -F::ONE, F::from(5), F::from(6), F::random(&mut *rng)];
    let xs = fs(&mut rng);
    stats.insert("is_equal_to_fixed".to_string(), check_op(&IsEqFixed(5), &xs, &opts, ctx.seed, &mut rep));
    stats.insert("is_zero".to_string(), check_op(&IsZero, &xs, &opts, ctx.seed, &mut rep));
    let pairs: Vec<(F, F)> = vec![
        (F::from(3), F::from(7)),
        (F::from(7), F::from(3)),
        (F::from(7), F::from(7)),
        (F::from(65535), F::from(0)),
        (F::from(0), F::from(65535)),
        (F::from(65536), F::from(1)),
        (F::from(1), -F::ONE),
        (F::from(rng.gen::<u16>() as u64), F::from(rng.gen::<u16>() as u64)),
    ];
    stats.insert("lower_than".to_string(), check_op(&LowerThan(16), &pairs, &opts, ctx.seed, &mut rep));
    stats.insert("mul".to_string(), check_op(&Mul, &pairs, &opts, ctx.seed, &mut rep));
    rep.set("per_operation", stats_json(&stats));
    rep.finish();
}
