//! Extra adversarial stage on top of `check_op`: multi-position targets.
//!
//! `check_op` aims the repair search (E4) at one edited output at a time, starting from the
//! honest tables of the same input. Three families need more than that:
//!   * alternative encodings ("value + modulus" bits/bytes, wrap-around quotients): many output
//!     positions change together (`Entry::alt_attacks`);
//!   * cross-input claims: keep the honest tables of input x₂ and claim its outputs for input x₁
//!     (an operation that does not really read its input cells accepts this);
//!   * out-of-domain inputs: honest synthesis of such an input usually panics in the witness
//!     computation, so the *constraints* are attacked instead — start from an admissible input
//!     and move the input cells to the out-of-domain value, keeping the outputs.
//! A candidate is reported only after MockProver (H2) and, for k ≤ 12, the real prover under the
//! fault plan (H1) + real verifier accept it — same rule as the driver.

use std::collections::BTreeMap;

use midnight_curves::Fq as F;
use midnight_proofs::{
    circuit::Value,
    dev::{CellValue, MockProver},
};
use midnight_zk_stdlib::MidnightCircuit;
use mzv::{
    common::{catch_any, repo_file, rng_for, Report},
    engines::{
        ars::{attack, ArsBudget},
        catalogue::{OpRel, OpSpec},
        plonk_util::params_for,
        ref_eval::{collect, CollectOpts},
    },
};
use rand::SeedableRng;
use rand_chacha::ChaCha8Rng;
use serde_json::json;

use super::entry::{Entry, Extra, V};

#[derive(Default, Clone, Debug)]
pub struct ExtraStats {
    pub alt_targets: u64,
    pub cross_targets: u64,
    pub ood_targets: u64,
    pub nodes: u64,
    pub candidates: u64,
}

fn hexf(f: &F) -> String {
    hex::encode(f.to_bytes_le())
}

fn mock_accepts(k: u32, rel: &OpRel<Entry>, base: &Vec<V>, pi: &[F], mbl: u8, changed: &BTreeMap<(usize, usize), F>) -> Result<bool, String> {
    let circuit = MidnightCircuit::new(rel, Value::known(pi.to_vec()), Value::known(base.clone()), Some(mbl));
    match catch_any(|| {
        let mut mp = MockProver::<F>::run(k, &circuit, vec![vec![], pi.to_vec()]).map_err(|e| format!("{e:?}"))?;
        for ((c, r), v) in changed {
            mp.advice_mut()[*c][*r] = CellValue::Assigned(*v);
        }
        Ok::<bool, String>(mp.verify().is_ok())
    }) {
        Ok(r) => r,
        Err(p) => Err(format!("panic@{}: {}", repo_file(&p.file), p.message)),
    }
}

fn real_accepts(k: u32, rel: &OpRel<Entry>, base: &Vec<V>, pi: &[F], changed: &BTreeMap<(usize, usize), F>) -> Result<bool, String> {
    let params = params_for(k);
    let r = catch_any(|| {
        let vk = midnight_zk_stdlib::setup_vk(params, rel);
        let pk = midnight_zk_stdlib::setup_pk(rel, &vk);
        midnight_proofs::verif_hooks::set_fault_plan::<F>(changed.clone());
        let proof = midnight_zk_stdlib::prove::<OpRel<Entry>, blake2b_simd::State>(params, &pk, rel, &pi.to_vec(), base.clone(), ChaCha8Rng::seed_from_u64(7));
        let (hits, _) = midnight_proofs::verif_hooks::clear_fault_plan();
        let proof = match proof {
            Ok(p) => p,
            Err(_) => return Ok(false),
        };
        if hits.len() < changed.len() {
            return Err(format!("fault plan hit {} of {} cells", hits.len(), changed.len()));
        }
        Ok(midnight_zk_stdlib::verify::<OpRel<Entry>, blake2b_simd::State>(&params.verifier_params(), &vk, &pi.to_vec(), None, &proof).is_ok())
    });
    let _ = midnight_proofs::verif_hooks::clear_fault_plan();
    match r {
        Ok(x) => x,
        Err(p) => Err(format!("panic@{}: {}", repo_file(&p.file), p.message)),
    }
}

enum Family {
    Alt,
    Cross,
    Ood,
}

#[allow(clippy::too_many_arguments)]
fn one_attack(
    entry: &Entry,
    rel: &OpRel<Entry>,
    k: u32,
    mbl: u8,
    ex: &Extra,
    fam: &Family,
    budget: &ArsBudget,
    rng: &mut ChaCha8Rng,
    st: &mut ExtraStats,
    rep: &mut Report,
) {
    let name = entry.name();
    let Some(base_pi) = entry.reference(&ex.base) else { return };
    if base_pi.len() != ex.target.len() || base_pi == ex.target {
        return;
    }
    let circuit = MidnightCircuit::new(rel, Value::known(base_pi.clone()), Value::known(ex.base.clone()), Some(mbl));
    let mut tables = match catch_any(|| collect::<F, _>(k, &circuit, &[vec![], base_pi.clone()], CollectOpts::default())) {
        Ok(Ok(t)) => t,
        _ => return, // the driver reports honest-run problems
    };
    if !tables.violations(1).is_empty() {
        return;
    }
    rep.eval();
    match fam {
        Family::Alt => st.alt_targets += 1,
        Family::Cross => st.cross_targets += 1,
        Family::Ood => st.ood_targets += 1,
    }
    let targets: Vec<(usize, usize, F)> = ex.target.iter().enumerate().filter(|(i, v)| base_pi[*i] != **v).map(|(i, v)| (1, i, *v)).collect();
    let (att, stats) = attack(&mut tables, &targets, &[], budget, rng);
    st.nodes += stats.nodes;
    let Some(att) = att else { return };
    st.candidates += 1;
    let mock = mock_accepts(k, rel, &ex.base, &ex.target, mbl, &att.changed);
    // `prove`/`setup_vk` of the stdlib pick their own max_bit_len: the real prover only sees the
    // same layout as the attacked tables when the relation's own choice gives the same k
    let same_layout = catch_any(|| MidnightCircuit::from_relation(rel).min_k()).map(|k0| k0 == k).unwrap_or(false);
    let real = if k <= 12 && (mbl == 8 || same_layout) { Some(real_accepts(k, rel, &ex.base, &ex.target, &att.changed)) } else { None };
    let real_skipped_layout = k <= 12 && real.is_none();
    let confirmed = matches!(mock, Ok(true)) && real.as_ref().map(|r| matches!(r, Ok(true))).unwrap_or(!real_skipped_layout);
    let w = json!({
        "op": name, "label": entry.kind.label(), "k": k, "max_bit_len": mbl, "nr_pow2range_cols": entry.cols,
        "attack": ex.why, "base_input": format!("{:?}", ex.base),
        "accepted_instance": ex.target.iter().map(hexf).collect::<Vec<_>>(),
        "honest_instance_of_base": base_pi.iter().map(hexf).collect::<Vec<_>>(),
        "changed_cells": att.changed.iter().take(64).map(|((c, r), v)| json!([c, r, hexf(v)])).collect::<Vec<_>>(),
        "n_changed_cells": att.changed.len(),
        "mock": format!("{mock:?}"), "real": format!("{real:?}"), "nodes": stats.nodes,
    });
    if confirmed {
        let (kind, what) = match fam {
            Family::Ood => (
                "accepts-out-of-domain-input",
                format!("adversarial assignment ({} changed cells) makes the circuit accept an input outside the documented domain ({}); MockProver accepts; real verifier: {:?}", att.changed.len(), ex.why, real),
            ),
            _ => (
                "forged-output",
                format!("adversarial assignment ({} changed cells) makes the circuit accept outputs that differ from the definition ({}); MockProver accepts; real verifier: {:?}", att.changed.len(), ex.why, real),
            ),
        };
        rep.violation(&format!("C04/{name}/{kind}"), &what, w);
    } else {
        rep.inconclusive(&format!(
            "{name}: extra-attack candidate not confirmed by mock/real: mock={mock:?} real={real:?}{}",
            if real_skipped_layout { " (max_bit_len differs from the one the stdlib prover would choose: real prover not applicable; the default-max_bit_len configuration decides)" } else { "" }
        ));
    }
}

pub fn run_extra(entry: &Entry, inputs: &[Vec<V>], mbl: u8, thorough: bool, seed: u64, narrow: &ArsBudget, rep: &mut Report) -> ExtraStats {
    let mut st = ExtraStats::default();
    let rel = OpRel(entry.clone());
    let k = match catch_any(|| MidnightCircuit::new(&rel, Value::unknown(), Value::unknown(), Some(mbl)).min_k()) {
        Ok(k) => k,
        Err(_) => return st, // reported by the driver
    };
    let mut rng = rng_for(seed, &format!("extra-{}", entry.kind.label()));
    let narrow = narrow.clone();
    let wide = ArsBudget {
        restarts: 14,
        nodes_per_restart: if thorough { 6000 } else { 2500 },
        max_changed: 4096,
    };
    let admissible: Vec<(&Vec<V>, Vec<F>, usize)> = inputs
        .iter()
        .filter_map(|x| {
            let full = entry.reference(x)?;
            let n_in = entry.n_input_positions(x);
            Some((x, full, n_in))
        })
        .collect();

    // (1) alternative encodings / wrap-around
    let mut n_alt = 0;
    for (x, _, _) in &admissible {
        for ex in entry.alt_attacks(x) {
            if n_alt >= if thorough { 6 } else { 2 } {
                break;
            }
            n_alt += 1;
            let budget = if ex.wide { &wide } else { &narrow };
            one_attack(entry, &rel, k, mbl, &ex, &Family::Alt, budget, &mut rng, &mut st, rep);
        }
    }

    // (2) cross-input claims: outputs of x2 claimed for x1 (only where inputs are instance-bound)
    if entry.kind.shape().is_some() {
        let mut n_cross = 0;
        'outer: for (i, (x1, f1, n1)) in admissible.iter().enumerate() {
            for (x2, f2, n2) in admissible.iter().skip(i + 1) {
                if n1 != n2 || f1.len() != f2.len() || f1[*n1..] == f2[*n2..] || f1.len() == *n1 {
                    continue;
                }
                let mut target = f1[..*n1].to_vec();
                target.extend_from_slice(&f2[*n2..]);
                let ex = Extra { base: (*x2).clone(), target, why: "outputs of another admissible input claimed for this input", wide: false };
                one_attack(entry, &rel, k, mbl, &ex, &Family::Cross, &narrow, &mut rng, &mut st, rep);
                let _ = x1;
                n_cross += 1;
                if n_cross >= if thorough { 3 } else { 1 } {
                    break 'outer;
                }
                break;
            }
        }
    }

    // (2b) typed batches: every element index moved outside its type's range
    let mut n_typed = 0;
    for (x, _, _) in &admissible {
        if n_typed >= if thorough { 4 } else { 2 } {
            break;
        }
        let exs = entry.ood_attacks(x);
        if exs.is_empty() {
            break;
        }
        n_typed += 1;
        for ex in exs {
            one_attack(entry, &rel, k, mbl, &ex, &Family::Ood, &narrow, &mut rng, &mut st, rep);
        }
    }

    // (3) out-of-domain inputs attacked at the constraint level
    if let Some((base, fbase, nb)) = admissible.first() {
        let mut n_ood = 0;
        for x in inputs {
            if entry.reference(x).is_some() {
                continue;
            }
            let Some(enc) = entry.input_encoding(x) else { continue };
            if enc.len() != *nb {
                continue;
            }
            let mut target = enc;
            target.extend_from_slice(&fbase[*nb..]);
            let ex = Extra { base: (*base).clone(), target, why: "input cells moved to an out-of-domain value, outputs kept", wide: false };
            one_attack(entry, &rel, k, mbl, &ex, &Family::Ood, &narrow, &mut rng, &mut st, rep);
            n_ood += 1;
            if n_ood >= if thorough { 4 } else { 2 } {
                break;
            }
        }
    }
    st
}

/// Panics raised outside the repository's own files (arithmetic overflow in `core`, a failed
/// `unwrap` inside a dependency) would give the driver a signature that contains the toolchain
/// path. Such admissible inputs are reported here with a toolchain-independent signature and
/// removed from the list the driver sees.
pub fn preflight(entry: &Entry, inputs: &[Vec<V>], mbl: u8, rep: &mut Report) -> Vec<Vec<V>> {
    let rel = OpRel(entry.clone());
    let k = match catch_any(|| MidnightCircuit::new(&rel, Value::unknown(), Value::unknown(), Some(mbl)).min_k()) {
        Ok(k) => k,
        Err(_) => return inputs.to_vec(), // the driver reports it
    };
    let mut keep = vec![];
    for x in inputs {
        let Some(pi) = entry.reference(x) else {
            keep.push(x.clone());
            continue;
        };
        let circuit = MidnightCircuit::new(&rel, Value::known(pi.clone()), Value::known(x.clone()), Some(mbl));
        match catch_any(|| collect::<F, _>(k, &circuit, &[vec![], pi.clone()], CollectOpts::default())) {
            Err(p) if !p.file.contains("/circuits/src/") && !p.file.contains("/zk_stdlib/src/") && !p.file.contains("/proofs/src/") && !p.file.contains("/curves/src/") => {
                rep.eval();
                let base = p.file.rsplit('/').next().unwrap_or("?").to_string();
                let slug: String = p.message.chars().take(48).map(|c| if c.is_ascii_alphanumeric() { c.to_ascii_lowercase() } else { '-' }).collect();
                rep.violation(
                    &format!("C04/{}/panic-on-admissible-input@rust-lib:{base} {slug}", entry.name()),
                    &format!("synthesis panics on an admissible input (outside the repository's files, at {}): {}", p.location, p.message),
                    json!({"op": entry.name(), "label": entry.kind.label(), "input": format!("{x:?}"), "k": k, "max_bit_len": mbl, "panic": format!("{p:?}")}),
                );
            }
            _ => keep.push(x.clone()),
        }
    }
    keep
}

/// `--replay` of a witness written by `one_attack`: the same base input and target instance.
pub fn replay_extra(entry: &Entry, base: &Vec<V>, target: &[F], ood: bool, mbl: u8, thorough: bool, seed: u64, rep: &mut Report) -> ExtraStats {
    let mut st = ExtraStats::default();
    let rel = OpRel(entry.clone());
    let Ok(k) = catch_any(|| MidnightCircuit::new(&rel, Value::unknown(), Value::unknown(), Some(mbl)).min_k()) else { return st };
    let mut rng = rng_for(seed, &format!("extra-{}", entry.kind.label()));
    let n_diff = entry.reference(base).map(|b| b.iter().zip(target).filter(|(x, y)| x != y).count()).unwrap_or(0);
    let budget = if n_diff > 12 {
        ArsBudget { restarts: 14, nodes_per_restart: if thorough { 6000 } else { 2500 }, max_changed: 4096 }
    } else if thorough {
        ArsBudget::thorough()
    } else {
        ArsBudget::quick()
    };
    let ex = Extra { base: base.clone(), target: target.to_vec(), why: "replayed target instance", wide: n_diff > 12 };
    let fam = if ood { Family::Ood } else { Family::Alt };
    rep.nontrivial(&(entry.name(), "replay"));
    one_attack(entry, &rel, k, mbl, &ex, &fam, &budget, &mut rng, &mut st, rep);
    st
}
