//! C04 catalogue (which entries exist per tier) and operand-class generators.
//!
//! Operand classes (DESIGN §5 C04): {0, 1, −1, 2^k−1, 2^k, 2^k+1 for the k in use, (p−1)/2,
//! (p+1)/2, p−1, equal, adjacent, random}; vectors: empty, full, several lengths. Boundary
//! classes come first and do not depend on the seed; random operands are appended from the
//! seeded stream. `cap` = number of inputs kept per entry (quick 6, thorough 25).
#![allow(dead_code)] // also mounted by c09.rs, which uses a subset

use ff::Field;
use midnight_curves::Fq as F;
use num_bigint::BigUint;
use num_traits::One;
use rand::Rng;
use rand_chacha::ChaCha8Rng;

use mzv::engines::catalogue::OpSpec;

use super::entry::{big, fe, p, two_pow, BinOp, CmpOp, Entry, EqOp, Kind, Src, Step, Ty, V, VEC_RESIZES, VEC_SHAPES};

fn f(n: u64) -> F {
    F::from(n)
}
fn b(n: u64) -> BigUint {
    BigUint::from(n)
}
fn half_up() -> BigUint {
    (p() + BigUint::one()) >> 1
}
fn half_down() -> BigUint {
    (p() - BigUint::one()) >> 1
}

pub fn catalogue(thorough: bool) -> Vec<Kind> {
    use Kind::*;
    let t = thorough;
    let mut c: Vec<Kind> = vec![];
    let neg = |n: u64| -f(n);

    // ---- ArithInstructions ----
    c.push(LinComb { coefs: vec![f(3)], k: F::ZERO });
    c.push(LinComb { coefs: vec![F::ONE, neg(1), fe(&(two_pow(64) + b(1)))], k: f(7) });
    c.push(LinComb { coefs: vec![f(5), F::ZERO, neg(2), F::ONE, neg(3), f(100), f(2)], k: neg(1) });
    c.push(LinComb { coefs: vec![F::ZERO, F::ZERO], k: f(9) });
    if t {
        c.push(LinComb { coefs: (1..=9).map(|i| fe(&two_pow(8 * i))).collect(), k: F::ZERO });
        c.push(LinComb { coefs: vec![neg(1), neg(1), neg(1), neg(1)], k: F::ONE });
    }
    c.extend([Add, Sub, Mul(None), Mul(Some(f(7))), Div, Neg, Inv, Inv0]);
    if t {
        c.extend([Mul(Some(F::ZERO)), Mul(Some(F::ONE)), Mul(Some(neg(1)))]);
    }
    c.extend([AddConst(f(3)), AddConst(F::ZERO), AddConsts(vec![f(3), F::ZERO, f(5)]), MulConst(f(3)), MulConst(F::ZERO), MulConst(F::ONE)]);
    if t {
        c.extend([AddConst(neg(1)), AddConsts(vec![f(1), f(2), f(3), F::ZERO, f(5), neg(6), f(7)]), AddConsts(vec![]), MulConst(neg(1))]);
    }
    c.extend([Square, Pow(0), Pow(1), Pow(5)]);
    if t {
        c.extend([Pow(2), Pow(255), Pow(u64::MAX)]);
    }
    c.push(AddAndMul([f(2), f(3), f(5), f(7), f(11)]));
    if t {
        c.push(AddAndMul([F::ZERO, F::ZERO, F::ONE, F::ZERO, neg(1)]));
    }

    // ---- ZeroInstructions ----
    c.extend([AssertZero, AssertNonZero, IsZero]);

    // ---- Equality / Assertion ----
    for op in [EqOp::Eq, EqOp::Neq] {
        for ty in [Ty::N, Ty::B, Ty::Y] {
            c.push(IsEq { op, ty });
            c.push(AssertEq { op, ty });
        }
        let mut consts = vec![V::N(f(5)), V::B(true), V::Y(7)];
        if t {
            consts.extend([V::N(F::ZERO), V::N(neg(1)), V::B(false), V::Y(0), V::Y(255)]);
        }
        for k in consts {
            c.push(IsEqFixed { op, c: k.clone() });
            c.push(AssertEqFixed { op, c: k });
        }
    }

    // ---- ZkStdLib inherent helpers ----
    c.extend([AssertTrue, AssertFalse, StdLowerThan(8)]);
    if t {
        c.extend([StdLowerThan(1), StdLowerThan(16), StdLowerThan(64)]);
    }

    // ---- FieldInstructions ----
    c.extend([AssertQr, IsSquare]);

    // ---- BinaryInstructions ----
    let ns: Vec<usize> = if t { (1..=9).collect() } else { vec![1, 2, 3, 9] };
    for op in [BinOp::And, BinOp::Or, BinOp::Xor] {
        for n in &ns {
            c.push(Bin { op, n: *n });
        }
    }
    c.push(Not);

    // ---- BitwiseInstructions ----
    let ns: Vec<usize> = if t { vec![1, 4, 8, 13, 64] } else { vec![8] };
    for op in [BinOp::And, BinOp::Or, BinOp::Xor] {
        for n in &ns {
            c.push(Bitwise { op, n: *n });
        }
    }
    for n in if t { vec![1, 8, 16, 64] } else { vec![8] } {
        c.push(Bnot(n));
    }

    // ---- DecompositionInstructions ----
    c.extend([
        ToBits { nb: None, canon: true, be: false },
        ToBits { nb: None, canon: false, be: false },
        ToBits { nb: Some(8), canon: true, be: false },
        ToBits { nb: Some(8), canon: false, be: true },
        ToBits { nb: None, canon: true, be: true },
    ]);
    if t {
        c.extend([
            ToBits { nb: Some(1), canon: true, be: false },
            ToBits { nb: Some(13), canon: false, be: false },
            ToBits { nb: Some(254), canon: true, be: false },
            ToBits { nb: Some(254), canon: false, be: true },
            ToBits { nb: Some(255), canon: true, be: false },
            ToBits { nb: Some(255), canon: false, be: false },
        ]);
    }
    c.extend([
        ToBytes { nb: None, be: false },
        ToBytes { nb: Some(2), be: false },
        ToBytes { nb: None, be: true },
        ToBytes { nb: Some(31), be: false },
    ]);
    if t {
        c.extend([ToBytes { nb: Some(1), be: false }, ToBytes { nb: Some(4), be: true }, ToBytes { nb: Some(32), be: false }]);
    }
    c.extend([FromBits { n: 8, be: false }, FromBits { n: 255, be: false }, FromBits { n: 4, be: true }]);
    if t {
        c.extend([FromBits { n: 0, be: false }, FromBits { n: 1, be: false }, FromBits { n: 256, be: false }, FromBits { n: 255, be: true }]);
    }
    c.extend([FromBytes { n: 2, be: false }, FromBytes { n: 32, be: false }, FromBytes { n: 3, be: true }]);
    if t {
        c.extend([FromBytes { n: 1, be: false }, FromBytes { n: 31, be: false }, FromBytes { n: 33, be: false }, FromBytes { n: 32, be: true }]);
    }
    c.extend([ToChunks { bits: 8, nb: Some(2) }, ToChunks { bits: 16, nb: None }, ToChunks { bits: 100, nb: None }]);
    if t {
        c.extend([ToChunks { bits: 13, nb: Some(3) }, ToChunks { bits: 1, nb: Some(5) }, ToChunks { bits: 64, nb: Some(4) }, ToChunks { bits: 100, nb: Some(2) }]);
    }
    c.push(Sgn0);

    // ---- CanonicityInstructions ----
    c.extend([IsCanonical(5), IsCanonical(255), IsCanonical(256)]);
    c.extend([BitsLower { n: 8, bound: b(100) }, BitsLower { n: 8, bound: b(256) }, BitsGeq { n: 8, bound: b(100) }]);
    if t {
        c.extend([
            BitsLower { n: 8, bound: b(0) },
            BitsLower { n: 8, bound: b(1) },
            BitsLower { n: 8, bound: b(255) },
            BitsLower { n: 8, bound: b(257) },
            BitsLower { n: 1, bound: b(1) },
            BitsLower { n: 255, bound: p().clone() },
            BitsGeq { n: 8, bound: b(0) },
            BitsGeq { n: 8, bound: b(255) },
            BitsGeq { n: 8, bound: b(256) },
            BitsGeq { n: 255, bound: half_up() },
        ]);
    }

    // ---- RangeCheckInstructions ----
    c.extend([AssignLower(b(256)), AssignLower(b(100)), AssertLower(b(256)), AssertLower(b(100)), AssertLower(half_up())]);
    if t {
        for bound in [b(1), b(2), b(257), two_pow(64) - b(1), two_pow(128), two_pow(13), p() - b(1), two_pow(254)] {
            c.push(AssertLower(bound.clone()));
            c.push(AssignLower(bound));
        }
    }

    // ---- ComparisonInstructions ----
    c.push(BoundedOf(8));
    if t {
        c.extend([BoundedOf(1), BoundedOf(16), BoundedOf(253)]);
    }
    for op in [CmpOp::Lt, CmpOp::Gt, CmpOp::Leq, CmpOp::Geq] {
        c.push(Cmp { op, n: 8 });
        c.push(CmpFixed { op, n: 8, c: f(100) });
        if t {
            c.extend([Cmp { op, n: 1 }, Cmp { op, n: 16 }, Cmp { op, n: 64 }]);
            for k in [0u64, 1, 255, 256, 257] {
                c.push(CmpFixed { op, n: 8, c: f(k) });
            }
        }
    }
    if t {
        c.push(Cmp { op: CmpOp::Lt, n: 253 });
    }
    // operands declared with different bit bounds, both orders
    for op in [CmpOp::Lt, CmpOp::Gt, CmpOp::Leq, CmpOp::Geq] {
        c.push(Cmp2 { op, nx: 8, ny: 16 });
        c.push(Cmp2 { op, nx: 16, ny: 8 });
        if t {
            for (nx, ny) in [(1usize, 8usize), (8, 1), (8, 9), (9, 8), (8, 64), (64, 8), (13, 253), (253, 13)] {
                c.push(Cmp2 { op, nx, ny });
            }
        }
    }

    // ---- DivisionInstructions ----
    c.extend([
        DivRem { d: b(3), bound: None },
        DivRem { d: b(7), bound: Some(b(100)) },
        DivRem { d: b(1), bound: None },
        Rem { d: b(3), bound: None },
        Rem { d: b(4), bound: Some(b(8)) },
    ]);
    if t {
        c.extend([
            DivRem { d: b(256), bound: Some(b(65535)) },
            DivRem { d: two_pow(64), bound: None },
            DivRem { d: b(100), bound: Some(b(100)) },
            DivRem { d: b(2), bound: None },
            Rem { d: b(2), bound: None },
            Rem { d: b(7), bound: None },
        ]);
    }

    // ---- ControlFlowInstructions ----
    for ty in [Ty::N, Ty::B, Ty::Y] {
        c.extend([Select(ty), CondAssertEqual(ty), CondSwap(ty)]);
    }

    // ---- ConversionInstructions ----
    c.extend([
        Convert { from: Ty::B, to: Ty::N },
        Convert { from: Ty::N, to: Ty::B },
        Convert { from: Ty::Y, to: Ty::N },
        Convert { from: Ty::N, to: Ty::Y },
        ConvertUnsafeNY,
    ]);

    // ---- VectorInstructions ----
    for ty in [Ty::N, Ty::Y] {
        let filler = |ty: Ty| if ty == Ty::N { V::N(f(77)) } else { V::Y(77) };
        if t {
            for (m, a) in VEC_SHAPES {
                c.push(VecObserve { t: ty, m: *m, a: *a, filler: None });
                c.push(VecObserve { t: ty, m: *m, a: *a, filler: Some(filler(ty)) });
                c.push(VecFlags { t: ty, m: *m, a: *a });
                for n in 0..=*m {
                    c.push(VecTrim { t: ty, m: *m, a: *a, n, observe: true });
                    c.push(VecTrim { t: ty, m: *m, a: *a, n, observe: false });
                }
            }
            for (m, a, l) in VEC_RESIZES {
                c.push(VecResize { t: ty, m: *m, a: *a, l: *l });
            }
        } else {
            c.push(VecObserve { t: ty, m: 8, a: 4, filler: None });
            c.push(VecObserve { t: ty, m: 6, a: 3, filler: Some(filler(ty)) });
            c.push(VecObserve { t: ty, m: 4, a: 1, filler: None });
            c.push(VecFlags { t: ty, m: 8, a: 4 });
            c.push(VecFlags { t: ty, m: 6, a: 2 });
            // the count parameter crosses the chunk size A in both directions:
            // n in {0, 1, A-1, A, A+1, 2A, M-1, M}
            let shapes: &[(usize, usize)] = if ty == Ty::N { &[(8, 4), (6, 3), (12, 3)] } else { &[(8, 4)] };
            for (m, a) in shapes {
                let mut ns = vec![0, 1, a - 1, *a, a + 1, 2 * a, m - 1, *m];
                ns.sort();
                ns.dedup();
                if ty == Ty::Y {
                    ns.retain(|n| [1, *a, a + 1, *m].contains(n));
                }
                for n in ns {
                    c.push(VecTrim { t: ty, m: *m, a: *a, n, observe: true });
                    c.push(VecTrim { t: ty, m: *m, a: *a, n, observe: false });
                }
            }
            c.push(VecTrim { t: ty, m: 6, a: 2, n: 0, observe: true });
            c.push(VecResize { t: ty, m: 8, a: 4, l: 12 });
            c.push(VecResize { t: ty, m: 6, a: 3, l: 9 });
            if ty == Ty::N {
                c.push(VecResize { t: ty, m: 12, a: 3, l: 15 });
                c.push(VecFlags { t: ty, m: 12, a: 3 });
            }
        }
    }

    // ---- MapInstructions ----
    c.extend([MapGet, MapInsert]);

    // ---- AssignmentInstructions: single and batched assignments of small values ----
    for ty in [Ty::Y, Ty::B] {
        c.push(AssignMany { ty, len: 1, many: false });
        for len in 1..=10 {
            c.push(AssignMany { ty, len, many: true });
        }
    }
    c.push(AssignMany { ty: Ty::N, len: 1, many: false });
    for len in if t { vec![1, 2, 4, 5, 6, 9, 10] } else { vec![1, 5, 9] } {
        c.push(AssignMany { ty: Ty::N, len, many: true });
    }

    // ---- parameters crossing a structural constant in both directions ----
    // terms per arithmetic row (4), parallel-add columns (3), range-table limb size (max_bit_len = 8)
    c.push(LinComb { coefs: vec![f(2), f(3), f(5), f(7)], k: f(1) });
    c.push(LinComb { coefs: vec![f(2), f(3), f(5), f(7), f(11)], k: f(1) });
    c.push(LinComb { coefs: vec![f(2), f(3), f(5), f(7), f(11), f(13), f(17), f(19), f(23)], k: F::ZERO });
    c.push(AddConsts(vec![f(1), f(2)]));
    c.push(AddConsts(vec![f(1), f(2), f(3)]));
    c.push(AddConsts(vec![f(1), f(2), f(3), f(4)]));
    c.extend([ToChunks { bits: 7, nb: Some(2) }, ToChunks { bits: 9, nb: Some(2) }, ToChunks { bits: 8, nb: None }]);
    c.extend([ToBits { nb: Some(7), canon: true, be: false }, ToBits { nb: Some(9), canon: true, be: false }]);
    c.extend([AssertLower(b(255)), AssertLower(b(257)), AssertLower(b(512)), AssignLower(b(257)), AssignLower(b(128))]);
    c.extend([BoundedOf(7), BoundedOf(9)]);

    provenance_entries(t, &mut c);
    composition_entries(t, &mut c);
    // the same entry may be listed by two sections
    let mut seen = std::collections::BTreeSet::new();
    c.retain(|k| seen.insert(k.label()));
    c
}

/// a fixed "random" constant (deterministic, large, no structure)
fn rc() -> F {
    fe(&(two_pow(200) * b(0x9e37) + two_pow(101) * b(0x79b9) + b(0x7f4a7c15)))
}

/// (A) operand provenance: operands taken from constant cells (`assign_fixed`, cached by value
/// and reused), combined with the operation's own multiplicative / additive constants
fn provenance_entries(t: bool, c: &mut Vec<Kind>) {
    use Kind::*;
    let fx = |inner: Kind, consts: Vec<Option<V>>| Fixed { inner: Box::new(inner), consts };
    let w = || None::<V>;
    let n = |x: F| Some(V::N(x));
    let (zero, one, m1, two, r) = (F::ZERO, F::ONE, -F::ONE, f(2), rc());
    let bt = |x: bool| Some(V::B(x));
    let by = |x: u8| Some(V::Y(x));
    // multiplications: constant-one / constant-zero fast paths with and without a multiplying constant
    for k in [Some(f(5)), None] {
        for cst in [one, zero, m1, two, r] {
            if !t && k.is_none() && (cst == m1 || cst == zero) {
                continue;
            }
            c.push(fx(Mul(k), vec![w(), n(cst)]));
            c.push(fx(Mul(k), vec![n(cst), w()]));
        }
    }
    c.push(fx(Mul(Some(f(7))), vec![n(one), n(one)]));
    c.push(fx(Mul(Some(-f(3))), vec![n(one), n(two)]));
    c.push(fx(Mul(None), vec![n(one), n(one)]));
    // additions / subtractions / divisions
    c.extend([
        fx(Add, vec![w(), n(zero)]),
        fx(Add, vec![w(), n(one)]),
        fx(Add, vec![n(one), n(one)]),
        fx(Add, vec![n(r), w()]),
        fx(Sub, vec![w(), n(one)]),
        fx(Sub, vec![n(zero), w()]),
        fx(Sub, vec![n(one), n(one)]),
        fx(Div, vec![w(), n(one)]),
        fx(Div, vec![n(one), w()]),
        fx(Div, vec![w(), n(m1)]),
        fx(Div, vec![n(two), n(two)]),
    ]);
    c.extend([
        fx(AddAndMul([f(2), f(3), f(5), f(7), f(11)]), vec![n(one), w(), n(one)]),
        fx(AddAndMul([f(2), f(3), f(5), f(7), f(11)]), vec![w(), n(one), n(zero)]),
        fx(AddAndMul([f(2), f(3), f(5), f(7), f(11)]), vec![n(two), n(two), w()]),
        fx(AddAndMul([F::ZERO, F::ZERO, F::ZERO, F::ZERO, f(9)]), vec![n(one), w(), n(one)]),
        fx(LinComb { coefs: vec![F::ONE, -F::ONE, fe(&(two_pow(64) + b(1)))], k: f(7) }, vec![n(one), w(), n(one)]),
        fx(LinComb { coefs: vec![f(3), f(5), -f(2)], k: F::ZERO }, vec![n(zero), w(), n(m1)]),
        fx(LinComb { coefs: vec![f(4), f(6)], k: f(1) }, vec![n(two), n(one)]),
    ]);
    // unary operations on constant cells
    c.extend([
        fx(Inv, vec![n(one)]),
        fx(Inv, vec![n(m1)]),
        fx(Inv, vec![n(two)]),
        fx(Inv0, vec![n(zero)]),
        fx(Inv0, vec![n(two)]),
        fx(Neg, vec![n(one)]),
        fx(Square, vec![n(m1)]),
        fx(Pow(5), vec![n(two)]),
        fx(IsZero, vec![n(zero)]),
        fx(IsZero, vec![n(one)]),
        fx(MulConst(f(3)), vec![n(one)]),
        fx(AddConst(f(3)), vec![n(m1)]),
        fx(IsEqFixed { op: EqOp::Eq, c: V::N(f(5)) }, vec![n(f(5))]),
        fx(IsEqFixed { op: EqOp::Neq, c: V::N(f(5)) }, vec![n(one)]),
        fx(Sgn0, vec![n(one)]),
        fx(IsSquare, vec![n(one)]),
    ]);
    // control flow between constant cells
    c.extend([
        fx(Select(Ty::N), vec![w(), n(one), n(zero)]),
        fx(Select(Ty::N), vec![w(), n(r), n(r)]),
        fx(Select(Ty::N), vec![bt(true), w(), w()]),
        fx(Select(Ty::N), vec![bt(false), w(), n(one)]),
        fx(Select(Ty::B), vec![w(), bt(true), bt(false)]),
        fx(Select(Ty::Y), vec![w(), by(0), by(255)]),
        fx(CondSwap(Ty::N), vec![w(), n(one), w()]),
        fx(CondSwap(Ty::N), vec![bt(true), w(), n(zero)]),
        fx(CondAssertEqual(Ty::N), vec![w(), n(one), w()]),
    ]);
    // equalities / assertions against constant cells
    for cst in [zero, one, m1, r] {
        c.push(fx(IsEq { op: EqOp::Eq, ty: Ty::N }, vec![w(), n(cst)]));
        if t || cst == one {
            c.push(fx(IsEq { op: EqOp::Neq, ty: Ty::N }, vec![n(cst), w()]));
        }
    }
    c.extend([
        fx(IsEq { op: EqOp::Eq, ty: Ty::N }, vec![n(one), n(one)]),
        fx(IsEq { op: EqOp::Eq, ty: Ty::B }, vec![w(), bt(true)]),
        fx(IsEq { op: EqOp::Neq, ty: Ty::Y }, vec![w(), by(255)]),
        fx(AssertEq { op: EqOp::Eq, ty: Ty::N }, vec![w(), n(one)]),
        fx(AssertEq { op: EqOp::Neq, ty: Ty::N }, vec![w(), n(zero)]),
        fx(AssertEq { op: EqOp::Eq, ty: Ty::Y }, vec![by(7), w()]),
    ]);
    // comparisons and range-checked operations with constant operands
    for (op, mask) in [
        (CmpOp::Lt, vec![w(), n(zero)]),
        (CmpOp::Lt, vec![w(), n(one)]),
        (CmpOp::Lt, vec![w(), n(two)]),
        (CmpOp::Lt, vec![n(one), w()]),
        (CmpOp::Lt, vec![w(), n(f(255))]),
        (CmpOp::Leq, vec![w(), n(one)]),
        (CmpOp::Geq, vec![n(two), w()]),
        (CmpOp::Gt, vec![w(), n(zero)]),
        (CmpOp::Leq, vec![n(one), n(one)]),
    ] {
        c.push(fx(Cmp { op, n: 8 }, mask));
    }
    c.extend([
        fx(StdLowerThan(8), vec![w(), n(two)]),
        fx(StdLowerThan(8), vec![n(one), w()]),
        fx(Bitwise { op: BinOp::And, n: 8 }, vec![w(), n(one)]),
        fx(Bitwise { op: BinOp::Xor, n: 8 }, vec![w(), n(f(255))]),
        fx(Bnot(8), vec![n(one)]),
        fx(ToBits { nb: Some(8), canon: true, be: false }, vec![n(f(255))]),
        fx(ToBytes { nb: Some(2), be: false }, vec![n(one)]),
        fx(DivRem { d: b(7), bound: Some(b(100)) }, vec![n(f(100))]),
        fx(AssertLower(b(256)), vec![n(f(255))]),
        fx(AssertLower(b(2)), vec![n(one)]),
        fx(BoundedOf(8), vec![n(one)]),
        fx(CmpFixed { op: CmpOp::Lt, n: 8, c: f(2) }, vec![n(one)]),
    ]);
    // boolean logic and conversions on constant cells
    c.extend([
        fx(Bin { op: BinOp::And, n: 3 }, vec![w(), bt(true), bt(true)]),
        fx(Bin { op: BinOp::Or, n: 3 }, vec![w(), bt(false), bt(false)]),
        fx(Bin { op: BinOp::Xor, n: 2 }, vec![bt(true), w()]),
        fx(Bin { op: BinOp::And, n: 2 }, vec![bt(true), bt(true)]),
        fx(Not, vec![bt(true)]),
        fx(Convert { from: Ty::B, to: Ty::N }, vec![bt(true)]),
        fx(Convert { from: Ty::N, to: Ty::B }, vec![n(one)]),
        fx(Convert { from: Ty::N, to: Ty::Y }, vec![n(f(255))]),
        fx(Convert { from: Ty::Y, to: Ty::N }, vec![by(255)]),
        fx(FromBits { n: 4, be: false }, vec![bt(true), w(), bt(true), w()]),
        fx(FromBytes { n: 2, be: false }, vec![by(255), w()]),
    ]);
    if t {
        for cst in [zero, one, m1, two, r] {
            c.push(fx(Sub, vec![n(cst), w()]));
            c.push(fx(Add, vec![w(), n(cst)]));
            c.push(fx(Div, vec![n(cst), w()]));
            c.push(fx(Mul(Some(-F::ONE)), vec![w(), n(cst)]));
            c.push(fx(Select(Ty::N), vec![w(), n(cst), w()]));
            c.push(fx(AddAndMul([f(2), f(3), f(5), f(7), f(11)]), vec![n(cst), n(cst), w()]));
        }
    }
}

/// (B) short compositions: a conversion / range-checked assignment records a bound that a later
/// operation may rely on (the native gadget caches "already constrained" facts per cell)
fn composition_entries(t: bool, c: &mut Vec<Kind>) {
    use Kind::Chain;
    let al = |x: u64| Step::AssertLower(b(x));
    let cf = |op: CmpOp, n: usize, x: u64| Step::CmpFixed { op, n, c: f(x) };
    let mut push = |src: Src, steps: Vec<Step>| c.push(Chain { src, steps });
    // byte -> native, then a check against 254..257
    for x in [254u64, 255, 256, 257] {
        push(Src::Byte, vec![al(x)]);
        push(Src::Byte, vec![cf(CmpOp::Lt, 8, x)]);
    }
    push(Src::Byte, vec![cf(CmpOp::Leq, 8, 254)]);
    push(Src::Byte, vec![cf(CmpOp::Leq, 8, 255)]);
    push(Src::Byte, vec![cf(CmpOp::Geq, 8, 255)]);
    push(Src::Byte, vec![cf(CmpOp::Gt, 8, 254)]);
    for k in [7usize, 8, 9] {
        push(Src::Byte, vec![Step::BoundedOf(k)]);
    }
    push(Src::Byte, vec![Step::ToByte]);
    push(Src::Byte, vec![al(256), al(255)]);
    push(Src::Byte, vec![al(257), cf(CmpOp::Lt, 8, 255)]);
    push(Src::Byte, vec![Step::BoundedOf(8), al(255)]);
    // bit -> native, then range checks with bound 1, 2
    push(Src::Bit, vec![al(1)]);
    push(Src::Bit, vec![al(2)]);
    push(Src::Bit, vec![cf(CmpOp::Lt, 1, 1)]);
    push(Src::Bit, vec![Step::BoundedOf(1)]);
    push(Src::Bit, vec![Step::ToBit]);
    push(Src::Bit, vec![Step::ToByte]);
    // range-checked assignment, then comparisons against b-1, b, b+1
    for (bound, nbits) in [(100u64, 7usize), (256, 8)] {
        for x in [bound - 1, bound, bound + 1] {
            push(Src::AssignLower(b(bound)), vec![cf(CmpOp::Lt, nbits, x)]);
            push(Src::AssignLower(b(bound)), vec![al(x)]);
        }
    }
    push(Src::AssignLower(b(256)), vec![Step::ToByte]);
    push(Src::AssignLower(b(257)), vec![Step::ToByte]);
    push(Src::AssignLower(b(255)), vec![Step::ToByte]);
    push(Src::AssignLower(b(3)), vec![Step::ToBit]);
    push(Src::AssignLower(b(2)), vec![Step::ToBit]);
    push(Src::AssignLower(b(100)), vec![Step::BoundedOf(6)]);
    // to bytes, back to a native, then a comparison
    push(Src::BytesRoundTrip(2), vec![cf(CmpOp::Lt, 16, 65535)]);
    push(Src::BytesRoundTrip(2), vec![al(65535)]);
    push(Src::BytesRoundTrip(2), vec![al(65536)]);
    push(Src::BytesRoundTrip(2), vec![Step::BoundedOf(16)]);
    push(Src::BytesRoundTrip(1), vec![Step::ToByte]);
    push(Src::BytesRoundTrip(1), vec![al(255)]);
    push(Src::BytesRoundTrip(1), vec![cf(CmpOp::Lt, 8, 255)]);
    // the same native value range-checked twice (the second check may hit the cache)
    for (x, y) in [(256u64, 255u64), (255, 256), (256, 100), (100, 256), (257, 256), (256, 257), (100, 100), (2, 1), (1, 2)] {
        push(Src::Native, vec![al(x), al(y)]);
    }
    push(Src::Native, vec![al(257), Step::ToByte]);
    push(Src::Native, vec![al(256), Step::ToByte]);
    push(Src::Native, vec![al(255), Step::ToByte]);
    push(Src::Native, vec![al(3), Step::ToBit]);
    push(Src::Native, vec![al(2), Step::ToBit]);
    push(Src::Native, vec![Step::BoundedOf(8), al(255)]);
    push(Src::Native, vec![Step::BoundedOf(9), Step::ToByte]);
    push(Src::Native, vec![Step::BoundedOf(8), Step::ToByte]);
    push(Src::Native, vec![al(256), cf(CmpOp::Lt, 8, 255)]);
    push(Src::Native, vec![al(255), cf(CmpOp::Lt, 8, 255)]);
    push(Src::Native, vec![al(100), cf(CmpOp::Lt, 8, 100)]);
    push(Src::Native, vec![Step::ToByte, al(255)]);
    push(Src::Native, vec![Step::ToByte, cf(CmpOp::Lt, 8, 255)]);
    push(Src::Native, vec![Step::ToBit, al(1)]);
    push(Src::Native, vec![Step::ToBit, Step::ToByte]);
    if t {
        for x in [1u64, 2, 128, 129, 65535, 65536] {
            push(Src::Native, vec![al(x + 1), al(x)]);
            push(Src::Native, vec![al(x), al(x + 1)]);
            push(Src::AssignLower(b(x + 1)), vec![al(x)]);
        }
        push(Src::Native, vec![al(256), al(255), Step::ToByte]);
        push(Src::Byte, vec![Step::ToByte, al(255)]);
        push(Src::Byte, vec![cf(CmpOp::Lt, 8, 255), al(255)]);
    }
}

// ---------------------------------------------------------------------------------------------
// operand classes
// ---------------------------------------------------------------------------------------------

trait MinByBound {
    fn min_by_bound(self, bound: &BigUint) -> F;
}
impl MinByBound for F {
    /// the value itself if it is below `bound`, else bound - 1
    fn min_by_bound(self, bound: &BigUint) -> F {
        if big(&self) < *bound {
            self
        } else {
            fe(&(bound - BigUint::one()))
        }
    }
}

fn rnd(rng: &mut ChaCha8Rng) -> F {
    F::random(rng)
}
fn rnd_below(rng: &mut ChaCha8Rng, bound: &BigUint) -> F {
    use num_bigint::RandBigInt;
    if bound.bits() == 0 {
        return F::ZERO;
    }
    fe(&rng.gen_biguint_below(bound))
}
fn vn(x: F) -> V {
    V::N(x)
}

/// general natives, boundary first
fn nat_general(rng: &mut ChaCha8Rng, n_random: usize) -> Vec<F> {
    let mut v = vec![F::ZERO, F::ONE, -F::ONE, fe(&half_down()), fe(&half_up()), rnd(rng), f(2), -f(2), fe(&two_pow(128)), fe(&two_pow(254)), f(5)];
    for k in [8usize, 64, 253] {
        v.extend([fe(&(two_pow(k) - b(1))), fe(&two_pow(k)), fe(&(two_pow(k) + b(1)))]);
    }
    for _ in 0..n_random {
        v.push(rnd(rng));
    }
    v
}

/// natives around a bound `[0, bound)`: in-range boundary, first out-of-range values, random
fn nat_bounded(rng: &mut ChaCha8Rng, bound: &BigUint, n_random: usize) -> Vec<F> {
    let one = BigUint::one();
    let mut v = vec![];
    if *bound > BigUint::from(0u8) {
        v.push(fe(&(bound - &one))); // largest admissible
    }
    v.push(F::ZERO);
    if bound < p() {
        v.push(fe(bound)); // first out of range
    }
    v.push(rnd_below(rng, bound));
    if bound + &one < *p() {
        v.push(fe(&(bound + &one)));
    }
    v.push(-F::ONE);
    v.push(F::ONE);
    v.push(fe(&half_up()));
    v.push(fe(&half_down()));
    if bound.bits() > 1 {
        let k = (bound.bits() - 1) as usize;
        v.extend([fe(&(two_pow(k) - &one)), fe(&two_pow(k))]);
        v.push(fe(&(bound >> 1)));
    }
    for i in 0..n_random {
        v.push(if i % 4 == 3 { rnd(rng) } else { rnd_below(rng, bound) });
    }
    v
}

fn pairs_general(rng: &mut ChaCha8Rng, n_random: usize) -> Vec<(F, F)> {
    let r = rnd(rng);
    let mut v = vec![
        (r, r),
        (r, r + F::ONE),
        (F::ZERO, F::ZERO),
        (F::ONE, -F::ONE),
        (rnd(rng), F::ZERO),
        (rnd(rng), rnd(rng)),
        (-F::ONE, -F::ONE),
        (F::ZERO, rnd(rng)),
        (fe(&half_down()), fe(&half_up())),
        (fe(&half_up()), fe(&half_up())),
        (-F::ONE, F::ZERO),
        (F::ONE, F::ONE),
        (fe(&two_pow(128)), fe(&two_pow(128))),
        (r + F::ONE, r),
    ];
    for _ in 0..n_random {
        v.push((rnd(rng), rnd(rng)));
    }
    v
}

fn pairs_ranged(rng: &mut ChaCha8Rng, k: usize, n_random: usize) -> Vec<(F, F)> {
    let bound = two_pow(k);
    let max = fe(&(&bound - b(1)));
    let a = rnd_below(rng, &(&bound - b(1)));
    let mut v = vec![
        (a, a + F::ONE),
        (a + F::ONE, a),
        (max, max),
        (fe(&bound), F::ONE),
        (F::ZERO, max),
        (max, F::ZERO),
        (F::ONE, fe(&bound)),
        (F::ZERO, F::ZERO),
        (a, a),
        (rnd_below(rng, &bound), rnd_below(rng, &bound)),
        (fe(&(&bound + b(1))), max),
        (-F::ONE, F::ZERO),
        (F::ZERO, -F::ONE),
        (fe(&half_up()), fe(&half_down())),
        (max, max - F::ONE),
        (F::ZERO, F::ONE),
    ];
    for i in 0..n_random {
        v.push(if i % 5 == 4 { (rnd(rng), rnd_below(rng, &bound)) } else { (rnd_below(rng, &bound), rnd_below(rng, &bound)) });
    }
    v
}

fn bit_patterns(rng: &mut ChaCha8Rng, n: usize, n_random: usize, thorough: bool) -> Vec<Vec<bool>> {
    if n == 0 {
        return vec![vec![]];
    }
    if n <= 3 || (thorough && n <= 4) {
        return (0..(1u32 << n)).map(|m| (0..n).map(|i| (m >> i) & 1 == 1).collect()).collect();
    }
    let mut v = vec![
        vec![true; n],
        vec![false; n],
        (0..n).map(|i| i == 0).collect(),
        (0..n).map(|i| i == n - 1).collect(),
        (0..n).map(|i| i % 2 == 0).collect(),
        (0..n).map(|i| i != 0).collect(),
        (0..n).map(|i| i != n - 1).collect(),
    ];
    for _ in 0..n_random.max(1) {
        v.push((0..n).map(|_| rng.gen()).collect());
    }
    v
}

fn bits_of(x: &BigUint, n: usize) -> Vec<bool> {
    (0..n).map(|i| x.bit(i as u64)).collect()
}

fn typed_pairs(rng: &mut ChaCha8Rng, ty: Ty, n_random: usize) -> Vec<(V, V)> {
    match ty {
        Ty::N => pairs_general(rng, n_random).into_iter().map(|(a, b)| (V::N(a), V::N(b))).collect(),
        Ty::B => vec![(V::B(true), V::B(false)), (V::B(false), V::B(true)), (V::B(true), V::B(true)), (V::B(false), V::B(false))],
        Ty::Y => {
            let r: u8 = rng.gen_range(1..255);
            let mut v = vec![(V::Y(r), V::Y(r)), (V::Y(r), V::Y(r + 1)), (V::Y(0), V::Y(255)), (V::Y(255), V::Y(255)), (V::Y(0), V::Y(0)), (V::Y(255), V::Y(254))];
            for _ in 0..n_random {
                v.push((V::Y(rng.gen()), V::Y(rng.gen())));
            }
            v
        }
    }
}

fn vec_elems(rng: &mut ChaCha8Rng, ty: Ty, len: usize) -> Vec<V> {
    (0..len)
        .map(|i| match ty {
            Ty::N => V::N(if i == 0 { -F::ONE } else { rnd(rng) }),
            Ty::Y => V::Y(if i == 0 { 255 } else { rng.gen_range(1..=255) }),
            Ty::B => unreachable!(),
        })
        .collect()
}

/// inputs of one entry; `cap` inputs are kept (boundary classes first)
pub fn inputs_for(kind: &Kind, thorough: bool, rng: &mut ChaCha8Rng) -> Vec<Vec<V>> {
    let (mut out, cap) = inputs_pool(kind, thorough, rng);
    out.truncate(cap);
    out
}

/// Every catalogue entry with ADMISSIBLE inputs only (`reference(input).is_some()`), chosen to
/// steer data-dependent off-circuit branches (zero / non-zero, equal / unequal / adjacent
/// operands, carries and 2^k boundaries, (p±1)/2, p−1, vector lengths 0 / mid / MAX).
/// Deterministic: a fixed seed feeds the few random operands. Up to 6 inputs per entry in
/// quick, 20 in thorough (entries over bits / tiny domains have fewer admissible inputs).
/// Used by C09 (structure must not depend on the witness).
#[allow(dead_code)]
pub fn catalogue_for_structure(thorough: bool) -> Vec<(Entry, Vec<Vec<V>>)> {
    let mut out = vec![];
    for kind in catalogue(thorough) {
        let entry = Entry { kind: kind.clone(), cols: 1 };
        let mut rng = mzv::common::rng_for(0xC09, &format!("structure-{}", kind.label()));
        let (mut inputs, _) = inputs_pool(&kind, true, &mut rng);
        inputs.retain(|x| entry.reference(x).is_some());
        inputs.truncate(if thorough { 20 } else { 6 });
        if !inputs.is_empty() {
            out.push((entry, inputs));
        }
    }
    out
}

/// all generated inputs (boundary classes first) and the number the C04 tiers keep
fn inputs_pool(kind: &Kind, thorough: bool, rng: &mut ChaCha8Rng) -> (Vec<Vec<V>>, usize) {
    use Kind::*;
    let cap = if thorough { 25 } else { 6 };
    let nr = if thorough { 16 } else { 1 };
    let one_n = |v: Vec<F>| v.into_iter().map(|x| vec![vn(x)]).collect::<Vec<_>>();
    let two_n = |v: Vec<(F, F)>| v.into_iter().map(|(x, y)| vec![vn(x), vn(y)]).collect::<Vec<_>>();
    let bitsv = |v: Vec<Vec<bool>>| v.into_iter().map(|bs| bs.into_iter().map(V::B).collect::<Vec<_>>()).collect::<Vec<_>>();
    let mut cap_override = None;
    let mut out: Vec<Vec<V>> = match kind {
        LinComb { coefs, .. } => {
            let n = coefs.len();
            let mut v = vec![vec![vn(F::ZERO); n], vec![vn(-F::ONE); n], vec![vn(F::ONE); n]];
            for _ in 0..(nr + 2) {
                v.push((0..n).map(|_| vn(rnd(rng))).collect());
            }
            v
        }
        AddConsts(cs) => {
            let n = cs.len();
            let mut v = vec![vec![vn(F::ZERO); n], vec![vn(-F::ONE); n], cs.iter().map(|c| vn(-*c)).collect()];
            for _ in 0..(nr + 2) {
                v.push((0..n).map(|_| vn(rnd(rng))).collect());
            }
            v
        }
        AddAndMul(_) => {
            let mut v = vec![vec![vn(F::ZERO); 3], vec![vn(-F::ONE); 3], vec![vn(F::ONE), vn(F::ZERO), vn(-F::ONE)]];
            for _ in 0..(nr + 2) {
                v.push((0..3).map(|_| vn(rnd(rng))).collect());
            }
            v
        }
        Add | Sub | Mul(_) | Div => two_n(pairs_general(rng, nr)),
        AssertQr | IsSquare => {
            // 7 generates the multiplicative group (non-residue); 4 and 49 are squares
            let mut v = vec![F::ZERO, f(7), f(4), F::ONE, -f(7), rnd(rng), f(49), -F::ONE];
            v.extend(nat_general(rng, nr));
            one_n(v)
        }
        Neg | Inv | Inv0 | AddConst(_) | MulConst(_) | Square | Pow(_) | AssertNonZero | IsZero | Sgn0 => one_n(nat_general(rng, nr)),
        AssertZero => one_n(vec![F::ZERO, F::ONE, -F::ONE, rnd(rng), fe(&half_up())]),
        IsEq { ty, .. } | AssertEq { ty, .. } => typed_pairs(rng, *ty, nr).into_iter().map(|(a, b)| vec![a, b]).collect(),
        IsEqFixed { c, .. } | AssertEqFixed { c, .. } => match c {
            V::N(c) => one_n(vec![*c, *c + F::ONE, *c - F::ONE, F::ZERO, rnd(rng), -F::ONE, -*c, F::ONE, fe(&half_up()), rnd(rng), rnd(rng)]),
            V::B(_) => vec![vec![V::B(true)], vec![V::B(false)]],
            V::Y(c) => {
                let mut v = vec![*c, c.wrapping_add(1), c.wrapping_sub(1), 0, 255, rng.gen()];
                for _ in 0..nr {
                    v.push(rng.gen());
                }
                v.into_iter().map(|y| vec![V::Y(y)]).collect()
            }
        },
        AssertTrue | AssertFalse | Not | Convert { from: Ty::B, .. } => vec![vec![V::B(true)], vec![V::B(false)]],
        StdLowerThan(k) | Cmp { n: k, .. } | Bitwise { n: k, .. } => two_n(pairs_ranged(rng, *k, nr)),
        Cmp2 { nx, ny, .. } => {
            // values of the wide operand exceed the narrow bound; equal, adjacent, and the
            // boundary 2^narrow - 1 / 2^narrow on both sides; first out-of-domain values per operand
            let (bx, by) = (two_pow(*nx), two_pow(*ny));
            let narrow = two_pow(*nx.min(ny));
            let wide_is_y = ny > nx;
            let nmax = fe(&(&narrow - b(1)));
            let wmax = fe(&(two_pow(*nx.max(ny)) - b(1)));
            let beyond = (if narrow.bits() > 60 { fe(&(&narrow * b(3))) } else { fe(&(&narrow * b(3) + b(232))) }).min_by_bound(&two_pow(*nx.max(ny)));
            let ord = |nv: F, wv: F| if wide_is_y { (nv, wv) } else { (wv, nv) };
            let a = rnd_below(rng, &(&narrow - b(1)));
            let mut v = vec![
                ord(f(5).min_by_bound(&narrow), beyond),
                ord(F::ZERO, fe(&narrow)),
                ord(F::ZERO, fe(&(&narrow + b(1)))),
                ord(nmax, nmax),
                ord(nmax, fe(&narrow)),
                ord(nmax, wmax),
                ord(a, a + F::ONE),
                ord(a + F::ONE, a),
                ord(a, a),
                ord(F::ZERO, F::ZERO),
                ord(F::ZERO, wmax),
                (fe(&bx), F::ZERO),
                (F::ZERO, fe(&by)),
                ord(fe(&narrow), beyond),
                ord(nmax, nmax - F::ONE),
                (-F::ONE, F::ZERO),
            ];
            for _ in 0..nr {
                v.push((rnd_below(rng, &bx), rnd_below(rng, &by)));
            }
            cap_override = Some(if thorough { 25 } else { 13 });
            two_n(v)
        }
        Bin { n, .. } => bitsv(bit_patterns(rng, *n, nr, thorough)),
        Bnot(k) | BoundedOf(k) | CmpFixed { n: k, .. } => {
            let mut v = nat_bounded(rng, &two_pow(*k), nr);
            if let CmpFixed { c, .. } = kind {
                // around the constant
                v.splice(1..1, [*c, *c - F::ONE, *c + F::ONE]);
            }
            one_n(v)
        }
        ToBits { nb, .. } => match nb {
            Some(k) if *k < 255 => one_n(nat_bounded(rng, &two_pow(*k), nr)),
            _ => {
                // 0, 1, 5: values whose "x + p" alternative fits 255 bits
                let mut v = vec![F::ZERO, F::ONE, f(5), -F::ONE, fe(&(two_pow(255) - p() - b(1))), fe(&(two_pow(255) - p()))];
                v.extend(nat_general(rng, nr));
                cap_override = Some(if thorough { 12 } else { 4 });
                one_n(v)
            }
        },
        ToBytes { nb, .. } => match nb {
            Some(k) if *k < 32 => one_n(nat_bounded(rng, &two_pow(8 * k), nr)),
            _ => {
                let mut v = vec![F::ZERO, f(5), -F::ONE, fe(&(two_pow(255) - p() - b(1))), fe(&(two_pow(255) - p()))];
                v.extend(nat_general(rng, nr));
                cap_override = Some(if thorough { 12 } else { 4 });
                one_n(v)
            }
        },
        ToChunks { bits, nb } => match nb {
            Some(k) if bits * k < 255 => one_n(nat_bounded(rng, &two_pow(bits * k), nr)),
            _ => one_n(nat_general(rng, nr)),
        },
        FromBits { n, .. } => {
            let mut pats = vec![];
            if *n >= 255 {
                pats.extend([bits_of(&(p() - b(1)), *n), bits_of(p(), *n), bits_of(&(p() + b(1)), *n)]);
            }
            pats.extend(bit_patterns(rng, *n, nr, thorough));
            cap_override = if *n >= 255 { Some(if thorough { 10 } else { 4 }) } else { None };
            bitsv(pats)
        }
        FromBytes { n, .. } => {
            let mut v: Vec<Vec<u8>> = vec![vec![255; *n], vec![0; *n], (0..*n).map(|i| (i == n - 1) as u8).collect()];
            if *n >= 32 {
                for x in [p() - b(1), p().clone()] {
                    let mut y = x.to_bytes_le();
                    y.resize(*n, 0);
                    v.insert(0, y);
                }
            }
            for _ in 0..(nr + 1) {
                v.push((0..*n).map(|_| rng.gen()).collect());
            }
            v.into_iter().map(|ys| ys.into_iter().map(V::Y).collect()).collect()
        }
        IsCanonical(n) => {
            let mut pats = vec![];
            if *n >= 255 {
                pats.extend([bits_of(&(p() - b(1)), *n), bits_of(p(), *n), bits_of(&(p() + b(1)), *n), vec![true; *n], vec![false; *n]]);
                cap_override = Some(if thorough { 10 } else { 4 });
            }
            pats.extend(bit_patterns(rng, *n, nr, thorough));
            bitsv(pats)
        }
        BitsLower { n, bound } | BitsGeq { n, bound } => {
            let mut pats = vec![];
            for x in [bound.clone(), bound + b(1)] {
                if x.bits() as usize <= *n {
                    pats.push(bits_of(&x, *n));
                }
            }
            if *bound > b(0) && (bound - b(1)).bits() as usize <= *n {
                pats.push(bits_of(&(bound - b(1)), *n));
            }
            pats.extend(bit_patterns(rng, *n, nr, thorough));
            if *n >= 255 {
                cap_override = Some(if thorough { 10 } else { 4 });
            }
            bitsv(pats)
        }
        AssignLower(bound) | AssertLower(bound) => one_n(nat_bounded(rng, bound, nr)),
        DivRem { d, bound } | Rem { d, bound } => {
            let lim = bound.clone().unwrap_or(p() - b(1));
            let mut v = vec![F::ZERO, F::ONE, fe(&lim), fe(&(d - b(1))), fe(d), fe(&(d + b(1))), fe(&((&lim / d) * d)), rnd_below(rng, &(&lim + b(1)))];
            v.push(fe(&(d * b(2) - b(1))));
            v.push(fe(&(&lim >> 1)));
            for _ in 0..nr {
                v.push(rnd_below(rng, &(&lim + b(1))));
            }
            one_n(v)
        }
        Select(ty) | CondAssertEqual(ty) | CondSwap(ty) => {
            let mut v = vec![];
            for (i, (x, y)) in typed_pairs(rng, *ty, nr).into_iter().enumerate() {
                if i < 3 || *ty == Ty::B {
                    v.push(vec![V::B(true), x.clone(), y.clone()]);
                    v.push(vec![V::B(false), x, y]);
                } else {
                    v.push(vec![V::B(i % 2 == 0), x, y]);
                }
            }
            v
        }
        Convert { from: Ty::N, to: Ty::B } => one_n(vec![F::ZERO, F::ONE, f(2), -F::ONE, rnd(rng), fe(&half_up())]),
        Convert { from: Ty::N, to: Ty::Y } => one_n(nat_bounded(rng, &b(256), nr)),
        Convert { from: Ty::Y, .. } => {
            let mut v: Vec<u8> = vec![0, 255, 1, 128, rng.gen()];
            for _ in 0..nr {
                v.push(rng.gen());
            }
            v.into_iter().map(|y| vec![V::Y(y)]).collect()
        }
        Convert { .. } => unreachable!(),
        ConvertUnsafeNY => one_n(vec![F::ZERO, f(255), f(7), f(128), F::ONE]),
        VecObserve { t, m, a, .. } | VecFlags { t, m, a } | VecResize { t, m, a, .. } => {
            let mut lens = vec![0, *m, 1, *a, a + 1, m - 1, m - a];
            lens.retain(|l| l <= m);
            lens.dedup();
            let mut seen = vec![];
            lens.retain(|l| {
                let fresh = !seen.contains(l);
                seen.push(*l);
                fresh
            });
            if thorough {
                for l in 0..=*m {
                    lens.push(l);
                }
            }
            cap_override = Some(if thorough { 2 * m + 2 } else { 6 });
            lens.into_iter().map(|l| vec_elems(rng, *t, l)).collect()
        }
        VecTrim { t, m, a, n, .. } => {
            // len in {n, n-1, M, n+1, 0, 1} first, then the residues that a confusion between n
            // and n mod A / n - A would let through
            let mut lens: Vec<usize> = vec![*n, n.saturating_sub(1), *m, n + 1, 0, 1, n % a, n.saturating_sub(*a), n + a, (n + m) / 2, n + a - 1, n + a + 1];
            lens.retain(|l| l <= m);
            let mut seen = vec![];
            lens.retain(|l| {
                let fresh = !seen.contains(l);
                seen.push(*l);
                fresh
            });
            if thorough {
                for l in 0..=*m {
                    if !lens.contains(&l) {
                        lens.push(l);
                    }
                }
            }
            cap_override = Some(if thorough { m + 2 } else { 8 });
            lens.into_iter().map(|l| vec_elems(rng, *t, l)).collect()
        }
        AssignMany { ty, len, .. } => {
            let mk = |f: &mut dyn FnMut(usize) -> V| (0..*len).map(|i| f(i)).collect::<Vec<V>>();
            let mut v = vec![];
            match ty {
                Ty::Y => {
                    v.push(mk(&mut |_| V::Y(255)));
                    v.push(mk(&mut |i| V::Y(if i % 2 == 0 { 0 } else { 254 })));
                    for _ in 0..nr {
                        v.push(mk(&mut |_| V::Y(rng.gen())));
                    }
                }
                Ty::B => {
                    v.push(mk(&mut |_| V::B(true)));
                    v.push(mk(&mut |i| V::B(i % 2 == 1)));
                    v.push(mk(&mut |_| V::B(false)));
                    for _ in 0..nr {
                        v.push(mk(&mut |_| V::B(rng.gen())));
                    }
                }
                Ty::N => {
                    v.push(mk(&mut |_| vn(-F::ONE)));
                    v.push(mk(&mut |i| vn(F::from(i as u64))));
                    for _ in 0..nr {
                        v.push(mk(&mut |_| vn(rnd(rng))));
                    }
                }
            }
            cap_override = Some(if thorough { 6 } else { 3 });
            v
        }
        Fixed { inner, consts } => {
            // witness operands of the inner operation's classes, plus values next to the constants
            let (full, _) = inputs_pool(inner, thorough, rng);
            let mut v: Vec<Vec<V>> = vec![];
            let n_w = consts.iter().filter(|c| c.is_none()).count();
            for c in consts.iter().flatten() {
                if let V::N(c) = c {
                    for d in [*c, *c + F::ONE, *c - F::ONE] {
                        let tys: Vec<Ty> = inner.shape().unwrap().into_iter().zip(consts).filter(|(_, k)| k.is_none()).map(|(t, _)| t).collect();
                        if tys.iter().all(|t| *t == Ty::N) && n_w > 0 {
                            v.push(vec![vn(d); n_w]);
                        }
                    }
                }
            }
            for x in full {
                if x.len() == consts.len() {
                    v.push(x.into_iter().zip(consts).filter(|(_, k)| k.is_none()).map(|(x, _)| x).collect());
                }
            }
            v
        }
        Chain { src, steps } => {
            let mut bounds: Vec<BigUint> = steps.iter().flat_map(|s| s.bounds()).collect();
            match src {
                Src::AssignLower(x) => bounds.insert(0, x.clone()),
                Src::BytesRoundTrip(nb) => bounds.push(two_pow(8 * nb)),
                _ => {}
            }
            cap_override = Some(if thorough { 20 } else { 10 });
            match src {
                Src::Bit => vec![vec![V::B(false)], vec![V::B(true)]],
                Src::Byte => {
                    let mut ys: Vec<u8> = vec![255, 254, 0];
                    for x in &bounds {
                        for d in [x.clone(), x + b(1)] {
                            if d >= b(1) && d <= b(256) {
                                ys.push((d - b(1)).to_u64_digits().first().copied().unwrap_or(0) as u8);
                            }
                        }
                    }
                    ys.extend([1, 128, 253, rng.gen()]);
                    ys.into_iter().map(|y| vec![V::Y(y)]).collect()
                }
                _ => {
                    let mut xs: Vec<F> = vec![];
                    for x in &bounds {
                        if *x >= b(1) {
                            xs.push(fe(&(x - b(1))));
                        }
                        xs.push(fe(x));
                    }
                    xs.push(F::ZERO);
                    for x in &bounds {
                        xs.push(fe(&(x + b(1))));
                    }
                    xs.extend([F::ONE, -F::ONE, fe(&half_up())]);
                    let smallest = bounds.iter().min().cloned().unwrap_or(b(256));
                    for _ in 0..nr {
                        xs.push(rnd_below(rng, &smallest));
                    }
                    one_n(xs)
                }
            }
        }
        MapGet | MapInsert => {
            let ks: Vec<F> = (0..3).map(|_| rnd(rng)).collect();
            let vs: Vec<F> = (0..3).map(|_| rnd(rng)).collect();
            let full: Vec<V> = ks.iter().zip(&vs).flat_map(|(k, v)| [vn(*k), vn(*v)]).collect();
            let with = |key: F, val: F, entries: &[V]| {
                let mut x = vec![vn(key), vn(val)];
                x.extend_from_slice(entries);
                x
            };
            let fresh = rnd(rng);
            let mut v = vec![
                with(ks[1], vs[1] + F::ONE, &full),          // member / overwrite with a new value
                with(fresh, rnd(rng), &full),                 // non-member / new key
                with(F::ZERO, F::ONE, &[]),                   // empty map, key 0
                with(ks[0], vs[0], &full),                    // member / same value again
                with(-F::ONE, F::ZERO, &full[..2]),           // key p−1, value = default
                with(ks[2], F::ZERO, &full),                  // member / reset to the default value
            ];
            for _ in 0..nr {
                v.push(with(rnd(rng), rnd(rng), &full));
            }
            cap_override = Some(if thorough { 8 } else { 3 });
            v
        }
    };
    // de-duplicate, honour documented caller preconditions, cap
    let mut seen: Vec<String> = vec![];
    out.retain(|x| {
        let key = format!("{x:?}");
        let fresh = !seen.contains(&key);
        seen.push(key);
        fresh && kind.precondition(x)
    });
    let _ = big;
    (out, cap_override.unwrap_or(cap))
}
