//! C04 catalogue entries: one `Entry` (operation kind + parameters) is one `OpSpec`.
//!
//! The input of every entry is a list of typed values (`V`: native, bit, byte). `synth` assigns
//! the inputs according to the entry's shape, exposes them, runs the operation on `ZkStdLib`
//! (or on a gadget reachable through its public accessors) and exposes the outputs. `reference`
//! is written from the trait documentation over `BigUint` / `bool` / bytes (the map uses
//! `map::cpu`, as DESIGN names it as the reference).
#![allow(dead_code)] // also mounted by c09.rs, which uses a subset

use std::{cell::RefCell, sync::OnceLock};

use ff::{Field, PrimeField};
use midnight_circuits::{
    field::AssignedBounded,
    hash::poseidon::PoseidonChip,
    instructions::{
        map::{MapCPU, MapInstructions},
        *,
    },
    map::cpu::MapMt,
    types::{AssignedBit, AssignedByte, AssignedNative, AssignedVector, InnerValue, Vectorizable},
};
use midnight_curves::Fq as F;
use midnight_proofs::{
    circuit::{Layouter, Value},
    plonk::Error,
};
use midnight_zk_stdlib::{ZkStdLib, ZkStdLibArch};
use mzv::engines::catalogue::OpSpec;
use num_bigint::BigUint;
use num_integer::Integer;
use num_traits::{One, Zero};

// ---------------------------------------------------------------------------------------------
// big-integer reference arithmetic
// ---------------------------------------------------------------------------------------------

pub fn big(f: &F) -> BigUint {
    BigUint::from_bytes_le(f.to_repr().as_ref())
}

/// the field modulus, obtained as (−1) + 1 over the integers
pub fn p() -> &'static BigUint {
    static P: OnceLock<BigUint> = OnceLock::new();
    P.get_or_init(|| big(&-F::ONE) + BigUint::one())
}

/// integer → field element (reduced mod p)
pub fn fe(b: &BigUint) -> F {
    let r = b % p();
    let mut repr = <F as PrimeField>::Repr::default();
    let le = r.to_bytes_le();
    repr.as_mut()[..le.len()].copy_from_slice(&le);
    Option::<F>::from(F::from_repr(repr)).expect("canonical representation")
}

pub fn fbit(b: bool) -> F {
    if b {
        F::ONE
    } else {
        F::ZERO
    }
}

pub fn two_pow(k: usize) -> BigUint {
    BigUint::one() << k
}

fn addm(a: &BigUint, b: &BigUint) -> BigUint {
    (a + b) % p()
}
fn subm(a: &BigUint, b: &BigUint) -> BigUint {
    (a + p() - (b % p())) % p()
}
fn mulm(a: &BigUint, b: &BigUint) -> BigUint {
    (a * b) % p()
}
fn negm(a: &BigUint) -> BigUint {
    (p() - (a % p())) % p()
}
fn invm(a: &BigUint) -> Option<BigUint> {
    if (a % p()).is_zero() {
        None
    } else {
        Some(a.modpow(&(p() - BigUint::from(2u8)), p()))
    }
}
/// Euler's criterion; 0 counts as a square (0 = 0², and `assert_qr` documents "by exhibiting a square root")
fn is_qr(a: &BigUint) -> bool {
    let a = a % p();
    a.is_zero() || a.modpow(&((p() - BigUint::one()) >> 1), p()).is_one()
}
fn bits_le(x: &BigUint, n: usize) -> Vec<bool> {
    (0..n).map(|i| x.bit(i as u64)).collect()
}
fn from_bits_le(bits: &[bool]) -> BigUint {
    let mut r = BigUint::zero();
    for (i, b) in bits.iter().enumerate() {
        if *b {
            r.set_bit(i as u64, true);
        }
    }
    r
}

// ---------------------------------------------------------------------------------------------
// typed values
// ---------------------------------------------------------------------------------------------

#[derive(Clone, PartialEq)]
pub enum V {
    N(F),
    B(bool),
    Y(u8),
}

impl std::fmt::Debug for V {
    fn fmt(&self, f: &mut std::fmt::Formatter<'_>) -> std::fmt::Result {
        match self {
            V::N(x) => write!(f, "N:{}", hex::encode(x.to_bytes_le())),
            V::B(b) => write!(f, "B:{}", *b as u8),
            V::Y(y) => write!(f, "Y:{y}"),
        }
    }
}

impl V {
    pub fn enc(&self) -> F {
        match self {
            V::N(x) => *x,
            V::B(b) => fbit(*b),
            V::Y(y) => F::from(*y as u64),
        }
    }
    pub fn n(&self) -> F {
        match self {
            V::N(x) => *x,
            o => panic!("harness: expected a native input, got {o:?}"),
        }
    }
    pub fn b(&self) -> bool {
        match self {
            V::B(x) => *x,
            o => panic!("harness: expected a bit input, got {o:?}"),
        }
    }
    pub fn y(&self) -> u8 {
        match self {
            V::Y(x) => *x,
            o => panic!("harness: expected a byte input, got {o:?}"),
        }
    }
    pub fn ty(&self) -> Ty {
        match self {
            V::N(_) => Ty::N,
            V::B(_) => Ty::B,
            V::Y(_) => Ty::Y,
        }
    }
    /// parses the `Debug` form back (replay)
    pub fn parse(s: &str) -> Option<V> {
        let s = s.trim();
        if let Some(h) = s.strip_prefix("N:") {
            let bytes = hex::decode(h).ok()?;
            Some(V::N(fe(&BigUint::from_bytes_le(&bytes))))
        } else if let Some(b) = s.strip_prefix("B:") {
            Some(V::B(b.trim() == "1"))
        } else if let Some(y) = s.strip_prefix("Y:") {
            Some(V::Y(y.trim().parse().ok()?))
        } else {
            None
        }
    }
    pub fn parse_list(s: &str) -> Option<Vec<V>> {
        let s = s.trim().strip_prefix('[')?.strip_suffix(']')?;
        if s.trim().is_empty() {
            return Some(vec![]);
        }
        s.split(',').map(V::parse).collect()
    }
}

#[derive(Clone, Copy, Debug, PartialEq, Eq)]
pub enum Ty {
    N,
    B,
    Y,
}

impl Ty {
    fn tag(&self) -> &'static str {
        match self {
            Ty::N => "native",
            Ty::B => "bit",
            Ty::Y => "byte",
        }
    }
}

#[derive(Clone)]
enum A {
    N(AssignedNative<F>),
    B(AssignedBit<F>),
    Y(AssignedByte<F>),
}

impl A {
    fn n(&self) -> &AssignedNative<F> {
        match self {
            A::N(x) => x,
            _ => panic!("harness: expected an assigned native"),
        }
    }
    fn b(&self) -> &AssignedBit<F> {
        match self {
            A::B(x) => x,
            _ => panic!("harness: expected an assigned bit"),
        }
    }
    fn y(&self) -> &AssignedByte<F> {
        match self {
            A::Y(x) => x,
            _ => panic!("harness: expected an assigned byte"),
        }
    }
}

fn assign_in<L: Layouter<F>>(s: &ZkStdLib, l: &mut L, w: &Value<Vec<V>>, i: usize, ty: Ty) -> Result<A, Error> {
    Ok(match ty {
        Ty::N => A::N(s.assign(l, w.as_ref().map(|v| v[i].n()))?),
        Ty::B => A::B(s.assign(l, w.as_ref().map(|v| v[i].b()))?),
        Ty::Y => A::Y(s.assign(l, w.as_ref().map(|v| v[i].y()))?),
    })
}

fn expose<L: Layouter<F>>(s: &ZkStdLib, l: &mut L, a: &A) -> Result<(), Error> {
    match a {
        A::N(x) => s.constrain_as_public_input(l, x),
        A::B(x) => s.constrain_as_public_input(l, x),
        A::Y(x) => s.constrain_as_public_input(l, x),
    }
}

// ---------------------------------------------------------------------------------------------
// kinds
// ---------------------------------------------------------------------------------------------

#[derive(Clone, Copy, Debug, PartialEq, Eq)]
pub enum EqOp {
    Eq,
    Neq,
}
#[derive(Clone, Copy, Debug, PartialEq, Eq)]
pub enum BinOp {
    And,
    Or,
    Xor,
}
#[derive(Clone, Copy, Debug, PartialEq, Eq)]
pub enum CmpOp {
    Lt,
    Gt,
    Leq,
    Geq,
}

#[derive(Clone, Debug)]
pub enum Kind {
    // ArithInstructions
    LinComb { coefs: Vec<F>, k: F },
    Add,
    Sub,
    Mul(Option<F>),
    Div,
    Neg,
    Inv,
    Inv0,
    AddConst(F),
    AddConsts(Vec<F>),
    MulConst(F),
    Square,
    Pow(u64),
    AddAndMul([F; 5]),
    // ZeroInstructions
    AssertZero,
    AssertNonZero,
    IsZero,
    // EqualityInstructions
    IsEq { op: EqOp, ty: Ty },
    IsEqFixed { op: EqOp, c: V },
    // AssertionInstructions
    AssertEq { op: EqOp, ty: Ty },
    AssertEqFixed { op: EqOp, c: V },
    // stdlib extras
    AssertTrue,
    AssertFalse,
    StdLowerThan(usize),
    // FieldInstructions
    AssertQr,
    IsSquare,
    // BinaryInstructions
    Bin { op: BinOp, n: usize },
    Not,
    // BitwiseInstructions
    Bitwise { op: BinOp, n: usize },
    Bnot(usize),
    // DecompositionInstructions
    ToBits { nb: Option<usize>, canon: bool, be: bool },
    ToBytes { nb: Option<usize>, be: bool },
    FromBits { n: usize, be: bool },
    FromBytes { n: usize, be: bool },
    ToChunks { bits: usize, nb: Option<usize> },
    Sgn0,
    // CanonicityInstructions
    IsCanonical(usize),
    BitsLower { n: usize, bound: BigUint },
    BitsGeq { n: usize, bound: BigUint },
    // RangeCheckInstructions
    AssignLower(BigUint),
    AssertLower(BigUint),
    // ComparisonInstructions (through jubjub().native_gadget())
    BoundedOf(usize),
    Cmp { op: CmpOp, n: usize },
    /// two bounded operands declared with DIFFERENT bit bounds (x < 2^nx, y < 2^ny)
    Cmp2 { op: CmpOp, nx: usize, ny: usize },
    CmpFixed { op: CmpOp, n: usize, c: F },
    // DivisionInstructions
    DivRem { d: BigUint, bound: Option<BigUint> },
    Rem { d: BigUint, bound: Option<BigUint> },
    // ControlFlowInstructions
    Select(Ty),
    CondAssertEqual(Ty),
    CondSwap(Ty),
    // ConversionInstructions
    Convert { from: Ty, to: Ty },
    ConvertUnsafeNY,
    // VectorInstructions: element type, M, A
    VecObserve { t: Ty, m: usize, a: usize, filler: Option<V> },
    VecFlags { t: Ty, m: usize, a: usize },
    /// `observe` = also run get_limits / value() on the result; `false` = the operation alone
    /// (its documented domain len >= n must be enforced by trim_beginning itself, and nothing
    /// the harness adds afterwards can reject in its place)
    VecTrim { t: Ty, m: usize, a: usize, n: usize, observe: bool },
    VecResize { t: Ty, m: usize, a: usize, l: usize },
    // MapInstructions
    MapGet,
    MapInsert,
    /// AssignmentInstructions: `assign_many` (or `assign` when `many` is false) of `len` bits /
    /// bytes / natives; every element is exposed. Batches longer than the number of range-check
    /// columns span several rows, each of which needs the range lookup
    AssignMany { ty: Ty, len: usize, many: bool },
    /// operand provenance: the shaped operation `inner` with some operands taken from CONSTANT
    /// cells (`assign_fixed`, cached by value inside the chips) instead of witness cells; the
    /// input list holds the remaining (witness) operands only
    Fixed { inner: Box<Kind>, consts: Vec<Option<V>> },
    /// short composition: a source that records a bound / "already constrained" fact about a
    /// native cell, followed by operations that may rely on it
    Chain { src: Src, steps: Vec<Step> },
}

/// where the native cell of a composition comes from
#[derive(Clone, Debug)]
pub enum Src {
    /// assign a byte, convert byte -> native
    Byte,
    /// assign a bit, convert bit -> native
    Bit,
    /// plain witness assignment
    Native,
    /// `assign_lower_than_fixed(x, b)`
    AssignLower(BigUint),
    /// native -> `assigned_to_le_bytes(Some(nb))` -> `assigned_from_le_bytes`
    BytesRoundTrip(usize),
}

/// one later operation on the native cell
#[derive(Clone, Debug)]
pub enum Step {
    AssertLower(BigUint),
    /// `bounded_of_element(n)` then the fixed comparison with `c`
    CmpFixed { op: CmpOp, n: usize, c: F },
    /// `bounded_of_element(n)` + `element_of_bounded`
    BoundedOf(usize),
    /// convert native -> byte
    ToByte,
    /// convert native -> bit
    ToBit,
}

impl Step {
    fn name(&self) -> String {
        match self {
            Step::AssertLower(_) => "assert_lower_than_fixed".into(),
            Step::CmpFixed { op, .. } => format!(
                "{}_fixed",
                match op {
                    CmpOp::Lt => "lower_than",
                    CmpOp::Gt => "greater_than",
                    CmpOp::Leq => "leq",
                    CmpOp::Geq => "geq",
                }
            ),
            Step::BoundedOf(_) => "bounded_of_element".into(),
            Step::ToByte => "convert<native->byte>".into(),
            Step::ToBit => "convert<native->bit>".into(),
        }
    }
    fn label(&self) -> String {
        match self {
            Step::AssertLower(b) => format!("assert_lower_than_fixed({})", bhex(b)),
            Step::CmpFixed { n, c, .. } => format!("{}(n={n},c={})", self.name(), fhex(c)),
            Step::BoundedOf(n) => format!("bounded_of_element({n})"),
            _ => self.name(),
        }
    }
    /// bounds this step compares against (operand classes are built around them)
    pub fn bounds(&self) -> Vec<BigUint> {
        match self {
            Step::AssertLower(b) => vec![b.clone()],
            Step::CmpFixed { n, c, .. } => vec![big(c), two_pow(*n)],
            Step::BoundedOf(n) => vec![two_pow(*n)],
            Step::ToByte => vec![BigUint::from(256u32)],
            Step::ToBit => vec![BigUint::from(2u32)],
        }
    }
}

impl Src {
    fn name(&self) -> String {
        match self {
            Src::Byte => "convert<byte->native>".into(),
            Src::Bit => "convert<bit->native>".into(),
            Src::Native => "assign".into(),
            Src::AssignLower(_) => "assign_lower_than_fixed".into(),
            Src::BytesRoundTrip(_) => "assigned_to_le_bytes+assigned_from_le_bytes".into(),
        }
    }
    pub fn ty(&self) -> Ty {
        match self {
            Src::Byte => Ty::Y,
            Src::Bit => Ty::B,
            _ => Ty::N,
        }
    }
}

pub const VEC_SHAPES: &[(usize, usize)] = &[(8, 4), (6, 2), (6, 3), (4, 1), (12, 3)];
pub const VEC_RESIZES: &[(usize, usize, usize)] = &[(8, 4, 12), (6, 2, 10), (6, 3, 9), (4, 1, 5), (12, 3, 15)];

#[derive(Clone, Debug)]
pub struct Entry {
    pub kind: Kind,
    /// `nr_pow2range_cols` of the architecture
    pub cols: u8,
}

thread_local! {
    /// the last expected vector computed by `reference` on this thread (used by `extra_targets`
    /// to aim an output at the other values of the same case: swapped wiring, wrong branch)
    static LAST_EXPECTED: RefCell<Vec<F>> = const { RefCell::new(Vec::new()) };
}

fn fhex(f: &F) -> String {
    let b = big(f);
    if b.bits() <= 64 {
        format!("{b}")
    } else if negm(&b).bits() <= 64 {
        format!("-{}", negm(&b))
    } else {
        format!("0x{}..", &hex::encode(f.to_bytes_le())[..8])
    }
}
fn bhex(b: &BigUint) -> String {
    if b.bits() <= 64 {
        format!("{b}")
    } else if b.count_ones() == 1 {
        format!("2^{}", b.bits() - 1)
    } else if (b + BigUint::one()).count_ones() == 1 {
        format!("2^{}-1", b.bits())
    } else if b == p() {
        "p".into()
    } else if *b == (p() + BigUint::one()) >> 1 {
        "(p+1)/2".into()
    } else if *b == p() - BigUint::one() {
        "p-1".into()
    } else {
        format!("~2^{}", b.bits())
    }
}

impl Kind {
    /// the instruction trait the entry belongs to
    pub fn trait_name(&self) -> &'static str {
        use Kind::*;
        match self {
            LinComb { .. } | Add | Sub | Mul(_) | Div | Neg | Inv | Inv0 | AddConst(_) | AddConsts(_) | MulConst(_) | Square | Pow(_)
            | AddAndMul(_) => "ArithInstructions",
            AssertZero | AssertNonZero | IsZero => "ZeroInstructions",
            IsEq { .. } | IsEqFixed { .. } => "EqualityInstructions",
            AssertEq { .. } | AssertEqFixed { .. } => "AssertionInstructions",
            AssertTrue | AssertFalse | StdLowerThan(_) => "ZkStdLib(inherent)",
            AssertQr | IsSquare => "FieldInstructions",
            Bin { .. } | Not => "BinaryInstructions",
            Bitwise { .. } | Bnot(_) => "BitwiseInstructions",
            ToBits { .. } | ToBytes { .. } | FromBits { .. } | FromBytes { .. } | ToChunks { .. } | Sgn0 => "DecompositionInstructions",
            IsCanonical(_) | BitsLower { .. } | BitsGeq { .. } => "CanonicityInstructions",
            AssignLower(_) | AssertLower(_) => "RangeCheckInstructions",
            BoundedOf(_) | Cmp { .. } | Cmp2 { .. } | CmpFixed { .. } => "ComparisonInstructions",
            DivRem { .. } | Rem { .. } => "DivisionInstructions",
            Select(_) | CondAssertEqual(_) | CondSwap(_) => "ControlFlowInstructions",
            Convert { .. } | ConvertUnsafeNY => "ConversionInstructions",
            VecObserve { .. } | VecFlags { .. } | VecTrim { .. } | VecResize { .. } => "VectorInstructions",
            MapGet | MapInsert => "MapInstructions",
            AssignMany { .. } => "AssignmentInstructions",
            Fixed { inner, .. } => inner.trait_name(),
            Chain { .. } => "compositions",
        }
    }

    /// stable coarse name (method + type + structural variant): used in signatures
    pub fn name(&self) -> String {
        use Kind::*;
        let eq = |op: &EqOp| if *op == EqOp::Eq { "equal" } else { "not_equal" };
        let bin = |op: &BinOp| match op {
            BinOp::And => "and",
            BinOp::Or => "or",
            BinOp::Xor => "xor",
        };
        let cmp = |op: &CmpOp| match op {
            CmpOp::Lt => "lower_than",
            CmpOp::Gt => "greater_than",
            CmpOp::Leq => "leq",
            CmpOp::Geq => "geq",
        };
        let full_bits = |nb: &Option<usize>| nb.map(|n| n >= 255).unwrap_or(true);
        match self {
            LinComb { .. } => "linear_combination".into(),
            Add => "add".into(),
            Sub => "sub".into(),
            Mul(None) => "mul".into(),
            Mul(Some(_)) => "mul<const>".into(),
            Div => "div".into(),
            Neg => "neg".into(),
            Inv => "inv".into(),
            Inv0 => "inv0".into(),
            AddConst(_) => "add_constant".into(),
            AddConsts(_) => "add_constants".into(),
            MulConst(_) => "mul_by_constant".into(),
            Square => "square".into(),
            Pow(_) => "pow".into(),
            AddAndMul(_) => "add_and_mul".into(),
            AssertZero => "assert_zero".into(),
            AssertNonZero => "assert_non_zero".into(),
            IsZero => "is_zero".into(),
            IsEq { op, ty } => format!("is_{}<{}>", eq(op), ty.tag()),
            IsEqFixed { op, c } => format!("is_{}_to_fixed<{}>", eq(op), c.ty().tag()),
            AssertEq { op, ty } => format!("assert_{}<{}>", eq(op), ty.tag()),
            AssertEqFixed { op, c } => format!("assert_{}_to_fixed<{}>", eq(op), c.ty().tag()),
            AssertTrue => "stdlib.assert_true".into(),
            AssertFalse => "stdlib.assert_false".into(),
            StdLowerThan(_) => "stdlib.lower_than".into(),
            AssertQr => "assert_qr".into(),
            IsSquare => "is_square".into(),
            Bin { op, .. } => bin(op).into(),
            Not => "not".into(),
            Bitwise { op, .. } => format!("b{}", bin(op)),
            Bnot(_) => "bnot".into(),
            ToBits { nb, canon, be } => format!(
                "assigned_to_{}_bits[{},{}]",
                if *be { "be" } else { "le" },
                if full_bits(nb) { "full" } else { "partial" },
                if *canon { "canonical" } else { "non-canonical" }
            ),
            ToBytes { nb, be } => format!(
                "assigned_to_{}_bytes[{}]",
                if *be { "be" } else { "le" },
                if nb.map(|n| n >= 32).unwrap_or(true) { "full" } else { "partial" }
            ),
            FromBits { be, .. } => format!("assigned_from_{}_bits", if *be { "be" } else { "le" }),
            FromBytes { be, .. } => format!("assigned_from_{}_bytes", if *be { "be" } else { "le" }),
            ToChunks { nb, .. } => format!("assigned_to_le_chunks[{}]", if nb.is_some() { "bounded" } else { "full" }),
            Sgn0 => "sgn0".into(),
            IsCanonical(_) => "is_canonical".into(),
            BitsLower { .. } => "le_bits_lower_than".into(),
            BitsGeq { .. } => "le_bits_geq_than".into(),
            AssignLower(b) => format!("assign_lower_than_fixed[{}]", if b.count_ones() == 1 { "pow2" } else { "non-pow2" }),
            AssertLower(b) => format!("assert_lower_than_fixed[{}]", if b.count_ones() == 1 { "pow2" } else { "non-pow2" }),
            BoundedOf(_) => "bounded_of_element+element_of_bounded".into(),
            Cmp { op, .. } => cmp(op).into(),
            Cmp2 { op, .. } => format!("{}[mixed bounds]", cmp(op)),
            CmpFixed { op, .. } => format!("{}_fixed", cmp(op)),
            DivRem { bound, .. } => format!("div_rem[{}]", if bound.is_some() { "bounded" } else { "unbounded" }),
            Rem { bound, .. } => format!("rem[{}]", if bound.is_some() { "bounded" } else { "unbounded" }),
            Select(t) => format!("select<{}>", t.tag()),
            CondAssertEqual(t) => format!("cond_assert_equal<{}>", t.tag()),
            CondSwap(t) => format!("cond_swap<{}>", t.tag()),
            Convert { from, to } => format!("convert<{}->{}>", from.tag(), to.tag()),
            ConvertUnsafeNY => "convert_unsafe<native->byte>".into(),
            VecObserve { filler, .. } => format!("vector.assign_with_filler[{}]+get_limits", if filler.is_some() { "filler" } else { "default" }),
            VecFlags { .. } => "vector.padding_flag".into(),
            VecTrim { observe: true, .. } => "vector.trim_beginning".into(),
            VecTrim { observe: false, .. } => "vector.trim_beginning[domain]".into(),
            VecResize { .. } => "vector.resize".into(),
            MapGet => "map.get".into(),
            MapInsert => "map.insert+succinct_repr".into(),
            AssignMany { ty, many, .. } => format!("{}<{}>", if *many { "assign_many" } else { "assign" }, ty.tag()),
            Fixed { inner, .. } => format!("{}(fixed operands)", inner.name()),
            Chain { src, steps } => format!("chain:{}+{}", src.name(), steps.iter().map(|s| s.name()).collect::<Vec<_>>().join("+")),
        }
    }

    /// full label with every parameter (evidence / statistics)
    pub fn label(&self) -> String {
        use Kind::*;
        let base = self.name();
        let extra = match self {
            LinComb { coefs, k } => format!("coefs=[{}],k={}", coefs.iter().map(fhex).collect::<Vec<_>>().join(","), fhex(k)),
            Mul(Some(c)) | AddConst(c) | MulConst(c) => format!("c={}", fhex(c)),
            AddConsts(cs) => format!("cs=[{}]", cs.iter().map(fhex).collect::<Vec<_>>().join(",")),
            Pow(n) => format!("n={n}"),
            AddAndMul(c) => format!("a,b,c,k,m=[{}]", c.iter().map(fhex).collect::<Vec<_>>().join(",")),
            IsEqFixed { c, .. } | AssertEqFixed { c, .. } => match c {
                V::N(x) => format!("c={}", fhex(x)),
                V::B(b) => format!("c={b}"),
                V::Y(y) => format!("c={y}"),
            },
            StdLowerThan(n) | Bnot(n) | IsCanonical(n) | BoundedOf(n) => format!("n={n}"),
            Bin { n, .. } | Bitwise { n, .. } | Cmp { n, .. } => format!("n={n}"),
            Cmp2 { nx, ny, .. } => format!("nx={nx},ny={ny}"),
            ToBits { nb, .. } | ToBytes { nb, .. } => format!("nb={nb:?}"),
            FromBits { n, .. } | FromBytes { n, .. } => format!("n={n}"),
            ToChunks { bits, nb } => format!("bits={bits},nb={nb:?}"),
            BitsLower { n, bound } | BitsGeq { n, bound } => format!("n={n},bound={}", bhex(bound)),
            AssignLower(b) | AssertLower(b) => format!("bound={}", bhex(b)),
            CmpFixed { n, c, .. } => format!("n={n},c={}", fhex(c)),
            DivRem { d, bound } | Rem { d, bound } => format!("d={},bound={}", bhex(d), bound.as_ref().map(bhex).unwrap_or("None".into())),
            VecObserve { t, m, a, .. } | VecFlags { t, m, a } => format!("{},M={m},A={a}", t.tag()),
            VecTrim { t, m, a, n, .. } => format!("{},M={m},A={a},n={n}", t.tag()),
            VecResize { t, m, a, l } => format!("{},M={m},A={a},L={l}", t.tag()),
            AssignMany { len, .. } => format!("len={len}"),
            Fixed { inner, consts } => {
                let il = inner.label();
                let params = il.strip_prefix(&inner.name()).unwrap_or("").to_string();
                format!(
                    "{}operands=[{}]",
                    if params.is_empty() { String::new() } else { format!("{params},") },
                    consts
                        .iter()
                        .map(|c| match c {
                            None => "witness".to_string(),
                            Some(V::N(x)) => format!("fixed {}", fhex(x)),
                            Some(V::B(b)) => format!("fixed {b}"),
                            Some(V::Y(y)) => format!("fixed {y}u8"),
                        })
                        .collect::<Vec<_>>()
                        .join(",")
                )
            }
            Chain { src, steps } => format!(
                "{}->{}",
                match src {
                    Src::AssignLower(b) => format!("assign_lower_than_fixed({})", bhex(b)),
                    Src::BytesRoundTrip(nb) => format!("le_bytes_round_trip({nb})"),
                    o => o.name(),
                },
                steps.iter().map(|s| s.label()).collect::<Vec<_>>().join("->")
            ),
            _ => String::new(),
        };
        if extra.is_empty() {
            base
        } else {
            format!("{base}{{{extra}}}")
        }
    }

    /// types of the inputs that are assigned and exposed up front; `None` = the entry handles its
    /// inputs itself (range-checked assignment, vectors, maps)
    pub fn shape(&self) -> Option<Vec<Ty>> {
        use Kind::*;
        Some(match self {
            LinComb { coefs, .. } => vec![Ty::N; coefs.len()],
            Add | Sub | Mul(_) | Div => vec![Ty::N; 2],
            Neg | Inv | Inv0 | AddConst(_) | MulConst(_) | Square | Pow(_) => vec![Ty::N],
            AddConsts(cs) => vec![Ty::N; cs.len()],
            AddAndMul(_) => vec![Ty::N; 3],
            AssertZero | AssertNonZero | IsZero | AssertQr | IsSquare | Sgn0 => vec![Ty::N],
            IsEq { ty, .. } | AssertEq { ty, .. } => vec![*ty; 2],
            IsEqFixed { c, .. } | AssertEqFixed { c, .. } => vec![c.ty()],
            AssertTrue | AssertFalse | Not => vec![Ty::B],
            StdLowerThan(_) | Cmp { .. } | Cmp2 { .. } | Bitwise { .. } => vec![Ty::N; 2],
            Bin { n, .. } | FromBits { n, .. } | IsCanonical(n) | BitsLower { n, .. } | BitsGeq { n, .. } => vec![Ty::B; *n],
            Bnot(_) | ToBits { .. } | ToBytes { .. } | ToChunks { .. } | AssertLower(_) | BoundedOf(_) | CmpFixed { .. } | DivRem { .. }
            | Rem { .. } => vec![Ty::N],
            FromBytes { n, .. } => vec![Ty::Y; *n],
            Select(t) | CondAssertEqual(t) | CondSwap(t) => vec![Ty::B, *t, *t],
            Convert { from, .. } => vec![*from],
            ConvertUnsafeNY => vec![Ty::N],
            AssignLower(_) | VecObserve { .. } | VecFlags { .. } | VecTrim { .. } | VecResize { .. } | MapGet | MapInsert | AssignMany { .. } | Fixed { .. } | Chain { .. } => return None,
        })
    }

    pub fn needs_jubjub(&self) -> bool {
        match self {
            Kind::Fixed { inner, .. } => inner.needs_jubjub(),
            Kind::Chain { steps, .. } => steps.iter().any(|s| matches!(s, Step::CmpFixed { .. } | Step::BoundedOf(_))),
            _ => matches!(self, Kind::BoundedOf(_) | Kind::Cmp { .. } | Kind::Cmp2 { .. } | Kind::CmpFixed { .. } | Kind::ConvertUnsafeNY),
        }
    }
    pub fn needs_poseidon(&self) -> bool {
        matches!(self, Kind::MapGet | Kind::MapInsert)
    }
    /// does the entry go through the range-check / decomposition chip (arch knob matters)?
    pub fn uses_range_checks(&self) -> bool {
        use Kind::*;
        if let Fixed { inner, .. } = self {
            return inner.uses_range_checks();
        }
        if let Chain { .. } = self {
            return true;
        }
        if let AssignMany { ty, .. } = self {
            return *ty != Ty::N;
        }
        matches!(
            self,
            StdLowerThan(_)
                | Bitwise { .. }
                | Bnot(_)
                | ToBits { .. }
                | ToBytes { .. }
                | ToChunks { .. }
                | Sgn0
                | AssignLower(_)
                | AssertLower(_)
                | BoundedOf(_)
                | Cmp { .. }
                | Cmp2 { .. }
                | CmpFixed { .. }
                | DivRem { .. }
                | Rem { .. }
                | Convert { from: Ty::N, to: Ty::Y }
                | IsEq { ty: Ty::Y, .. }
                | Select(Ty::Y)
                | CondSwap(Ty::Y)
                | FromBytes { .. }
                | VecObserve { .. }
                | VecFlags { .. }
                | VecTrim { .. }
                | VecResize { .. }
                | MapGet
        )
    }
    /// is the input admissible w.r.t. *preconditions* the documentation puts on the caller
    /// (inputs violating them are outside the claim and are never generated)
    pub fn precondition(&self, input: &[V]) -> bool {
        match self {
            Kind::Fixed { inner, consts } => match merge_fixed(consts, input) {
                Some(full) => inner.precondition(&full),
                None => false,
            },
            Kind::DivRem { bound: Some(b), .. } | Kind::Rem { bound: Some(b), .. } => big(&input[0].n()) <= *b,
            Kind::ConvertUnsafeNY => big(&input[0].n()) < BigUint::from(256u32),
            Kind::VecObserve { m, .. } | Kind::VecFlags { m, .. } | Kind::VecTrim { m, .. } | Kind::VecResize { m, .. } => input.len() <= *m,
            _ => true,
        }
    }
}

/// full operand list of a `Fixed` entry: constants in their positions, witness inputs in the rest
fn merge_fixed(consts: &[Option<V>], witness: &[V]) -> Option<Vec<V>> {
    let mut it = witness.iter();
    let full: Option<Vec<V>> = consts.iter().map(|c| c.clone().or_else(|| it.next().cloned())).collect();
    if it.next().is_some() {
        return None;
    }
    full
}

// ---------------------------------------------------------------------------------------------
// generic helpers over the façade
// ---------------------------------------------------------------------------------------------

fn is_eq_op<L: Layouter<F>, T: InnerValue>(s: &ZkStdLib, l: &mut L, op: EqOp, x: &T, y: &T) -> Result<AssignedBit<F>, Error>
where
    ZkStdLib: EqualityInstructions<F, T>,
{
    match op {
        EqOp::Eq => s.is_equal(l, x, y),
        EqOp::Neq => s.is_not_equal(l, x, y),
    }
}
fn is_eq_fixed_op<L: Layouter<F>, T: InnerValue>(s: &ZkStdLib, l: &mut L, op: EqOp, x: &T, c: T::Element) -> Result<AssignedBit<F>, Error>
where
    ZkStdLib: EqualityInstructions<F, T>,
{
    match op {
        EqOp::Eq => s.is_equal_to_fixed(l, x, c),
        EqOp::Neq => s.is_not_equal_to_fixed(l, x, c),
    }
}
fn assert_eq_op<L: Layouter<F>, T: InnerValue>(s: &ZkStdLib, l: &mut L, op: EqOp, x: &T, y: &T) -> Result<(), Error>
where
    ZkStdLib: AssertionInstructions<F, T>,
{
    match op {
        EqOp::Eq => s.assert_equal(l, x, y),
        EqOp::Neq => s.assert_not_equal(l, x, y),
    }
}
fn assert_eq_fixed_op<L: Layouter<F>, T: InnerValue>(s: &ZkStdLib, l: &mut L, op: EqOp, x: &T, c: T::Element) -> Result<(), Error>
where
    ZkStdLib: AssertionInstructions<F, T>,
{
    match op {
        EqOp::Eq => s.assert_equal_to_fixed(l, x, c),
        EqOp::Neq => s.assert_not_equal_to_fixed(l, x, c),
    }
}

// -------- vectors --------

trait Elem: Vectorizable + Clone {
    fn of_v(v: &V) -> Self::Element;
    fn wrap(self) -> A;
    fn default_elem() -> Self::Element;
}
impl Elem for AssignedNative<F> {
    fn of_v(v: &V) -> F {
        v.n()
    }
    fn wrap(self) -> A {
        A::N(self)
    }
    fn default_elem() -> F {
        F::ZERO
    }
}
impl Elem for AssignedByte<F> {
    fn of_v(v: &V) -> u8 {
        v.y()
    }
    fn wrap(self) -> A {
        A::Y(self)
    }
    fn default_elem() -> u8 {
        0
    }
}

/// Exposes what can be observed of a vector from outside the crate. `payload` = the M slots of
/// `InnerValue::value()` (off-circuit value, re-assigned into fresh cells: observes the honest
/// computation only), then `get_limits` and `padding_flag` (constrained cells).
fn vec_payload<L: Layouter<F>, T: Elem, const M: usize, const AL: usize>(
    s: &ZkStdLib,
    l: &mut L,
    v: &AssignedVector<F, T, M, AL>,
) -> Result<Vec<A>, Error>
where
    T::Element: Copy,
    ZkStdLib: AssignmentInstructions<F, T>,
{
    let pv = v.value();
    (0..M)
        .map(|i| {
            let e = pv.as_ref().map(|p| p.get(i).copied().unwrap_or(T::default_elem()));
            let c: T = s.assign(l, e)?;
            Ok(c.wrap())
        })
        .collect()
}

fn vec_limits<L: Layouter<F>, T: Elem, const M: usize, const AL: usize>(
    s: &ZkStdLib,
    l: &mut L,
    v: &AssignedVector<F, T, M, AL>,
) -> Result<Vec<A>, Error>
where
    T::Element: Copy,
    ZkStdLib: VectorInstructions<F, T, M, AL>,
{
    let (start, end) = s.get_limits(l, v)?;
    Ok(vec![A::N(start), A::N(end)])
}

fn vec_flags<L: Layouter<F>, T: Elem, const M: usize, const AL: usize>(
    s: &ZkStdLib,
    l: &mut L,
    v: &AssignedVector<F, T, M, AL>,
) -> Result<Vec<A>, Error>
where
    T::Element: Copy,
    ZkStdLib: VectorInstructions<F, T, M, AL>,
{
    Ok(s.padding_flag(l, v)?.into_iter().map(A::B).collect())
}

#[derive(Clone, Copy)]
enum VecOp {
    Observe,
    Flags,
    Trim(usize),
    TrimOnly(usize),
}

fn vec_run<L: Layouter<F>, T: Elem, const M: usize, const AL: usize>(
    s: &ZkStdLib,
    l: &mut L,
    w: &Value<Vec<V>>,
    filler: Option<T::Element>,
    op: VecOp,
) -> Result<(), Error>
where
    T::Element: Copy,
    ZkStdLib: VectorInstructions<F, T, M, AL> + AssignmentInstructions<F, T>,
{
    let payload = w.as_ref().map(|v| v.iter().map(T::of_v).collect::<Vec<_>>());
    let v: AssignedVector<F, T, M, AL> = s.assign_with_filler(l, payload, filler)?;
    match op {
        VecOp::Observe | VecOp::Flags => {
            // the vector's length is not instance-bound by anything but its limits: payload and
            // limits form the input section; `padding_flag` is the operation under test
            for a in vec_payload(s, l, &v)? {
                expose(s, l, &a)?;
            }
            for a in vec_limits(s, l, &v)? {
                expose(s, l, &a)?;
            }
            if matches!(op, VecOp::Flags) {
                for a in vec_flags(s, l, &v)? {
                    expose(s, l, &a)?;
                }
            }
        }
        VecOp::TrimOnly(n) => {
            // input section only: the limits of the input vector pin its length
            for a in vec_limits(s, l, &v)? {
                expose(s, l, &a)?;
            }
            let _ = s.trim_beginning(l, &v, n)?;
        }
        VecOp::Trim(n) => {
            let out = s.trim_beginning(l, &v, n)?;
            // `InnerValue::value()` of the result is only meaningful inside the documented domain
            // (len >= n); outside it the harness must not be the one that panics
            let mut in_domain = true;
            w.as_ref().map(|x| in_domain = x.len() >= n);
            // input section: the limits of the input vector (they pin its length) and the
            // off-circuit payload of the result; outputs: limits of the result
            for a in vec_limits(s, l, &v)? {
                expose(s, l, &a)?;
            }
            if in_domain {
                for a in vec_payload(s, l, &out)? {
                    expose(s, l, &a)?;
                }
            } else {
                for _ in 0..M {
                    let c: T = s.assign(l, Value::known(T::default_elem()))?;
                    expose(s, l, &c.wrap())?;
                }
            }
            for a in vec_limits(s, l, &out)? {
                expose(s, l, &a)?;
            }
        }
    }
    Ok(())
}

fn vec_resize_run<L: Layouter<F>, T: Elem, const M: usize, const AL: usize, const LL: usize>(
    s: &ZkStdLib,
    l: &mut L,
    w: &Value<Vec<V>>,
) -> Result<(), Error>
where
    T::Element: Copy,
    ZkStdLib: VectorInstructions<F, T, M, AL> + VectorInstructions<F, T, LL, AL> + AssignmentInstructions<F, T>,
{
    let payload = w.as_ref().map(|v| v.iter().map(T::of_v).collect::<Vec<_>>());
    let v: AssignedVector<F, T, M, AL> = s.assign_with_filler(l, payload, None)?;
    for a in vec_limits(s, l, &v)? {
        expose(s, l, &a)?;
    }
    let out: AssignedVector<F, T, LL, AL> = s.resize::<LL>(l, v)?;
    for a in vec_payload(s, l, &out)? {
        expose(s, l, &a)?;
    }
    for a in vec_limits(s, l, &out)? {
        expose(s, l, &a)?;
    }
    Ok(())
}

/// documented layout of a vector of length `len` in a buffer of size M with alignment A:
/// front padding ≡ 0 mod A, back padding in [0, A), front + payload + back = M
pub fn vec_lims(m: usize, a: usize, len: usize) -> (usize, usize) {
    let back = (a - (len % a)) % a;
    (m - len - back, m - back)
}

fn vec_expected_limits(m: usize, a: usize, len: usize) -> Vec<F> {
    let (start, end) = vec_lims(m, a, len);
    vec![F::from(start as u64), F::from(end as u64)]
}

/// 1 = padding, 0 = payload
fn vec_expected_flags(m: usize, a: usize, len: usize) -> Vec<F> {
    let (start, end) = vec_lims(m, a, len);
    (0..m).map(|i| fbit(!(start <= i && i < end))).collect()
}

fn vec_expected_payload(m: usize, payload: &[V]) -> Vec<F> {
    (0..m).map(|i| payload.get(i).map(|v| v.enc()).unwrap_or(F::ZERO)).collect()
}

// -------- map --------

type Mt = MapMt<F, PoseidonChip<F>>;

/// input layout of the map entries: [key, value, k1, v1, k2, v2, ...]
fn build_map(input: &[V]) -> Mt {
    let mut mt = Mt::new(&F::ZERO);
    for kv in input[2..].chunks(2) {
        mt.insert(&kv[0].n(), &kv[1].n());
    }
    mt
}

// ---------------------------------------------------------------------------------------------
// OpSpec
// ---------------------------------------------------------------------------------------------

impl Entry {
    fn run<L: Layouter<F>>(&self, s: &ZkStdLib, l: &mut L, ins: &[A]) -> Result<Vec<A>, Error> {
        use Kind::*;
        let n = |i: usize| ins[i].n();
        let bits = || ins.iter().map(|a| a.b().clone()).collect::<Vec<_>>();
        Ok(match &self.kind {
            LinComb { coefs, k } => {
                let terms: Vec<(F, AssignedNative<F>)> = coefs.iter().zip(ins).map(|(c, a)| (*c, a.n().clone())).collect();
                vec![A::N(s.linear_combination(l, &terms, *k)?)]
            }
            Add => vec![A::N(s.add(l, n(0), n(1))?)],
            Sub => vec![A::N(s.sub(l, n(0), n(1))?)],
            Mul(c) => vec![A::N(s.mul(l, n(0), n(1), *c)?)],
            Div => vec![A::N(s.div(l, n(0), n(1))?)],
            Neg => vec![A::N(s.neg(l, n(0))?)],
            Inv => vec![A::N(s.inv(l, n(0))?)],
            Inv0 => vec![A::N(s.inv0(l, n(0))?)],
            AddConst(c) => vec![A::N(s.add_constant(l, n(0), *c)?)],
            AddConsts(cs) => {
                let xs: Vec<AssignedNative<F>> = ins.iter().map(|a| a.n().clone()).collect();
                s.add_constants(l, &xs, cs)?.into_iter().map(A::N).collect()
            }
            MulConst(c) => vec![A::N(s.mul_by_constant(l, n(0), *c)?)],
            Square => vec![A::N(s.square(l, n(0))?)],
            Pow(e) => vec![A::N(s.pow(l, n(0), *e)?)],
            AddAndMul([a, b, c, k, m]) => vec![A::N(s.add_and_mul(l, (*a, n(0)), (*b, n(1)), (*c, n(2)), *k, *m)?)],
            AssertZero => {
                s.assert_zero(l, n(0))?;
                vec![]
            }
            AssertNonZero => {
                s.assert_non_zero(l, n(0))?;
                vec![]
            }
            IsZero => vec![A::B(s.is_zero(l, n(0))?)],
            IsEq { op, ty } => vec![A::B(match ty {
                Ty::N => is_eq_op(s, l, *op, ins[0].n(), ins[1].n())?,
                Ty::B => is_eq_op(s, l, *op, ins[0].b(), ins[1].b())?,
                Ty::Y => is_eq_op(s, l, *op, ins[0].y(), ins[1].y())?,
            })],
            IsEqFixed { op, c } => vec![A::B(match c {
                V::N(c) => is_eq_fixed_op(s, l, *op, ins[0].n(), *c)?,
                V::B(c) => is_eq_fixed_op(s, l, *op, ins[0].b(), *c)?,
                V::Y(c) => is_eq_fixed_op(s, l, *op, ins[0].y(), *c)?,
            })],
            AssertEq { op, ty } => {
                match ty {
                    Ty::N => assert_eq_op(s, l, *op, ins[0].n(), ins[1].n())?,
                    Ty::B => assert_eq_op(s, l, *op, ins[0].b(), ins[1].b())?,
                    Ty::Y => assert_eq_op(s, l, *op, ins[0].y(), ins[1].y())?,
                }
                vec![]
            }
            AssertEqFixed { op, c } => {
                match c {
                    V::N(c) => assert_eq_fixed_op(s, l, *op, ins[0].n(), *c)?,
                    V::B(c) => assert_eq_fixed_op(s, l, *op, ins[0].b(), *c)?,
                    V::Y(c) => assert_eq_fixed_op(s, l, *op, ins[0].y(), *c)?,
                }
                vec![]
            }
            AssertTrue => {
                s.assert_true(l, ins[0].b())?;
                vec![]
            }
            AssertFalse => {
                s.assert_false(l, ins[0].b())?;
                vec![]
            }
            StdLowerThan(k) => vec![A::B(s.lower_than(l, n(0), n(1), *k as u32)?)],
            AssertQr => {
                s.assert_qr(l, n(0))?;
                vec![]
            }
            IsSquare => vec![A::B(s.is_square(l, n(0))?)],
            Bin { op, .. } => {
                let b = bits();
                vec![A::B(match op {
                    BinOp::And => s.and(l, &b)?,
                    BinOp::Or => s.or(l, &b)?,
                    BinOp::Xor => s.xor(l, &b)?,
                })]
            }
            Not => vec![A::B(s.not(l, ins[0].b())?)],
            Bitwise { op, n: k } => vec![A::N(match op {
                BinOp::And => s.band(l, n(0), n(1), *k)?,
                BinOp::Or => s.bor(l, n(0), n(1), *k)?,
                BinOp::Xor => s.bxor(l, n(0), n(1), *k)?,
            })],
            Bnot(k) => vec![A::N(s.bnot(l, n(0), *k)?)],
            ToBits { nb, canon, be } => {
                let r = if *be { s.assigned_to_be_bits(l, n(0), *nb, *canon)? } else { s.assigned_to_le_bits(l, n(0), *nb, *canon)? };
                r.into_iter().map(A::B).collect()
            }
            ToBytes { nb, be } => {
                let r = if *be { s.assigned_to_be_bytes(l, n(0), *nb)? } else { s.assigned_to_le_bytes(l, n(0), *nb)? };
                r.into_iter().map(A::Y).collect()
            }
            FromBits { be, .. } => {
                let b = bits();
                let r: AssignedNative<F> = if *be { s.assigned_from_be_bits(l, &b)? } else { s.assigned_from_le_bits(l, &b)? };
                vec![A::N(r)]
            }
            FromBytes { be, .. } => {
                let ys: Vec<AssignedByte<F>> = ins.iter().map(|a| a.y().clone()).collect();
                let r: AssignedNative<F> = if *be { s.assigned_from_be_bytes(l, &ys)? } else { s.assigned_from_le_bytes(l, &ys)? };
                vec![A::N(r)]
            }
            ToChunks { bits: b, nb } => s.assigned_to_le_chunks(l, n(0), *b, *nb)?.into_iter().map(A::N).collect(),
            Sgn0 => vec![A::B(s.sgn0(l, n(0))?)],
            IsCanonical(_) => vec![A::B(s.is_canonical(l, &bits())?)],
            BitsLower { bound, .. } => vec![A::B(s.le_bits_lower_than(l, &bits(), bound.clone())?)],
            BitsGeq { bound, .. } => vec![A::B(s.le_bits_geq_than(l, &bits(), bound.clone())?)],
            AssertLower(bound) => {
                s.assert_lower_than_fixed(l, n(0), bound)?;
                vec![]
            }
            BoundedOf(k) => {
                let ng = s.jubjub().native_gadget();
                let bx: AssignedBounded<F> = ng.bounded_of_element(l, *k, n(0))?;
                let e: AssignedNative<F> = ng.element_of_bounded(l, &bx)?;
                vec![A::N(e)]
            }
            Cmp { op, n: k } | Cmp2 { op, nx: k, .. } => {
                let ky = if let Cmp2 { ny, .. } = &self.kind { ny } else { k };
                let ng = s.jubjub().native_gadget();
                let bx = ng.bounded_of_element(l, *k, n(0))?;
                let by = ng.bounded_of_element(l, *ky, n(1))?;
                vec![A::B(match op {
                    CmpOp::Lt => ng.lower_than(l, &bx, &by)?,
                    CmpOp::Gt => ng.greater_than(l, &bx, &by)?,
                    CmpOp::Leq => ng.leq(l, &bx, &by)?,
                    CmpOp::Geq => ng.geq(l, &bx, &by)?,
                })]
            }
            CmpFixed { op, n: k, c } => {
                let ng = s.jubjub().native_gadget();
                let bx = ng.bounded_of_element(l, *k, n(0))?;
                vec![A::B(match op {
                    CmpOp::Lt => ng.lower_than_fixed(l, &bx, *c)?,
                    CmpOp::Gt => ng.greater_than_fixed(l, &bx, *c)?,
                    CmpOp::Leq => ng.leq_fixed(l, &bx, *c)?,
                    CmpOp::Geq => ng.geq_fixed(l, &bx, *c)?,
                })]
            }
            DivRem { d, bound } => {
                let (q, r) = s.div_rem(l, n(0), d.clone(), bound.clone())?;
                vec![A::N(q), A::N(r)]
            }
            Rem { d, bound } => vec![A::N(s.rem(l, n(0), d.clone(), bound.clone())?)],
            Select(t) => vec![match t {
                Ty::N => A::N(s.select(l, ins[0].b(), ins[1].n(), ins[2].n())?),
                Ty::B => A::B(s.select(l, ins[0].b(), ins[1].b(), ins[2].b())?),
                Ty::Y => A::Y(s.select(l, ins[0].b(), ins[1].y(), ins[2].y())?),
            }],
            CondAssertEqual(t) => {
                match t {
                    Ty::N => s.cond_assert_equal(l, ins[0].b(), ins[1].n(), ins[2].n())?,
                    Ty::B => s.cond_assert_equal(l, ins[0].b(), ins[1].b(), ins[2].b())?,
                    Ty::Y => s.cond_assert_equal(l, ins[0].b(), ins[1].y(), ins[2].y())?,
                }
                vec![]
            }
            CondSwap(t) => match t {
                Ty::N => {
                    let (a, b) = s.cond_swap(l, ins[0].b(), ins[1].n(), ins[2].n())?;
                    vec![A::N(a), A::N(b)]
                }
                Ty::B => {
                    let (a, b) = s.cond_swap(l, ins[0].b(), ins[1].b(), ins[2].b())?;
                    vec![A::B(a), A::B(b)]
                }
                Ty::Y => {
                    let (a, b) = s.cond_swap(l, ins[0].b(), ins[1].y(), ins[2].y())?;
                    vec![A::Y(a), A::Y(b)]
                }
            },
            Convert { from, to } => vec![match (from, to) {
                (Ty::B, Ty::N) => A::N(ConversionInstructions::<F, AssignedBit<F>, AssignedNative<F>>::convert(s, l, ins[0].b())?),
                (Ty::N, Ty::B) => A::B(ConversionInstructions::<F, AssignedNative<F>, AssignedBit<F>>::convert(s, l, ins[0].n())?),
                (Ty::Y, Ty::N) => A::N(ConversionInstructions::<F, AssignedByte<F>, AssignedNative<F>>::convert(s, l, ins[0].y())?),
                (Ty::N, Ty::Y) => A::Y(ConversionInstructions::<F, AssignedNative<F>, AssignedByte<F>>::convert(s, l, ins[0].n())?),
                other => panic!("harness: conversion {other:?} not in the catalogue"),
            }],
            ConvertUnsafeNY => {
                let ng = s.jubjub().native_gadget();
                let y: AssignedByte<F> = ng.convert_unsafe(l, n(0))?;
                vec![A::Y(y)]
            }
            AssignLower(_) | VecObserve { .. } | VecFlags { .. } | VecTrim { .. } | VecResize { .. } | MapGet | MapInsert | AssignMany { .. } | Fixed { .. } | Chain { .. } => unreachable!("raw kinds"),
        })
    }

    fn run_raw<L: Layouter<F>>(&self, s: &ZkStdLib, l: &mut L, w: Value<Vec<V>>) -> Result<(), Error> {
        use Kind::*;
        match &self.kind {
            AssignMany { ty, len, many } => {
                let outs: Vec<A> = match ty {
                    Ty::N => {
                        let vals: Vec<Value<F>> = (0..*len).map(|i| w.as_ref().map(|v| v[i].n())).collect();
                        let r: Vec<AssignedNative<F>> = if *many { s.assign_many(l, &vals)? } else { vec![s.assign(l, vals[0])?] };
                        r.into_iter().map(A::N).collect()
                    }
                    Ty::B => {
                        let vals: Vec<Value<bool>> = (0..*len).map(|i| w.as_ref().map(|v| v[i].b())).collect();
                        let r: Vec<AssignedBit<F>> = if *many { s.assign_many(l, &vals)? } else { vec![s.assign(l, vals[0])?] };
                        r.into_iter().map(A::B).collect()
                    }
                    Ty::Y => {
                        let vals: Vec<Value<u8>> = (0..*len).map(|i| w.as_ref().map(|v| v[i].y())).collect();
                        let r: Vec<AssignedByte<F>> = if *many { s.assign_many(l, &vals)? } else { vec![s.assign(l, vals[0])?] };
                        r.into_iter().map(A::Y).collect()
                    }
                };
                for o in &outs {
                    expose(s, l, o)?;
                }
                Ok(())
            }
            Fixed { inner, consts } => {
                let tys = inner.shape().expect("Fixed wraps a shaped kind");
                assert_eq!(tys.len(), consts.len(), "harness: operand mask of the wrong length");
                let mut ins = Vec::with_capacity(tys.len());
                let mut j = 0;
                for (ty, c) in tys.iter().zip(consts) {
                    match c {
                        Some(c) => ins.push(match (ty, c) {
                            (Ty::N, V::N(x)) => A::N(s.assign_fixed(l, *x)?),
                            (Ty::B, V::B(x)) => A::B(s.assign_fixed(l, *x)?),
                            (Ty::Y, V::Y(x)) => A::Y(s.assign_fixed(l, *x)?),
                            other => panic!("harness: constant of the wrong type {other:?}"),
                        }),
                        None => {
                            let a = assign_in(s, l, &w, j, *ty)?;
                            expose(s, l, &a)?;
                            ins.push(a);
                            j += 1;
                        }
                    }
                }
                let outs = Entry { kind: (**inner).clone(), cols: self.cols }.run(s, l, &ins)?;
                for o in &outs {
                    expose(s, l, o)?;
                }
                Ok(())
            }
            Chain { src, steps } => {
                let n: AssignedNative<F> = match src {
                    Src::Byte => {
                        let y: AssignedByte<F> = s.assign(l, w.as_ref().map(|v| v[0].y()))?;
                        s.constrain_as_public_input(l, &y)?;
                        ConversionInstructions::<F, AssignedByte<F>, AssignedNative<F>>::convert(s, l, &y)?
                    }
                    Src::Bit => {
                        let b: AssignedBit<F> = s.assign(l, w.as_ref().map(|v| v[0].b()))?;
                        s.constrain_as_public_input(l, &b)?;
                        ConversionInstructions::<F, AssignedBit<F>, AssignedNative<F>>::convert(s, l, &b)?
                    }
                    Src::Native => {
                        let x: AssignedNative<F> = s.assign(l, w.as_ref().map(|v| v[0].n()))?;
                        s.constrain_as_public_input(l, &x)?;
                        x
                    }
                    Src::AssignLower(b) => {
                        let x: AssignedNative<F> = s.assign_lower_than_fixed(l, w.as_ref().map(|v| v[0].n()), b)?;
                        s.constrain_as_public_input(l, &x)?;
                        x
                    }
                    Src::BytesRoundTrip(nb) => {
                        let x: AssignedNative<F> = s.assign(l, w.as_ref().map(|v| v[0].n()))?;
                        s.constrain_as_public_input(l, &x)?;
                        let bytes = s.assigned_to_le_bytes(l, &x, Some(*nb))?;
                        let y: AssignedNative<F> = s.assigned_from_le_bytes(l, &bytes)?;
                        s.constrain_as_public_input(l, &y)?;
                        y
                    }
                };
                for st in steps {
                    match st {
                        Step::AssertLower(b) => s.assert_lower_than_fixed(l, &n, b)?,
                        Step::CmpFixed { op, n: k, c } => {
                            let ng = s.jubjub().native_gadget();
                            let bx = ng.bounded_of_element(l, *k, &n)?;
                            let r = match op {
                                CmpOp::Lt => ng.lower_than_fixed(l, &bx, *c)?,
                                CmpOp::Gt => ng.greater_than_fixed(l, &bx, *c)?,
                                CmpOp::Leq => ng.leq_fixed(l, &bx, *c)?,
                                CmpOp::Geq => ng.geq_fixed(l, &bx, *c)?,
                            };
                            s.constrain_as_public_input(l, &r)?;
                        }
                        Step::BoundedOf(k) => {
                            let ng = s.jubjub().native_gadget();
                            let bx: AssignedBounded<F> = ng.bounded_of_element(l, *k, &n)?;
                            let e: AssignedNative<F> = ng.element_of_bounded(l, &bx)?;
                            s.constrain_as_public_input(l, &e)?;
                        }
                        Step::ToByte => {
                            let y = ConversionInstructions::<F, AssignedNative<F>, AssignedByte<F>>::convert(s, l, &n)?;
                            s.constrain_as_public_input(l, &y)?;
                        }
                        Step::ToBit => {
                            let b = ConversionInstructions::<F, AssignedNative<F>, AssignedBit<F>>::convert(s, l, &n)?;
                            s.constrain_as_public_input(l, &b)?;
                        }
                    }
                }
                Ok(())
            }
            AssignLower(bound) => {
                let x: AssignedNative<F> = s.assign_lower_than_fixed(l, w.as_ref().map(|v| v[0].n()), bound)?;
                s.constrain_as_public_input(l, &x)
            }
            VecObserve { t, m, a, filler } => match t {
                Ty::N => {
                    let f = filler.as_ref().map(|v| v.n());
                    vec_dispatch_n(*m, *a, s, l, &w, f, VecOp::Observe)
                }
                Ty::Y => {
                    let f = filler.as_ref().map(|v| v.y());
                    vec_dispatch_y(*m, *a, s, l, &w, f, VecOp::Observe)
                }
                Ty::B => panic!("harness: bit vectors are not Vectorizable"),
            },
            VecFlags { t, m, a } => match t {
                Ty::N => vec_dispatch_n(*m, *a, s, l, &w, None, VecOp::Flags),
                Ty::Y => vec_dispatch_y(*m, *a, s, l, &w, None, VecOp::Flags),
                Ty::B => panic!("harness: bit vectors are not Vectorizable"),
            },
            VecTrim { t, m, a, n, observe } => match t {
                Ty::N => vec_dispatch_n(*m, *a, s, l, &w, None, if *observe { VecOp::Trim(*n) } else { VecOp::TrimOnly(*n) }),
                Ty::Y => vec_dispatch_y(*m, *a, s, l, &w, None, if *observe { VecOp::Trim(*n) } else { VecOp::TrimOnly(*n) }),
                Ty::B => panic!("harness: bit vectors are not Vectorizable"),
            },
            VecResize { t, m, a, l: ll } => match (t, m, a, ll) {
                (Ty::N, 8, 4, 12) => vec_resize_run::<_, AssignedNative<F>, 8, 4, 12>(s, l, &w),
                (Ty::N, 6, 2, 10) => vec_resize_run::<_, AssignedNative<F>, 6, 2, 10>(s, l, &w),
                (Ty::N, 6, 3, 9) => vec_resize_run::<_, AssignedNative<F>, 6, 3, 9>(s, l, &w),
                (Ty::N, 4, 1, 5) => vec_resize_run::<_, AssignedNative<F>, 4, 1, 5>(s, l, &w),
                (Ty::N, 12, 3, 15) => vec_resize_run::<_, AssignedNative<F>, 12, 3, 15>(s, l, &w),
                (Ty::Y, 8, 4, 12) => vec_resize_run::<_, AssignedByte<F>, 8, 4, 12>(s, l, &w),
                (Ty::Y, 6, 2, 10) => vec_resize_run::<_, AssignedByte<F>, 6, 2, 10>(s, l, &w),
                (Ty::Y, 6, 3, 9) => vec_resize_run::<_, AssignedByte<F>, 6, 3, 9>(s, l, &w),
                (Ty::Y, 4, 1, 5) => vec_resize_run::<_, AssignedByte<F>, 4, 1, 5>(s, l, &w),
                (Ty::Y, 12, 3, 15) => vec_resize_run::<_, AssignedByte<F>, 12, 3, 15>(s, l, &w),
                other => panic!("harness: resize shape {other:?} not instantiated"),
            },
            MapGet | MapInsert => {
                let mut mg = s.map_gadget().clone();
                mg.init(l, w.as_ref().map(|v| build_map(v)))?;
                let root0 = mg.succinct_repr();
                s.constrain_as_public_input(l, &root0)?;
                let key: AssignedNative<F> = s.assign(l, w.as_ref().map(|v| v[0].n()))?;
                s.constrain_as_public_input(l, &key)?;
                if matches!(self.kind, MapGet) {
                    let v = mg.get(l, &key)?;
                    s.constrain_as_public_input(l, &v)
                } else {
                    let val: AssignedNative<F> = s.assign(l, w.as_ref().map(|v| v[1].n()))?;
                    s.constrain_as_public_input(l, &val)?;
                    mg.insert(l, &key, &val)?;
                    let root1 = mg.succinct_repr();
                    s.constrain_as_public_input(l, &root1)
                }
            }
            _ => unreachable!("shaped kinds"),
        }
    }

    /// expected outputs (without the input section); `None` = outside the documented domain
    fn outputs(&self, x: &[V]) -> Option<Vec<F>> {
        use Kind::*;
        let n = |i: usize| big(&x[i].n());
        let bitv = || x.iter().map(|v| v.b()).collect::<Vec<bool>>();
        let one = BigUint::one();
        Some(match &self.kind {
            LinComb { coefs, k } => {
                let mut acc = big(k);
                for (c, v) in coefs.iter().zip(x) {
                    acc = addm(&acc, &mulm(&big(c), &big(&v.n())));
                }
                vec![fe(&acc)]
            }
            Add => vec![fe(&addm(&n(0), &n(1)))],
            Sub => vec![fe(&subm(&n(0), &n(1)))],
            Mul(c) => vec![fe(&mulm(&mulm(&n(0), &n(1)), &c.map(|c| big(&c)).unwrap_or(one)))],
            Div => vec![fe(&mulm(&n(0), &invm(&n(1))?))],
            Neg => vec![fe(&negm(&n(0)))],
            Inv => vec![fe(&invm(&n(0))?)],
            Inv0 => vec![fe(&invm(&n(0)).unwrap_or_default())],
            AddConst(c) => vec![fe(&addm(&n(0), &big(c)))],
            AddConsts(cs) => cs.iter().enumerate().map(|(i, c)| fe(&addm(&n(i), &big(c)))).collect(),
            MulConst(c) => vec![fe(&mulm(&n(0), &big(c)))],
            Square => vec![fe(&mulm(&n(0), &n(0)))],
            Pow(e) => vec![fe(&n(0).modpow(&BigUint::from(*e), p()))],
            AddAndMul([a, b, c, k, m]) => {
                let t = addm(&mulm(&big(a), &n(0)), &mulm(&big(b), &n(1)));
                let t = addm(&t, &mulm(&big(c), &n(2)));
                let t = addm(&t, &big(k));
                vec![fe(&addm(&t, &mulm(&big(m), &mulm(&n(0), &n(1)))))]
            }
            AssertZero => {
                if !n(0).is_zero() {
                    return None;
                }
                vec![]
            }
            AssertNonZero => {
                if n(0).is_zero() {
                    return None;
                }
                vec![]
            }
            IsZero => vec![fbit(n(0).is_zero())],
            IsEq { op, .. } => vec![fbit((x[0] == x[1]) == (*op == EqOp::Eq))],
            IsEqFixed { op, c } => vec![fbit((x[0] == *c) == (*op == EqOp::Eq))],
            AssertEq { op, .. } => {
                if (x[0] == x[1]) != (*op == EqOp::Eq) {
                    return None;
                }
                vec![]
            }
            AssertEqFixed { op, c } => {
                if (x[0] == *c) != (*op == EqOp::Eq) {
                    return None;
                }
                vec![]
            }
            AssertTrue => {
                if !x[0].b() {
                    return None;
                }
                vec![]
            }
            AssertFalse => {
                if x[0].b() {
                    return None;
                }
                vec![]
            }
            StdLowerThan(k) | Cmp { n: k, op: CmpOp::Lt } => {
                if n(0) >= two_pow(*k) || n(1) >= two_pow(*k) {
                    return None;
                }
                vec![fbit(n(0) < n(1))]
            }
            Cmp { op, n: k } | Cmp2 { op, nx: k, .. } => {
                let ky = if let Cmp2 { ny, .. } = &self.kind { ny } else { k };
                if n(0) >= two_pow(*k) || n(1) >= two_pow(*ky) {
                    return None;
                }
                vec![fbit(match op {
                    CmpOp::Lt => n(0) < n(1),
                    CmpOp::Gt => n(0) > n(1),
                    CmpOp::Leq => n(0) <= n(1),
                    CmpOp::Geq => n(0) >= n(1),
                })]
            }
            CmpFixed { op, n: k, c } => {
                if n(0) >= two_pow(*k) {
                    return None;
                }
                let c = big(c);
                vec![fbit(match op {
                    CmpOp::Lt => n(0) < c,
                    CmpOp::Gt => n(0) > c,
                    CmpOp::Leq => n(0) <= c,
                    CmpOp::Geq => n(0) >= c,
                })]
            }
            AssertQr => {
                if !is_qr(&n(0)) {
                    return None;
                }
                vec![]
            }
            IsSquare => vec![fbit(is_qr(&n(0)))],
            Bin { op, .. } => {
                let b = bitv();
                vec![fbit(match op {
                    BinOp::And => b.iter().all(|v| *v),
                    BinOp::Or => b.iter().any(|v| *v),
                    BinOp::Xor => b.iter().filter(|v| **v).count() % 2 == 1,
                })]
            }
            Not => vec![fbit(!x[0].b())],
            Bitwise { op, n: k } => {
                if n(0) >= two_pow(*k) || n(1) >= two_pow(*k) {
                    return None;
                }
                let (a, b) = (bits_le(&n(0), *k), bits_le(&n(1), *k));
                let r: Vec<bool> = a
                    .iter()
                    .zip(&b)
                    .map(|(a, b)| match op {
                        BinOp::And => *a && *b,
                        BinOp::Or => *a || *b,
                        BinOp::Xor => *a != *b,
                    })
                    .collect();
                vec![fe(&from_bits_le(&r))]
            }
            Bnot(k) => {
                if n(0) >= two_pow(*k) {
                    return None;
                }
                vec![fe(&(two_pow(*k) - one - n(0)))]
            }
            ToBits { nb, be, .. } => {
                let k = nb.unwrap_or(255);
                if n(0) >= two_pow(k) {
                    return None;
                }
                let mut b = bits_le(&n(0), k);
                if *be {
                    b.reverse();
                }
                b.into_iter().map(fbit).collect()
            }
            ToBytes { nb, be } => {
                let k = nb.unwrap_or(32);
                if n(0) >= two_pow(8 * k) {
                    return None;
                }
                let mut bytes = n(0).to_bytes_le();
                bytes.resize(k, 0);
                if *be {
                    bytes.reverse();
                }
                bytes.into_iter().map(|y| F::from(y as u64)).collect()
            }
            FromBits { be, .. } => {
                let mut b = bitv();
                if *be {
                    b.reverse();
                }
                vec![fe(&from_bits_le(&b))]
            }
            FromBytes { be, .. } => {
                let mut ys: Vec<u8> = x.iter().map(|v| v.y()).collect();
                if *be {
                    ys.reverse();
                }
                vec![fe(&BigUint::from_bytes_le(&ys))]
            }
            ToChunks { bits: b, nb } => {
                let k = nb.unwrap_or(255usize.div_ceil(*b));
                if n(0) >= two_pow(b * k) {
                    return None;
                }
                let mask = two_pow(*b) - &one;
                (0..k).map(|i| fe(&((n(0) >> (i * b)) & &mask))).collect()
            }
            Sgn0 => vec![fbit(n(0).bit(0))],
            IsCanonical(k) => vec![fbit(*k <= 255 && from_bits_le(&bitv()) < *p())],
            BitsLower { bound, .. } => vec![fbit(from_bits_le(&bitv()) < *bound)],
            BitsGeq { bound, .. } => vec![fbit(from_bits_le(&bitv()) >= *bound)],
            AssignLower(bound) | AssertLower(bound) => {
                if n(0) >= *bound {
                    return None;
                }
                vec![]
            }
            BoundedOf(k) => {
                if n(0) >= two_pow(*k) {
                    return None;
                }
                vec![x[0].n()]
            }
            DivRem { d, .. } => {
                let (q, r) = n(0).div_rem(d);
                vec![fe(&q), fe(&r)]
            }
            Rem { d, .. } => vec![fe(&(n(0) % d))],
            Select(_) => vec![if x[0].b() { x[1].enc() } else { x[2].enc() }],
            CondAssertEqual(_) => {
                if x[0].b() && x[1] != x[2] {
                    return None;
                }
                vec![]
            }
            CondSwap(_) => {
                if x[0].b() {
                    vec![x[2].enc(), x[1].enc()]
                } else {
                    vec![x[1].enc(), x[2].enc()]
                }
            }
            Convert { from, to } => match (from, to) {
                (Ty::B, Ty::N) | (Ty::Y, Ty::N) => vec![x[0].enc()],
                (Ty::N, Ty::B) => {
                    if n(0) > one {
                        return None;
                    }
                    vec![x[0].n()]
                }
                (Ty::N, Ty::Y) => {
                    if n(0) >= BigUint::from(256u32) {
                        return None;
                    }
                    vec![x[0].n()]
                }
                _ => unreachable!(),
            },
            ConvertUnsafeNY => vec![x[0].n()],
            VecObserve { .. } | VecFlags { .. } | VecTrim { .. } | VecResize { .. } | MapGet | MapInsert | AssignMany { .. } | Fixed { .. } | Chain { .. } => unreachable!("raw kinds use full_reference"),
        })
    }

    /// the shaped entries' input positions, or the whole vector for raw kinds
    fn full_reference(&self, x: &[V]) -> Option<(Vec<F>, usize)> {
        use Kind::*;
        match &self.kind {
            AssignMany { .. } => {
                let v: Vec<F> = x.iter().map(|v| v.enc()).collect();
                let n = v.len();
                Some((v, n))
            }
            Fixed { inner, consts } => {
                let full = merge_fixed(consts, x).expect("harness: witness operands do not match the operand mask");
                let outs = Entry { kind: (**inner).clone(), cols: self.cols }.outputs(&full)?;
                let mut v: Vec<F> = x.iter().map(|v| v.enc()).collect();
                let n_in = v.len();
                v.extend(outs);
                Some((v, n_in))
            }
            Chain { src, steps } => {
                let val = big(&x[0].enc());
                let mut v = vec![x[0].enc()];
                match src {
                    Src::AssignLower(b) => {
                        if val >= *b {
                            return None;
                        }
                    }
                    Src::BytesRoundTrip(nb) => {
                        if val >= two_pow(8 * nb) {
                            return None;
                        }
                        v.push(x[0].enc()); // the recomposed value is an input-section observation
                    }
                    _ => {}
                }
                let n_in = v.len();
                for st in steps {
                    match st {
                        Step::AssertLower(b) => {
                            if val >= *b {
                                return None;
                            }
                        }
                        Step::CmpFixed { op, n, c } => {
                            if val >= two_pow(*n) {
                                return None;
                            }
                            let c = big(c);
                            v.push(fbit(match op {
                                CmpOp::Lt => val < c,
                                CmpOp::Gt => val > c,
                                CmpOp::Leq => val <= c,
                                CmpOp::Geq => val >= c,
                            }));
                        }
                        Step::BoundedOf(n) => {
                            if val >= two_pow(*n) {
                                return None;
                            }
                            v.push(x[0].enc());
                        }
                        Step::ToByte => {
                            if val >= BigUint::from(256u32) {
                                return None;
                            }
                            v.push(x[0].enc());
                        }
                        Step::ToBit => {
                            if val >= BigUint::from(2u32) {
                                return None;
                            }
                            v.push(x[0].enc());
                        }
                    }
                }
                Some((v, n_in))
            }
            AssignLower(_) => {
                self.outputs(x)?;
                Some((vec![x[0].n()], 1))
            }
            VecObserve { m, a, .. } => {
                let mut v = vec_expected_payload(*m, x);
                v.extend(vec_expected_limits(*m, *a, x.len()));
                let n = v.len();
                Some((v, n))
            }
            VecFlags { m, a, .. } => {
                let mut v = vec_expected_payload(*m, x);
                v.extend(vec_expected_limits(*m, *a, x.len()));
                let n_in = v.len();
                v.extend(vec_expected_flags(*m, *a, x.len()));
                Some((v, n_in))
            }
            VecTrim { m, a, n, observe, .. } => {
                if x.len() < *n {
                    return None;
                }
                let mut v = vec_expected_limits(*m, *a, x.len());
                if !*observe {
                    let n_in = v.len();
                    return Some((v, n_in));
                }
                v.extend(vec_expected_payload(*m, &x[*n..]));
                let n_in = v.len();
                v.extend(vec_expected_limits(*m, *a, x.len() - n));
                Some((v, n_in))
            }
            VecResize { m, a, l, .. } => {
                let mut v = vec_expected_limits(*m, *a, x.len());
                v.extend(vec_expected_payload(*l, x));
                let n_in = v.len();
                v.extend(vec_expected_limits(*l, *a, x.len()));
                Some((v, n_in))
            }
            MapGet => {
                let mt = build_map(x);
                Some((vec![mt.succinct_repr(), x[0].n(), mt.get(&x[0].n())], 2))
            }
            MapInsert => {
                let mut mt = build_map(x);
                let r0 = mt.succinct_repr();
                mt.insert(&x[0].n(), &x[1].n());
                Some((vec![r0, x[0].n(), x[1].n(), mt.succinct_repr()], 3))
            }
            _ => {
                let outs = self.outputs(x)?;
                let mut v: Vec<F> = x.iter().map(|v| v.enc()).collect();
                let n_in = v.len();
                v.extend(outs);
                Some((v, n_in))
            }
        }
    }

    /// public-input encoding of the input section alone (defined for inputs outside the domain
    /// too); `None` where the inputs are not instance-bound one by one (vectors, maps)
    pub fn input_encoding(&self, x: &[V]) -> Option<Vec<F>> {
        match self.kind.shape() {
            Some(_) => Some(x.iter().map(|v| v.enc()).collect()),
            None => match &self.kind {
                Kind::AssignLower(_) => Some(vec![x[0].n()]),
                Kind::Fixed { .. } | Kind::AssignMany { .. } => Some(x.iter().map(|v| v.enc()).collect()),
                Kind::Chain { src: Src::BytesRoundTrip(_), .. } => None,
                Kind::Chain { .. } => Some(vec![x[0].enc()]),
                _ => None,
            },
        }
    }

    /// does the input list have the shape this entry expects (replay)?
    pub fn fits(&self, x: &[V]) -> bool {
        match self.kind.shape() {
            Some(tys) => tys.len() == x.len() && tys.iter().zip(x).all(|(t, v)| *t == v.ty()),
            None => match &self.kind {
                Kind::AssignLower(_) => x.len() == 1 && x[0].ty() == Ty::N,
                Kind::Fixed { inner, consts } => match (inner.shape(), merge_fixed(consts, x)) {
                    (Some(tys), Some(full)) => tys.len() == full.len() && tys.iter().zip(&full).all(|(t, v)| *t == v.ty()),
                    _ => false,
                },
                Kind::Chain { src, .. } => x.len() == 1 && x[0].ty() == src.ty(),
                Kind::AssignMany { ty, len, .. } => x.len() == *len && x.iter().all(|v| v.ty() == *ty),
                Kind::VecObserve { t, m, .. } | Kind::VecFlags { t, m, .. } | Kind::VecTrim { t, m, .. } | Kind::VecResize { t, m, .. } => {
                    x.len() <= *m && x.iter().all(|v| v.ty() == *t)
                }
                Kind::MapGet | Kind::MapInsert => x.len() >= 2 && x.len() % 2 == 0 && x.iter().all(|v| v.ty() == Ty::N),
                _ => false,
            },
        }
    }
}

fn vec_dispatch_n<L: Layouter<F>>(m: usize, a: usize, s: &ZkStdLib, l: &mut L, w: &Value<Vec<V>>, f: Option<F>, op: VecOp) -> Result<(), Error> {
    match (m, a) {
        (8, 4) => vec_run::<_, AssignedNative<F>, 8, 4>(s, l, w, f, op),
        (6, 2) => vec_run::<_, AssignedNative<F>, 6, 2>(s, l, w, f, op),
        (6, 3) => vec_run::<_, AssignedNative<F>, 6, 3>(s, l, w, f, op),
        (4, 1) => vec_run::<_, AssignedNative<F>, 4, 1>(s, l, w, f, op),
        (12, 3) => vec_run::<_, AssignedNative<F>, 12, 3>(s, l, w, f, op),
        other => panic!("harness: vector shape {other:?} not instantiated"),
    }
}
fn vec_dispatch_y<L: Layouter<F>>(m: usize, a: usize, s: &ZkStdLib, l: &mut L, w: &Value<Vec<V>>, f: Option<u8>, op: VecOp) -> Result<(), Error> {
    match (m, a) {
        (8, 4) => vec_run::<_, AssignedByte<F>, 8, 4>(s, l, w, f, op),
        (6, 2) => vec_run::<_, AssignedByte<F>, 6, 2>(s, l, w, f, op),
        (6, 3) => vec_run::<_, AssignedByte<F>, 6, 3>(s, l, w, f, op),
        (4, 1) => vec_run::<_, AssignedByte<F>, 4, 1>(s, l, w, f, op),
        (12, 3) => vec_run::<_, AssignedByte<F>, 12, 3>(s, l, w, f, op),
        other => panic!("harness: vector shape {other:?} not instantiated"),
    }
}

impl OpSpec for Entry {
    type In = Vec<V>;

    fn name(&self) -> String {
        self.kind.name()
    }

    fn arch(&self) -> ZkStdLibArch {
        ZkStdLibArch {
            jubjub: self.kind.needs_jubjub(),
            poseidon: self.kind.needs_poseidon(),
            nr_pow2range_cols: self.cols,
            ..ZkStdLibArch::default()
        }
    }

    fn synth(&self, s: &ZkStdLib, l: &mut impl Layouter<F>, w: Value<Vec<V>>) -> Result<(), Error> {
        match self.kind.shape() {
            Some(tys) => {
                let mut ins = Vec::with_capacity(tys.len());
                for (i, ty) in tys.iter().enumerate() {
                    let a = assign_in(s, l, &w, i, *ty)?;
                    expose(s, l, &a)?;
                    ins.push(a);
                }
                let outs = self.run(s, l, &ins)?;
                for o in &outs {
                    expose(s, l, o)?;
                }
                Ok(())
            }
            None => self.run_raw(s, l, w),
        }
    }

    fn reference(&self, x: &Vec<V>) -> Option<Vec<F>> {
        let r = self.full_reference(x).map(|(v, _)| v);
        LAST_EXPECTED.with(|e| *e.borrow_mut() = r.clone().unwrap_or_default());
        r
    }

    fn n_input_positions(&self, x: &Vec<V>) -> usize {
        self.full_reference(x).map(|(_, n)| n).unwrap_or(0)
    }

    fn extra_targets(&self, _pos: usize, honest: F) -> Vec<F> {
        // complement, negation, and the other values of the same case (wrong branch / swapped wiring)
        let mut t = vec![F::ONE - honest, -honest];
        LAST_EXPECTED.with(|e| {
            for v in e.borrow().iter() {
                if *v != honest && !t.contains(v) && t.len() < 5 {
                    t.push(*v);
                }
            }
        });
        t
    }
}

// ---------------------------------------------------------------------------------------------
// attack knowledge: alternative outputs a weakened circuit would plausibly admit
// ---------------------------------------------------------------------------------------------

pub struct Extra {
    /// admissible input whose honest tables the search starts from
    pub base: Vec<V>,
    /// full target instance (inputs then outputs) that must NOT be satisfiable
    pub target: Vec<F>,
    pub why: &'static str,
    /// needs the large changed-cell budget (hundreds of pinned cells change up front)
    pub wide: bool,
}

impl Entry {
    /// typed inputs cannot be written outside their domain off-circuit; the constraints are
    /// attacked instead: every element of an assigned batch is moved to the first value outside
    /// its type (256 in a byte, 2 in a bit), one index at a time
    pub fn ood_attacks(&self, x: &[V]) -> Vec<Extra> {
        let mut out = vec![];
        if let Kind::AssignMany { ty, .. } = &self.kind {
            let bad = match ty {
                Ty::Y => F::from(256),
                Ty::B => F::from(2),
                Ty::N => return out,
            };
            for i in 0..x.len() {
                let mut t: Vec<F> = x.iter().map(|v| v.enc()).collect();
                t[i] = bad;
                out.push(Extra { base: x.to_vec(), target: t, why: "one element of the assigned batch moved outside its type's range", wide: false });
                if *ty == Ty::Y {
                    let mut t: Vec<F> = x.iter().map(|v| v.enc()).collect();
                    t[i] = -F::ONE;
                    out.push(Extra { base: x.to_vec(), target: t, why: "one element of the assigned batch moved outside its type's range", wide: false });
                }
            }
        }
        out
    }

    /// "value + modulus" representations and wrap-around quotients
    pub fn alt_attacks(&self, x: &[V]) -> Vec<Extra> {
        use Kind::*;
        let mut out = vec![];
        match &self.kind {
            ToBits { nb, canon: true, be } if nb.map(|n| n == 255).unwrap_or(true) => {
                let alt = big(&x[0].n()) + p();
                if alt < two_pow(255) {
                    let mut b = bits_le(&alt, 255);
                    if *be {
                        b.reverse();
                    }
                    let mut t = vec![x[0].n()];
                    t.extend(b.into_iter().map(fbit));
                    out.push(Extra { base: x.to_vec(), target: t, why: "bits of x+p (non-canonical representation)", wide: true });
                }
            }
            ToBytes { nb, be } if nb.map(|n| n == 32).unwrap_or(true) => {
                let alt = big(&x[0].n()) + p();
                if alt < two_pow(255) {
                    let mut bytes = alt.to_bytes_le();
                    bytes.resize(32, 0);
                    if *be {
                        bytes.reverse();
                    }
                    let mut t = vec![x[0].n()];
                    t.extend(bytes.into_iter().map(|y| F::from(y as u64)));
                    out.push(Extra { base: x.to_vec(), target: t, why: "bytes of x+p (non-canonical representation)", wide: true });
                }
            }
            DivRem { d, bound } | Rem { d, bound } => {
                // quotient/remainder of x + p: satisfies d·q + r ≡ x (mod p) with r < d
                let limit = bound.clone().unwrap_or(p() - BigUint::one());
                let (q2, r2) = (big(&x[0].n()) + p()).div_rem(d);
                if *d > BigUint::one() && q2 <= &limit / d {
                    let base = vec![V::N(fe(&(d * &q2)))];
                    if self.kind.precondition(&base) {
                        let mut t = vec![x[0].n()];
                        if matches!(self.kind, DivRem { .. }) {
                            t.push(fe(&q2));
                        }
                        t.push(fe(&r2));
                        out.push(Extra { base, target: t, why: "quotient and remainder of x+p (wrap-around modulo p)", wide: false });
                    }
                }
            }
            _ => {}
        }
        out
    }
}
