//! C05 — foreign-field and big-integer gadgets are complete and sound.
//!
//! Catalogue (E5) of small register programs over the emulated-field chips ZkStdLib exposes
//! (secp256k1 scalar and base field, BLS12-381 base field), over Curve25519 field chips built from
//! scratch, and over `BigUintGadget`; reference = `num-bigint` arithmetic. Per (program, operands):
//! completeness, output edits, out-of-domain operands, ARS towards edited outputs (shared driver),
//! plus semantic attacks of a malicious prover specialised for limb arithmetic (c05_ops/repair.rs):
//! native-modulus wrap-around of a product / sum / quotient with donor decompositions, quotient
//! and remainder shifts of BigUint division, underflowing subtraction, and ±1 seed moves on
//! sampled cells with free outputs.
#![allow(clippy::type_complexity)]

#[path = "c05_ops/attack.rs"]
mod attack;
#[path = "c05_ops/big.rs"]
mod big;
#[path = "c05_ops/cat_big.rs"]
mod cat_big;
#[path = "c05_ops/cat_field.rs"]
mod cat_field;
#[path = "c05_ops/ffield.rs"]
mod ffield;
#[path = "c05_ops/lattice.rs"]
mod lattice;
#[path = "c05_ops/probes.rs"]
mod probes;
#[path = "c05_ops/repair.rs"]
mod repair;
#[path = "c05_ops/scratch.rs"]
mod scratch;

use std::collections::BTreeMap;

use attack::*;
use big::*;
use cat_big::*;
use cat_field::*;
use ffield::*;
use midnight_circuits::field::foreign::params::FieldEmulationParams;
use midnight_curves::Fq as F;
use mzv::{
    common::*,
    engines::{ars::ArsBudget, catalogue::*},
};
use rayon::prelude::*;
use serde_json::json;

impl<K: Emu> Sem for FProg<K>
where
    MEP: FieldEmulationParams<F, K>,
{
    fn cmp(&self, input: &FIn, forged: &[F]) -> Option<OutCmp> {
        let (_, outs) = self.eval(input)?;
        Some(Self::compare_outputs(&outs, forged))
    }
}

impl Sem for BProg {
    fn cmp(&self, input: &BIn, forged: &[F]) -> Option<OutCmp> {
        let (_, outs) = self.eval(input)?;
        Some(self.compare_outputs(&outs, forged))
    }
}

#[derive(Clone)]
pub struct Budgets {
    pub thorough: bool,
    pub n_boundary: usize,
    pub n_random: usize,
    pub max_specials: usize,
    pub seed_cells: usize,
    pub repair_nodes: u64,
    pub opts: OpOptions,
    pub opts_nonunique: OpOptions,
}

type Job = Box<dyn Fn(&Ctx, &Budgets, &mut Report) -> (String, OpStats, AttackStats) + Send + Sync>;

fn field_jobs<K: Emu>(fidx: usize, ctx: &Ctx, thorough: bool, only: &Option<String>) -> Vec<Job>
where
    MEP: FieldEmulationParams<F, K>,
{
    let mut rng = ctx.rng(&format!("c05-chains-{}", K::TAG));
    let entries = field_catalogue::<K>(fidx, &mut rng, if thorough { 6 } else { 1 });
    let mut jobs: Vec<Job> = vec![];
    for (idx, e) in entries.into_iter().enumerate() {
        if !thorough && !e.quick {
            continue;
        }
        if let Some(o) = only {
            if !e.prog.name.contains(o.as_str()) {
                continue;
            }
        }
        jobs.push(Box::new(move |ctx: &Ctx, bud: &Budgets, rep: &mut Report| {
            let name = e.prog.name.clone();
            let mut rng = ctx.rng(&format!("c05-inputs-{name}"));
            let inputs = cat_field::gen_inputs(&e, idx, bud.n_boundary, bud.n_random, bud.max_specials, &mut rng);
            let opts = &bud.opts;
            {
                let classes = fe_classes::<K>();
                for i in &inputs {
                    for v in &i.fe {
                        let label = classes.iter().find(|(_, c)| c == v).map(|(l, _)| l.as_str()).unwrap_or("random/special");
                        rep.count(&format!("operand_class[{label}]"));
                    }
                }
            }
            if e.prog.nonunique {
                probes::check_nonunique(&e.prog, &inputs, opts.max_bit_len, rep);
                rep.count_n(&format!("class.{}.entries", K::TAG), 1);
                rep.count_n(&format!("class.{}.inputs", K::TAG), inputs.len() as u64);
                return (name, OpStats::default(), AttackStats::default());
            }
            let st = check_op(&e.prog, &inputs, opts, ctx.seed, rep);
            let mut ast = AttackStats::default();
            if (e.wrap.is_some() || e.seed_moves) && !e.prog.nonunique {
                if let Some(actx) = AttackCtx::new(&e.prog, opts.max_bit_len, bud.repair_nodes, 400) {
                    let n_attacked = if bud.thorough { inputs.len().min(8) } else { 2 };
                    let nb0 = bud.n_boundary.min(inputs.len());
                    let nr0 = (nb0 + bud.n_random).min(inputs.len());
                    // random operands first, then boundary classes and specials
                    let order: Vec<&FIn> = inputs[nb0..nr0].iter().chain(inputs[..nb0].iter()).chain(inputs[nr0..].iter()).collect();
                    for (ai, input) in order.into_iter().filter(|i| e.prog.eval(i).is_some()).take(n_attacked).enumerate() {
                        let mut specs = wrap_specs(&e, input);
                        // free-auxiliary-value forgeries (lattice), on the random operands
                        if e.wrap.is_some() && (ai == 0 || bud.thorough) {
                            let n_in = e.prog.n_input_positions(input);
                            if let Some(info) = actx.identity_info(input, n_in..n_in + nb_limbs::<K>()) {
                                let ls = lattice_specs(&e, input, &info, if bud.thorough { 4 } else { 2 });
                                rep.count_n("attack.lattice_specs", ls.len() as u64);
                                specs.extend(ls);
                            } else {
                                rep.count("attack.lattice.identity_row_not_found");
                            }
                        }
                        actx.run_specs(input, &specs, &mut ast, rep);
                    }
                    if e.seed_moves {
                        if let Some(input) = inputs.iter().rev().find(|i| e.prog.eval(i).is_some()) {
                            actx.run_seed_moves(input, bud.seed_cells, ctx.seed, &mut ast, rep);
                        }
                    }
                }
            }
            rep.count_n(&format!("class.{}.entries", K::TAG), 1);
            rep.count_n(&format!("class.{}.inputs", K::TAG), inputs.len() as u64);
            (name, st, ast)
        }));
    }
    jobs
}

fn big_jobs(thorough: bool, only: &Option<String>) -> Vec<Job> {
    let mut jobs: Vec<Job> = vec![];
    for (idx, e) in big_catalogue(thorough).into_iter().enumerate() {
        if !thorough && !e.quick {
            continue;
        }
        if let Some(o) = only {
            if !e.prog.name.contains(o.as_str()) {
                continue;
            }
        }
        jobs.push(Box::new(move |ctx: &Ctx, bud: &Budgets, rep: &mut Report| {
            let name = e.prog.name.clone();
            let mut rng = ctx.rng(&format!("c05-inputs-{name}"));
            let wide = e.widths.iter().any(|w| *w >= 1024);
            let (nb, nr) = if wide { (bud.n_boundary.min(4), bud.n_random.min(3)) } else { (bud.n_boundary, bud.n_random) };
            let mut inputs = cat_big::gen_inputs(&e, idx, nb, nr, bud.max_specials, &mut rng);
            // very large circuits (k >= 14: wide mod_exp / 2048-bit products): completeness, a few
            // edits and out-of-domain operands only, so that one entry cannot dominate the run
            let k = {
                let rel = OpRel(e.prog.clone());
                catch_any(|| midnight_zk_stdlib::MidnightCircuit::new(&rel, midnight_proofs::circuit::Value::unknown(), midnight_proofs::circuit::Value::unknown(), Some(bud.opts.max_bit_len)).min_k()).unwrap_or(0)
            };
            let mut opts_here = bud.opts.clone();
            if k >= 14 {
                opts_here.max_positions = 1;
                opts_here.ars = None;
                inputs.truncate(8);
                rep.count("biguint.large_circuit_reduced_budget");
            }
            let st = check_op(&e.prog, &inputs, &opts_here, ctx.seed, rep);
            let mut ast = AttackStats::default();
            if e.attack.is_some() || e.seed_moves {
                if let Some(actx) = AttackCtx::new(&e.prog, bud.opts.max_bit_len, bud.repair_nodes, 600) {
                    for input in inputs.iter() {
                        let specs = big_attack_specs(&e, input);
                        if !specs.is_empty() {
                            actx.run_specs(input, &specs, &mut ast, rep);
                        }
                    }
                    if e.seed_moves {
                        if let Some(input) = inputs.iter().rev().find(|i| e.prog.eval(i).is_some()) {
                            actx.run_seed_moves(input, bud.seed_cells, ctx.seed, &mut ast, rep);
                        }
                    }
                }
            }
            rep.count_n("class.biguint.entries", 1);
            rep.count_n("class.biguint.inputs", inputs.len() as u64);
            (name, st, ast)
        }));
    }
    jobs
}

fn main() {
    let mut ctx = Ctx::from_args("C05");
    let mut only = ctx.extra.get("only").cloned();
    if let Some(path) = ctx.replay.clone() {
        // a replay re-executes the whole entry named in the witness at the recorded seed and tier
        if let Some(j) = load_replay(&path) {
            if let Some(op) = j["witness"]["op"].as_str() {
                only = Some(op.to_string());
            }
            if let Some(s) = j["seed"].as_u64() {
                ctx.seed = s;
            }
            if j["tier"].as_str() == Some("thorough") {
                ctx.tier = Tier::Thorough;
            }
        }
    }
    if ctx.extra.contains_key("structure-selftest") {
        // sanity of the catalogue exported to C09 (counts only)
        let a = cat_field::catalogue_for_structure::<midnight_curves::k256::Fq>(false);
        let b2 = cat_field::catalogue_for_structure::<midnight_curves::Fp>(true);
        let c = cat_big::catalogue_for_structure(false);
        println!(
            "structure catalogue: secp256k1.scalar quick {} entries / {} inputs; bls12_381.base thorough {} / {}; biguint quick {} / {}",
            a.len(),
            a.iter().map(|x| x.1.len()).sum::<usize>(),
            b2.len(),
            b2.iter().map(|x| x.1.len()).sum::<usize>(),
            c.len(),
            c.iter().map(|x| x.1.len()).sum::<usize>()
        );
        return;
    }
    let mut rep = Report::new(
        &ctx,
        "case = (program over an emulated field or over BigUintGadget, operands). The honest run must be accepted (reference evaluator and MockProver) with \
         instance = inputs followed by the reference outputs in the documented limb encoding; every edited output position must be rejected; operands outside \
         the documented domain (division by zero, failed assertion, underflow, value wider than declared) must be unsatisfiable; ARS and the donor-guided repair \
         search look for an adversarial assignment towards edited / wrapped / shifted outputs and from +-1 seed moves. Non-trivial = distinct (program, operands) \
         whose honest run was accepted, plus distinct out-of-domain operands.",
    );
    let thorough = ctx.tier == Tier::Thorough;
    let mut opts = OpOptions::new("C05", thorough);
    opts.max_positions = if thorough { 4 } else { 2 };
    opts.ars = Some(if thorough {
        ArsBudget {
            restarts: 3,
            nodes_per_restart: 1000,
            max_changed: 32,
        }
    } else {
        ArsBudget {
            restarts: 1,
            nodes_per_restart: 300,
            max_changed: 24,
        }
    });
    // the driver's own free-instance seed moves compare raw instance vectors; for emulated elements a
    // different *well-formed representation of the same residue* is legitimate witness freedom, so
    // C05 also runs its own seed moves with a semantic comparison (c05_ops/attack.rs)
    // (the driver's stage is switched off here: on these k = 10..12 circuits with 20+ columns one
    // `attack_free` call costs seconds; measured: 12 cells x 1 input per entry > 160 CPU-minutes in
    // the quick tier)
    opts.seed_cells = 0;
    opts.seed_inputs = 0;
    let mut opts_nonunique = opts.clone();
    opts_nonunique.ars = None;
    opts_nonunique.max_positions = 0;
    let bud = Budgets {
        thorough,
        n_boundary: if thorough { 12 } else { 1 },
        n_random: if thorough { 8 } else { 1 },
        max_specials: if thorough { 64 } else { 3 },
        seed_cells: if thorough { 80 } else { 8 },
        repair_nodes: if thorough { 3000 } else { 600 },
        opts,
        opts_nonunique,
    };

    let mut jobs: Vec<Job> = vec![];
    jobs.extend(field_jobs::<midnight_curves::k256::Fq>(0, &ctx, thorough, &only));
    jobs.extend(field_jobs::<midnight_curves::k256::Fp>(1, &ctx, thorough, &only));
    jobs.extend(field_jobs::<midnight_curves::Fp>(2, &ctx, thorough, &only));
    jobs.extend(big_jobs(thorough, &only));
    rep.set("planned_entries", json!(jobs.len()));

    let parts: Vec<(Report, (String, OpStats, AttackStats))> = jobs
        .par_iter()
        .map(|job| {
            let mut part = rep.fork();
            let t0 = std::time::Instant::now();
            let r = job(&ctx, &bud, &mut part);
            if std::env::var("MZV_C05_TIMING").is_ok() {
                eprintln!("[c05] {:>8.1}s {} {:?}", t0.elapsed().as_secs_f64(), r.0, r.2);
            }
            (part, r)
        })
        .collect();
    let mut stats = BTreeMap::new();
    let mut attacks = BTreeMap::new();
    for (part, (name, st, ast)) in parts {
        rep.merge(part);
        if ast.attacks + ast.seed_moves > 0 {
            attacks.insert(
                name.clone(),
                json!({"attacks": ast.attacks, "seed_moves": ast.seed_moves, "nodes": ast.nodes, "same": ast.candidates_same,
                       "same_values_other_representation": ast.candidates_same_residue, "wrong": ast.candidates_wrong, "skipped": ast.skipped}),
            );
        }
        stats.insert(name, st);
    }
    if only.as_ref().map(|o| o.contains("probe")).unwrap_or(true) {
        probes::run_probes(bud.opts.max_bit_len, &mut rep);
    }
    // Curve25519 field chips (not exposed by ZkStdLib): circuits built from scratch
    let sstats = scratch::run_curve25519(&ctx, &bud, &only, &mut rep);
    rep.set("per_operation", stats_json(&stats));
    rep.set("semantic_attacks", json!(attacks));
    rep.set("curve25519_from_scratch", sstats);
    rep.set(
        "unreachable",
        json!([
            "FieldChip::normalize / make_canonical as a stand-alone call (pub(crate)); reached through exposure, equality and conversions",
            "Curve25519 chips under the real prover/verifier (no ZkStdLib architecture flag): reference evaluator and MockProver only",
            "BigUint widths 0 (assign_biguint(_, 0) is outside the property's 1..2048 range)"
        ]),
    );
    rep.assume("reference = num-bigint arithmetic modulo the standard moduli (CircuitField::modulus of the emulated field, cross-checked against the standards in scratch::moduli_selftest)");
    rep.assume("a forged output vector whose emulated elements are other *well-formed* representations of the reference residues is counted, not failed");
    rep.min_nontrivial = if only.is_some() { 2 } else { (stats.len() as u64).max(2) };
    rep.finish();
}
