//! C05 — foreign-field and big-integer gadgets are complete and sound.
#![allow(clippy::type_complexity)]

#[path = "c05_ops/ffield.rs"]
mod ffield;
#[path = "c05_ops/big.rs"]
mod big;

use std::collections::BTreeMap;

use big::*;
use ffield::*;
use midnight_circuits::field::foreign::params::FieldEmulationParams;
use midnight_curves::Fq as F;
use mzv::{common::*, engines::catalogue::*};
use num_bigint::{BigUint, RandBigInt};
use num_traits::{One, Zero};
use rayon::prelude::*;

fn b(n: u64) -> BigUint {
    BigUint::from(n)
}

fn main() {
    let ctx = Ctx::from_args("C05");
    let mut rep = Report::new(&ctx, "case = (program over an emulated field or BigUintGadget, operands)");
    let thorough = ctx.tier == Tier::Thorough;
    let mut opts = OpOptions::new("C05", thorough);
    opts.max_positions = 3;
    opts.ars = Some(mzv::engines::ars::ArsBudget { restarts: 2, nodes_per_restart: 400, max_changed: 24 });
    let t0 = std::time::Instant::now();
    type K = midnight_curves::k256::Fq;
    let m = modulus::<K>();
    let p = FProg::<K>::new("mul", vec![Ins::In(0), Ins::In(1), Ins::Mul(0, 1), Ins::Out(2)]);
    let inputs = vec![FIn::fe(vec![b(3), b(5)]), FIn::fe(vec![&m - b(1), &m - b(2)])];
    let st = check_op(&p, &inputs, &opts, ctx.seed, &mut rep);
    eprintln!("mul: {st:?} {:?}", t0.elapsed());
    let p = BProg::new("add64", vec![BIns::In(0, 64), BIns::In(1, 64), BIns::Add(0, 1), BIns::Out(2)]);
    let inputs = vec![BIn::big(vec![b(3), b(5)]), BIn::big(vec![b(u64::MAX), b(u64::MAX)])];
    let st = check_op(&p, &inputs, &opts, ctx.seed, &mut rep);
    eprintln!("add64: {st:?} {:?}", t0.elapsed());
    let _ = (BTreeMap::<u8, u8>::new(), BigUint::zero(), BigUint::one());
    rep.finish();
}
