//! C05 — semantic attacks on one (entry, input): forged outputs with donor tables, free-output
//! repairs from seed moves (cell ± 1), and their confirmation (reference evaluator ∧ MockProver
//! through H2 ∧ real prover under the fault plan H1 + real verifier for k ≤ 12), copied from the
//! catalogue driver.

use std::collections::BTreeMap;

use ff::Field;
use midnight_curves::Fq as F;
use midnight_proofs::{
    circuit::Value,
    dev::{CellValue, MockProver},
};
use midnight_zk_stdlib::MidnightCircuit;
use mzv::{
    common::{catch_any, repo_file, Report},
    engines::{
        catalogue::{bound_instance, OpRel, OpSpec},
        plonk_util::params_for,
        ref_eval::{collect, CellRef, CollectOpts, Tables},
    },
};
use rand::{seq::SliceRandom, SeedableRng};
use rand_chacha::ChaCha8Rng;
use serde_json::json;

use super::{
    ffield::OutCmp,
    repair::{repair, IdentityRow, Repair, RepairStats},
};

/// Semantic comparison of a forged output vector with the reference (`None` = the input is
/// outside the documented domain, nothing may be accepted).
pub trait Sem: OpSpec {
    fn cmp(&self, input: &Self::In, forged_outputs: &[F]) -> Option<OutCmp>;
}

pub fn hexf(f: &F) -> String {
    hex::encode(f.to_bytes_le())
}

pub fn mock_accepts<O: OpSpec>(k: u32, rel: &OpRel<O>, input: &O::In, pi: &[F], mbl: u8, changed: &BTreeMap<(usize, usize), F>) -> Result<bool, String> {
    let circuit = MidnightCircuit::new(rel, Value::known(pi.to_vec()), Value::known(input.clone()), Some(mbl));
    match catch_any(|| {
        let mut mp = MockProver::<F>::run(k, &circuit, vec![vec![], pi.to_vec()]).map_err(|e| format!("{e:?}"))?;
        for ((c, r), v) in changed {
            mp.advice_mut()[*c][*r] = CellValue::Assigned(*v);
        }
        Ok::<bool, String>(mp.verify().is_ok())
    }) {
        Ok(r) => r,
        Err(p) => Err(format!("panic@{}: {}", repo_file(&p.file), p.message)),
    }
}

pub fn real_accepts<O: OpSpec>(k: u32, rel: &OpRel<O>, input: &O::In, pi: &[F], changed: &BTreeMap<(usize, usize), F>) -> Result<bool, String> {
    let params = params_for(k);
    let r = catch_any(|| {
        let vk = midnight_zk_stdlib::setup_vk(params, rel);
        let pk = midnight_zk_stdlib::setup_pk(rel, &vk);
        midnight_proofs::verif_hooks::set_fault_plan::<F>(changed.clone());
        let proof = midnight_zk_stdlib::prove::<OpRel<O>, blake2b_simd::State>(params, &pk, rel, &pi.to_vec(), input.clone(), ChaCha8Rng::seed_from_u64(7));
        let (hits, _) = midnight_proofs::verif_hooks::clear_fault_plan();
        let proof = match proof {
            Ok(p) => p,
            Err(_) => return Ok(false),
        };
        if hits.len() < changed.len() {
            return Err(format!("fault plan hit {} of {} cells", hits.len(), changed.len()));
        }
        Ok(midnight_zk_stdlib::verify::<OpRel<O>, blake2b_simd::State>(&params.verifier_params(), &vk, &pi.to_vec(), None, &proof).is_ok())
    });
    let _ = midnight_proofs::verif_hooks::clear_fault_plan();
    match r {
        Ok(x) => x,
        Err(p) => Err(format!("panic@{}: {}", repo_file(&p.file), p.message)),
    }
}

#[derive(Clone, Debug)]
pub struct AttackSpec<In> {
    pub label: String,
    /// forged output vector to force (`None` = outputs are free)
    pub forged: Option<Vec<F>>,
    /// inputs whose honest tables serve as donors
    pub donors: Vec<In>,
}

#[derive(Default, Clone, Debug)]
pub struct AttackStats {
    pub attacks: u64,
    pub seed_moves: u64,
    pub nodes: u64,
    pub candidates_same: u64,
    pub candidates_same_residue: u64,
    pub candidates_wrong: u64,
    pub skipped: u64,
}

pub struct AttackCtx<'a, O: Sem> {
    pub op: &'a O,
    pub rel: OpRel<O>,
    pub k: u32,
    pub mbl: u8,
    pub property: &'a str,
    pub real_k_max: u32,
    pub nodes: u64,
    pub max_changed: usize,
}

impl<'a, O: Sem> AttackCtx<'a, O> {
    pub fn new(op: &'a O, mbl: u8, nodes: u64, max_changed: usize) -> Option<Self> {
        let rel = OpRel(op.clone());
        let k = catch_any(|| MidnightCircuit::new(&rel, Value::unknown(), Value::unknown(), Some(mbl)).min_k()).ok()?;
        Some(AttackCtx {
            op,
            rel,
            k,
            mbl,
            property: "C05",
            real_k_max: 12,
            nodes,
            max_changed,
        })
    }

    /// Honest tables of `input`, with the instance the circuit itself binds.
    pub fn tables(&self, input: &O::In) -> Option<(Tables<F>, Vec<F>)> {
        let provisional = self.op.reference(input).unwrap_or_default();
        let circuit = MidnightCircuit::new(&self.rel, Value::known(provisional.clone()), Value::known(input.clone()), Some(self.mbl));
        let t = catch_any(|| collect::<F, _>(self.k, &circuit, &[vec![], provisional.clone()], CollectOpts::default())).ok()?.ok()?;
        let bound = bound_instance(&t, 1, &provisional);
        Some((t, bound))
    }

    fn confirm(&self, label: &str, input: &O::In, t: &Tables<F>, honest_advice: &[Vec<F>], forged_pi: &[F], n_in: usize, stats: &RepairStats, st: &mut AttackStats, rep: &mut Report) {
        let name = self.op.name();
        let mut changed = BTreeMap::new();
        for (c, col) in t.advice.iter().enumerate() {
            for (r, v) in col.iter().enumerate() {
                if *v != honest_advice[c][r] {
                    changed.insert((c, r), *v);
                }
            }
        }
        match self.op.cmp(input, &forged_pi[n_in..]) {
            Some(OutCmp::Same) => {
                st.candidates_same += 1;
                rep.count("attack.candidates.same_outputs(witness non-uniqueness)");
                return;
            }
            Some(OutCmp::SameResidue) => {
                st.candidates_same_residue += 1;
                rep.count("attack.candidates.other_representation_of_same_values");
                return;
            }
            _ => {}
        }
        st.candidates_wrong += 1;
        let mock = mock_accepts(self.k, &self.rel, input, forged_pi, self.mbl, &changed);
        let real = if self.k <= self.real_k_max { Some(real_accepts(self.k, &self.rel, input, forged_pi, &changed)) } else { None };
        let confirmed = matches!(mock, Ok(true)) && real.as_ref().map(|r| matches!(r, Ok(true))).unwrap_or(true);
        let ood = self.op.reference(input).is_none();
        let w = json!({"op": name, "attack": label, "input": format!("{input:?}"), "k": self.k, "max_bit_len": self.mbl,
            "forged_instance": forged_pi.iter().map(hexf).collect::<Vec<_>>(),
            "reference_instance": self.op.reference(input).map(|v| v.iter().map(hexf).collect::<Vec<_>>()),
            "changed_cells": changed.iter().map(|((c, r), v)| json!([c, r, hexf(v)])).collect::<Vec<_>>(),
            "mock": format!("{mock:?}"), "real": format!("{real:?}"), "nodes": stats.nodes});
        if confirmed {
            let kind = label.split('[').next().unwrap_or(label);
            let sig = if ood {
                format!("{}/{}/accepts-out-of-domain-input attack={}", self.property, name, kind)
            } else {
                format!("{}/{}/forged-output attack={}", self.property, name, kind)
            };
            rep.violation(
                &sig,
                &format!(
                    "adversarial assignment ({} changed cells, attack {label}) makes the circuit accept {} (reference evaluator and MockProver accept; real verifier: {:?})",
                    changed.len(),
                    if ood { "an input outside the documented domain" } else { "outputs that differ from the reference" },
                    real
                ),
                w,
            );
        } else {
            rep.inconclusive(&format!("{name}: attack {label} candidate not confirmed: mock={mock:?} real={real:?}"));
        }
    }

    /// The identity row (multiplication / normalisation gate) that produces the emulated element
    /// exposed on instance rows `out_rows`, with its auxiliary cells and partial derivatives.
    pub fn identity_info(&self, input: &O::In, out_rows: std::ops::Range<usize>) -> Option<IdentityRow> {
        let (honest, _) = self.tables(input)?;
        let mut t = clone_tables(&honest);
        let classes = t.copy_classes();
        let mut z_classes: Vec<Vec<(usize, usize)>> = vec![];
        for r in out_rows {
            let members = classes.values().find(|m| m.contains(&CellRef::Instance(1, r)))?;
            z_classes.push(
                members
                    .iter()
                    .filter_map(|c| match c {
                        CellRef::Advice(c, r) => Some((*c, *r)),
                        _ => None,
                    })
                    .collect(),
            );
        }
        let mut rp = Repair::new(&mut t, vec![], false);
        rp.identity_row(&z_classes)
    }

    /// Forged-output / donor attacks.
    pub fn run_specs(&self, input: &O::In, specs: &[AttackSpec<O::In>], st: &mut AttackStats, rep: &mut Report) {
        let n_in = self.op.n_input_positions(input);
        let Some((honest, bound)) = self.tables(input) else {
            st.skipped += specs.len() as u64;
            return;
        };
        for spec in specs {
            st.attacks += 1;
            rep.eval();
            let donors: Vec<Tables<F>> = spec.donors.iter().filter_map(|d| self.tables(d).map(|x| x.0)).collect();
            if donors.len() != spec.donors.len() {
                st.skipped += 1;
                rep.count("attack.skipped.donor_not_synthesisable");
                continue;
            }
            let mut t = clone_tables(&honest);
            let saved_copies = t.copies.clone();
            // pin the inputs the circuit binds; outputs forged or free
            for (i, v) in bound.iter().enumerate().take(n_in) {
                t.instance[1][i] = *v;
            }
            match &spec.forged {
                Some(f) => {
                    if n_in + f.len() != bound.len() {
                        st.skipped += 1;
                        rep.count("attack.skipped.forged_length");
                        continue;
                    }
                    for (i, v) in f.iter().enumerate() {
                        t.instance[1][n_in + i] = *v;
                    }
                }
                None => {
                    t.copies.retain(|(a, b)| !is_output_inst(a, n_in) && !is_output_inst(b, n_in));
                }
            }
            let (res, stats) = repair(&mut t, donors.iter().collect(), &[], self.nodes, self.max_changed, true);
            st.nodes += stats.nodes;
            if res.is_some() {
                t.copies = saved_copies;
                let forged_pi = bound_instance(&t, 1, &bound);
                for (i, v) in forged_pi.iter().enumerate() {
                    t.instance[1][i] = *v;
                }
                if !t.violations(1).is_empty() {
                    rep.count("attack.candidates.rejected_by_full_reference_check");
                    continue;
                }
                self.confirm(&spec.label, input, &t, &honest.advice, &forged_pi, n_in, &stats, st, rep);
            }
        }
    }

    /// Seed moves: `count` sampled assigned advice cells, each ± 1, outputs free.
    pub fn run_seed_moves(&self, input: &O::In, count: usize, seed: u64, st: &mut AttackStats, rep: &mut Report) {
        let n_in = self.op.n_input_positions(input);
        let Some((honest, bound)) = self.tables(input) else {
            return;
        };
        let mut rng = mzv::common::rng_for(seed, &format!("seedmoves-{}", self.op.name()));
        let mut cells = honest.assigned_advice_cells();
        cells.shuffle(&mut rng);
        let mut base = clone_tables(&honest);
        for (i, v) in bound.iter().enumerate().take(n_in) {
            base.instance[1][i] = *v;
        }
        let saved_copies = base.copies.clone();
        base.copies.retain(|(a, b)| !is_output_inst(a, n_in) && !is_output_inst(b, n_in));
        for cell in cells.into_iter().take(count) {
            for delta in [F::ONE, -F::ONE] {
                st.seed_moves += 1;
                rep.eval();
                let mut t = clone_tables(&base);
                let v = t.advice[cell.0][cell.1] + delta;
                let (res, stats) = repair(&mut t, vec![], &[(cell, v)], self.nodes.min(300), self.max_changed, false);
                st.nodes += stats.nodes;
                if res.is_some() {
                    t.copies = saved_copies.clone();
                    let forged_pi = bound_instance(&t, 1, &bound);
                    for (i, v) in forged_pi.iter().enumerate() {
                        t.instance[1][i] = *v;
                    }
                    if !t.violations(1).is_empty() {
                        rep.count("attack.candidates.rejected_by_full_reference_check");
                        continue;
                    }
                    let label = format!("seed-move[cell ({},{}) {}1]", cell.0, cell.1, if delta == F::ONE { "+" } else { "-" });
                    self.confirm(&label, input, &t, &honest.advice, &forged_pi, n_in, &stats, st, rep);
                }
            }
        }
    }
}

fn is_output_inst(c: &CellRef, n_in: usize) -> bool {
    matches!(c, CellRef::Instance(1, r) if *r >= n_in)
}

/// `Tables` is not `Clone` (it owns a constraint system); rebuild one sharing nothing mutable.
pub fn clone_tables(t: &Tables<F>) -> Tables<F> {
    Tables {
        k: t.k,
        n: t.n,
        usable_rows: t.usable_rows,
        cs: t.cs.clone(),
        fixed: t.fixed.clone(),
        fixed_assigned: t.fixed_assigned.clone(),
        advice: t.advice.clone(),
        advice_assigned: t.advice_assigned.clone(),
        instance: t.instance.clone(),
        selectors: t.selectors.clone(),
        copies: t.copies.clone(),
        challenges: t.challenges.clone(),
        trace: vec![],
    }
}
