//! C05 — BigUintGadget programs (through `ZkStdLib::biguint()`), reference = `num_bigint`.
//!
//! Public-input layout (documented in `biguint/types.rs`): a big unsigned integer bounded by
//! `nb_bits` bits is exposed as `ceil(nb_bits / 96)` little-endian limbs in base 2^96. The bound
//! `nb_bits` of an intermediate result is bookkeeping of the gadget (`AssignedBigUint::nb_bits`);
//! the number of exposed limbs per output is read from the run (recorded at synthesis with an
//! unknown witness), never hard-coded; the limb *values* come from the reference.

use std::sync::{Arc, Mutex};

use ff::Field;
use midnight_circuits::{
    instructions::*,
    types::{AssignedBigUint, AssignedBit, AssignedByte},
};
use midnight_curves::Fq as F;
use midnight_proofs::{
    circuit::{Layouter, Value},
    plonk::Error,
};
use midnight_zk_stdlib::ZkStdLib;
use mzv::engines::catalogue::OpSpec;
use num_bigint::BigUint;
use num_integer::Integer;
use num_traits::{One, Zero};

use super::ffield::{big_of_f, f_of_big, NatOps, OutCmp};

pub const LOG2_BASE: u32 = 96;
pub type R = usize;

#[derive(Clone, Debug)]
pub enum BIns {
    /// assign operand `big[i]` with a bound of `nb_bits` bits and expose it
    In(usize, u32),
    InBit(usize),
    InBits(usize, usize),
    InBytes(usize, usize),
    Fix(BigUint),
    Add(R, R),
    Sub(R, R),
    Mul(R, R),
    /// pushes (q, r)
    DivRem(R, R),
    ModExp(R, u64, R),
    Lt(R, R),
    IsEq(R, R),
    IsNeq(R, R),
    IsEqC(R, BigUint),
    AssertEq(R, R),
    AssertNeq(R, R),
    AssertEqC(R, BigUint),
    AssertNeqC(R, BigUint),
    Select(R, R, R),
    ToLeBits(R),
    ToLeBytes(R),
    FromLeBits(R),
    FromLeBytes(R),
    Out(R),
}

#[derive(Clone, Debug)]
pub struct BIn {
    pub big: Vec<BigUint>,
    pub bits: Vec<bool>,
    pub bytes: Vec<u8>,
}

impl BIn {
    pub fn big(v: Vec<BigUint>) -> Self {
        BIn {
            big: v,
            bits: vec![],
            bytes: vec![],
        }
    }
}

#[derive(Clone, Debug)]
enum Reg {
    Big(AssignedBigUint<F>),
    Bit(AssignedBit<F>),
    Bits(Vec<AssignedBit<F>>),
    Bytes(Vec<AssignedByte<F>>),
    None,
}

#[derive(Clone, Debug, PartialEq, Eq)]
pub enum BV {
    Big(BigUint),
    Bit(bool),
    Bits(Vec<bool>),
    Bytes(Vec<u8>),
    None,
}

pub fn encode_big(x: &BigUint, nb_limbs: usize) -> Vec<F> {
    let base = BigUint::one() << LOG2_BASE;
    let mut v = x.clone();
    let mut out = vec![];
    // a value that does not fit gets extra limbs (the run then reports a length mismatch)
    while out.len() < nb_limbs || !v.is_zero() {
        out.push(f_of_big(&(&v % &base)));
        v >>= LOG2_BASE;
    }
    out
}

#[derive(Clone, Debug)]
pub struct BProg {
    pub name: String,
    pub ins: Vec<BIns>,
    /// number of exposed limbs per `Out` of a big integer, recorded by `synth`
    pub shape: Arc<Mutex<Vec<usize>>>,
}

impl BProg {
    pub fn new(name: &str, ins: Vec<BIns>) -> Self {
        BProg {
            name: format!("biguint/{name}"),
            ins,
            shape: Arc::new(Mutex::new(vec![])),
        }
    }

    pub fn eval(&self, input: &BIn) -> Option<(Vec<F>, Vec<BV>)> {
        let mut regs: Vec<BV> = vec![];
        let mut ins_pi = vec![];
        let mut outs = vec![];
        let big = |regs: &Vec<BV>, r: R| -> BigUint {
            match &regs[r] {
                BV::Big(v) => v.clone(),
                o => panic!("register {r} is not a big integer: {o:?}"),
            }
        };
        for ins in &self.ins {
            match ins {
                BIns::In(i, nb) => {
                    let v = input.big[*i].clone();
                    if v.bits() as u32 > *nb {
                        return None; // documented: "of at most nb_bits bits"
                    }
                    ins_pi.extend(encode_big(&v, (*nb).max(1).div_ceil(LOG2_BASE) as usize));
                    regs.push(BV::Big(v));
                }
                BIns::InBit(i) => {
                    ins_pi.push(if input.bits[*i] { F::ONE } else { F::ZERO });
                    regs.push(BV::Bit(input.bits[*i]));
                }
                BIns::InBits(i, n) => {
                    let v = input.bits[*i..*i + *n].to_vec();
                    ins_pi.extend(v.iter().map(|b| if *b { F::ONE } else { F::ZERO }));
                    regs.push(BV::Bits(v));
                }
                BIns::InBytes(i, n) => {
                    let v = input.bytes[*i..*i + *n].to_vec();
                    ins_pi.extend(v.iter().map(|b| F::from(*b as u64)));
                    regs.push(BV::Bytes(v));
                }
                BIns::Fix(c) => regs.push(BV::Big(c.clone())),
                BIns::Add(a, b) => regs.push(BV::Big(big(&regs, *a) + big(&regs, *b))),
                BIns::Sub(a, b) => {
                    let (x, y) = (big(&regs, *a), big(&regs, *b));
                    if x < y {
                        return None;
                    }
                    regs.push(BV::Big(x - y));
                }
                BIns::Mul(a, b) => regs.push(BV::Big(big(&regs, *a) * big(&regs, *b))),
                BIns::DivRem(a, b) => {
                    let (x, y) = (big(&regs, *a), big(&regs, *b));
                    if y.is_zero() {
                        return None;
                    }
                    let (q, r) = x.div_rem(&y);
                    regs.push(BV::Big(q));
                    regs.push(BV::Big(r));
                }
                BIns::ModExp(a, n, m) => {
                    let (x, mv) = (big(&regs, *a), big(&regs, *m));
                    if mv.is_zero() {
                        return None;
                    }
                    regs.push(BV::Big(x.modpow(&BigUint::from(*n), &mv)));
                }
                BIns::Lt(a, b) => regs.push(BV::Bit(big(&regs, *a) < big(&regs, *b))),
                BIns::IsEq(a, b) => regs.push(BV::Bit(big(&regs, *a) == big(&regs, *b))),
                BIns::IsNeq(a, b) => regs.push(BV::Bit(big(&regs, *a) != big(&regs, *b))),
                BIns::IsEqC(a, c) => regs.push(BV::Bit(big(&regs, *a) == *c)),
                BIns::AssertEq(a, b) => {
                    if big(&regs, *a) != big(&regs, *b) {
                        return None;
                    }
                    regs.push(BV::None);
                }
                BIns::AssertNeq(a, b) => {
                    if big(&regs, *a) == big(&regs, *b) {
                        return None;
                    }
                    regs.push(BV::None);
                }
                BIns::AssertEqC(a, c) => {
                    if big(&regs, *a) != *c {
                        return None;
                    }
                    regs.push(BV::None);
                }
                BIns::AssertNeqC(a, c) => {
                    if big(&regs, *a) == *c {
                        return None;
                    }
                    regs.push(BV::None);
                }
                BIns::Select(c, x, y) => {
                    let cv = match &regs[*c] {
                        BV::Bit(b) => *b,
                        o => panic!("not a bit: {o:?}"),
                    };
                    regs.push(BV::Big(if cv { big(&regs, *x) } else { big(&regs, *y) }));
                }
                // the number of bits/bytes is the number of limbs of the operand times 96 / 12;
                // it is structure, taken from the recorded shape at encoding time
                BIns::ToLeBits(a) => regs.push(BV::Bits(bits_le(&big(&regs, *a)))),
                BIns::ToLeBytes(a) => regs.push(BV::Bytes(big(&regs, *a).to_bytes_le())),
                BIns::FromLeBits(r) => {
                    let v = match &regs[*r] {
                        BV::Bits(v) => v.clone(),
                        o => panic!("not bits: {o:?}"),
                    };
                    let mut acc = BigUint::zero();
                    for (i, b) in v.iter().enumerate() {
                        if *b {
                            acc.set_bit(i as u64, true);
                        }
                    }
                    regs.push(BV::Big(acc));
                }
                BIns::FromLeBytes(r) => {
                    let v = match &regs[*r] {
                        BV::Bytes(v) => v.clone(),
                        o => panic!("not bytes: {o:?}"),
                    };
                    regs.push(BV::Big(BigUint::from_bytes_le(&v)));
                }
                BIns::Out(r) => {
                    outs.push(regs[*r].clone());
                    regs.push(BV::None);
                }
            }
        }
        Some((ins_pi, outs))
    }

    /// Encodes the outputs with the recorded shape (number of field elements per `Out`).
    pub fn encode_outs(&self, outs: &[BV]) -> Vec<F> {
        let shape = self.shape.lock().unwrap().clone();
        let mut v = vec![];
        for (i, o) in outs.iter().enumerate() {
            let n = shape.get(i).copied().unwrap_or(0);
            match o {
                BV::Big(x) => v.extend(encode_big(x, n)),
                BV::Bit(b) => v.push(if *b { F::ONE } else { F::ZERO }),
                BV::Bits(bs) => {
                    let mut bs = bs.clone();
                    if bs.len() < n {
                        bs.resize(n, false);
                    }
                    v.extend(bs.iter().map(|b| if *b { F::ONE } else { F::ZERO }))
                }
                BV::Bytes(bs) => {
                    let mut bs = bs.clone();
                    if bs.len() < n {
                        bs.resize(n, 0);
                    }
                    v.extend(bs.iter().map(|b| F::from(*b as u64)))
                }
                BV::None => {}
            }
        }
        v
    }

    /// `Same` / `SameResidue` (same integers, other limb representation) / `Different`.
    pub fn compare_outputs(&self, outs: &[BV], forged: &[F]) -> OutCmp {
        let expected = self.encode_outs(outs);
        if expected.len() != forged.len() {
            return OutCmp::Different;
        }
        if expected == forged {
            return OutCmp::Same;
        }
        let shape = self.shape.lock().unwrap().clone();
        let mut pos = 0;
        for (i, o) in outs.iter().enumerate() {
            let n = shape.get(i).copied().unwrap_or(0);
            match o {
                BV::Big(x) => {
                    let mut acc = BigUint::zero();
                    for (j, l) in forged[pos..pos + n].iter().enumerate() {
                        let li = big_of_f(l);
                        if li.bits() as u32 > LOG2_BASE {
                            return OutCmp::Different; // out-of-range limb accepted
                        }
                        acc += li << (LOG2_BASE as usize * j);
                    }
                    if acc != *x {
                        return OutCmp::Different;
                    }
                    pos += n;
                }
                other => {
                    let e = self.encode_outs_one(other, n);
                    if forged[pos..pos + e.len()] != e[..] {
                        return OutCmp::Different;
                    }
                    pos += e.len();
                }
            }
        }
        OutCmp::SameResidue
    }

    fn encode_outs_one(&self, o: &BV, n: usize) -> Vec<F> {
        match o {
            BV::Bit(b) => vec![if *b { F::ONE } else { F::ZERO }],
            BV::Bits(bs) => {
                let mut bs = bs.clone();
                if bs.len() < n {
                    bs.resize(n, false);
                }
                bs.iter().map(|b| if *b { F::ONE } else { F::ZERO }).collect()
            }
            BV::Bytes(bs) => {
                let mut bs = bs.clone();
                if bs.len() < n {
                    bs.resize(n, 0);
                }
                bs.iter().map(|b| F::from(*b as u64)).collect()
            }
            _ => vec![],
        }
    }

    pub fn run<N: NatOps>(
        &self,
        bg: &midnight_circuits::biguint::BigUintGadget<F, super::ffield::NG>,
        nat: &N,
        l: &mut impl Layouter<F>,
        input: Value<BIn>,
    ) -> Result<(), Error> {
        let mut regs: Vec<Reg> = vec![];
        let mut shape: Vec<usize> = vec![];
        macro_rules! big {
            ($r:expr) => {
                match &regs[$r] {
                    Reg::Big(x) => x.clone(),
                    _ => panic!("register {} is not a big integer", $r),
                }
            };
        }
        for ins in &self.ins {
            match ins {
                BIns::In(i, nb) => {
                    let x = bg.assign_biguint(l, input.clone().map(|w| w.big[*i].clone()), *nb)?;
                    bg.constrain_as_public_input(l, &x, *nb)?;
                    regs.push(Reg::Big(x));
                }
                BIns::InBit(i) => {
                    let b = nat.a_bit(l, input.clone().map(|w| w.bits[*i]))?;
                    nat.pi_bit(l, &b)?;
                    regs.push(Reg::Bit(b));
                }
                BIns::InBits(i, n) => {
                    let mut v = vec![];
                    for j in 0..*n {
                        let b = nat.a_bit(l, input.clone().map(|w| w.bits[*i + j]))?;
                        nat.pi_bit(l, &b)?;
                        v.push(b);
                    }
                    regs.push(Reg::Bits(v));
                }
                BIns::InBytes(i, n) => {
                    let mut v = vec![];
                    for j in 0..*n {
                        let b = nat.a_byte(l, input.clone().map(|w| w.bytes[*i + j]))?;
                        nat.pi_byte(l, &b)?;
                        v.push(b);
                    }
                    regs.push(Reg::Bytes(v));
                }
                BIns::Fix(c) => regs.push(Reg::Big(bg.assign_fixed_biguint(l, c.clone())?)),
                BIns::Add(a, b) => regs.push(Reg::Big(bg.add(l, &big!(*a), &big!(*b))?)),
                BIns::Sub(a, b) => regs.push(Reg::Big(bg.sub(l, &big!(*a), &big!(*b))?)),
                BIns::Mul(a, b) => regs.push(Reg::Big(bg.mul(l, &big!(*a), &big!(*b))?)),
                BIns::DivRem(a, b) => {
                    let (q, r) = bg.div_rem(l, &big!(*a), &big!(*b))?;
                    regs.push(Reg::Big(q));
                    regs.push(Reg::Big(r));
                }
                BIns::ModExp(a, n, m) => regs.push(Reg::Big(bg.mod_exp(l, &big!(*a), *n, &big!(*m))?)),
                BIns::Lt(a, b) => regs.push(Reg::Bit(bg.lower_than(l, &big!(*a), &big!(*b))?)),
                BIns::IsEq(a, b) => regs.push(Reg::Bit(bg.is_equal(l, &big!(*a), &big!(*b))?)),
                BIns::IsNeq(a, b) => regs.push(Reg::Bit(bg.is_not_equal(l, &big!(*a), &big!(*b))?)),
                BIns::IsEqC(a, c) => regs.push(Reg::Bit(bg.is_equal_to_fixed(l, &big!(*a), c.clone())?)),
                BIns::AssertEq(a, b) => {
                    bg.assert_equal(l, &big!(*a), &big!(*b))?;
                    regs.push(Reg::None);
                }
                BIns::AssertNeq(a, b) => {
                    bg.assert_not_equal(l, &big!(*a), &big!(*b))?;
                    regs.push(Reg::None);
                }
                BIns::AssertEqC(a, c) => {
                    bg.assert_equal_to_fixed(l, &big!(*a), c.clone())?;
                    regs.push(Reg::None);
                }
                BIns::AssertNeqC(a, c) => {
                    bg.assert_not_equal_to_fixed(l, &big!(*a), c.clone())?;
                    regs.push(Reg::None);
                }
                BIns::Select(c, x, y) => {
                    let cb = match &regs[*c] {
                        Reg::Bit(b) => b.clone(),
                        _ => panic!("not a bit"),
                    };
                    regs.push(Reg::Big(bg.select(l, &cb, &big!(*x), &big!(*y))?));
                }
                BIns::ToLeBits(a) => regs.push(Reg::Bits(bg.to_le_bits(l, &big!(*a))?)),
                BIns::ToLeBytes(a) => regs.push(Reg::Bytes(bg.to_le_bytes(l, &big!(*a))?)),
                BIns::FromLeBits(r) => {
                    let v = match &regs[*r] {
                        Reg::Bits(v) => v.clone(),
                        _ => panic!("not bits"),
                    };
                    regs.push(Reg::Big(bg.from_le_bits(l, &v)?));
                }
                BIns::FromLeBytes(r) => {
                    let v = match &regs[*r] {
                        Reg::Bytes(v) => v.clone(),
                        _ => panic!("not bytes"),
                    };
                    regs.push(Reg::Big(bg.from_le_bytes(l, &v)?));
                }
                BIns::Out(r) => {
                    match &regs[*r] {
                        Reg::Big(x) => {
                            let nb = x.nb_bits();
                            bg.constrain_as_public_input(l, x, nb)?;
                            shape.push(nb.div_ceil(LOG2_BASE) as usize);
                        }
                        Reg::Bit(b) => {
                            nat.pi_bit(l, b)?;
                            shape.push(1);
                        }
                        Reg::Bits(v) => {
                            for b in v {
                                nat.pi_bit(l, b)?
                            }
                            shape.push(v.len());
                        }
                        Reg::Bytes(v) => {
                            for b in v {
                                nat.pi_byte(l, b)?
                            }
                            shape.push(v.len());
                        }
                        Reg::None => shape.push(0),
                    }
                    regs.push(Reg::None);
                }
            }
        }
        *self.shape.lock().unwrap() = shape;
        Ok(())
    }
}

fn bits_le(x: &BigUint) -> Vec<bool> {
    (0..x.bits()).map(|i| x.bit(i)).collect()
}

impl OpSpec for BProg {
    type In = BIn;
    fn name(&self) -> String {
        self.name.clone()
    }
    fn synth(&self, s: &ZkStdLib, l: &mut impl Layouter<F>, input: Value<BIn>) -> Result<(), Error> {
        self.run(s.biguint(), s, l, input)
    }
    fn reference(&self, input: &BIn) -> Option<Vec<F>> {
        let (mut pi, outs) = self.eval(input)?;
        pi.extend(self.encode_outs(&outs));
        Some(pi)
    }
    fn n_input_positions(&self, _input: &BIn) -> usize {
        let mut n = 0;
        for i in &self.ins {
            n += match i {
                BIns::In(_, nb) => (*nb).max(1).div_ceil(LOG2_BASE) as usize,
                BIns::InBit(_) => 1,
                BIns::InBits(_, k) | BIns::InBytes(_, k) => *k,
                _ => 0,
            };
        }
        n
    }
    fn extra_targets(&self, _pos: usize, honest: F) -> Vec<F> {
        vec![honest - F::ONE]
    }
}
