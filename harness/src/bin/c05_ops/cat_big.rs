//! C05 — catalogue of BigUintGadget programs and operand classes.

use num_bigint::{BigUint, RandBigInt};
use num_integer::Integer;
use num_traits::{One, Zero};
use rand_chacha::ChaCha8Rng;

use super::{
    attack::AttackSpec,
    big::{encode_big, BIn, BIns, BProg, LOG2_BASE, R},
    cat_field::b,
};

pub struct BB {
    pub ins: Vec<BIns>,
    n: usize,
}
impl BB {
    pub fn new() -> Self {
        BB { ins: vec![], n: 0 }
    }
    pub fn p(&mut self, i: BIns) -> R {
        let r = self.n;
        self.n += if matches!(i, BIns::DivRem(..)) { 2 } else { 1 };
        self.ins.push(i);
        r
    }
    pub fn out(&mut self, r: R) {
        self.p(BIns::Out(r));
    }
}

#[derive(Clone, Copy, Debug, PartialEq, Eq)]
pub enum BAttack {
    /// outputs (q, r) of div_rem: forge (q-1, r+y)
    DivRem,
    /// x - y with x < y: outputs free, donor = (x, 0)
    SubUnderflow,
}

pub struct BEntry {
    pub prog: BProg,
    /// declared widths (bits) of the big-integer operands
    pub widths: Vec<u32>,
    pub nbits: usize,
    pub nbytes: usize,
    pub specials: Vec<BIn>,
    pub quick: bool,
    pub attack: Option<BAttack>,
    pub seed_moves: bool,
    /// operands excluded from the catalogue run (they are the subject of a dedicated probe)
    pub filter: Option<fn(&BIn) -> bool>,
}

pub fn big_classes(w: u32) -> Vec<BigUint> {
    let one = BigUint::one();
    let full = (&one << w as usize) - &one;
    let mut v = vec![BigUint::zero(), one.clone(), full.clone(), if w > 1 { &full - &one } else { BigUint::zero() }, &one << (w as usize - 1)];
    let lb = LOG2_BASE as usize;
    for i in 1..=(w as usize / lb).min(2) {
        let p = &one << (lb * i);
        for c in [&p - &one, p.clone(), &p + &one] {
            if c.bits() as u32 <= w {
                v.push(c);
            }
        }
    }
    // every limb equal to 2^96 - 1 except the top one
    if w as usize > lb {
        v.push((&one << (lb * (w as usize / lb))) - &one);
    }
    v
}

pub fn gen_inputs(e: &BEntry, idx: usize, n_boundary: usize, n_random: usize, max_specials: usize, rng: &mut ChaCha8Rng) -> Vec<BIn> {
    use rand::Rng;
    let mut out = vec![];
    for j in 0..n_boundary {
        let big: Vec<BigUint> = e
            .widths
            .iter()
            .enumerate()
            .map(|(t, w)| {
                let c = big_classes(*w);
                c[(idx * 5 + j * 3 + t * 2 + t * j) % c.len()].clone()
            })
            .collect();
        let bits: Vec<bool> = (0..e.nbits).map(|t| (idx + j + t) % 3 == 0).collect();
        let bytes: Vec<u8> = (0..e.nbytes).map(|t| [0u8, 255, 1, 128, 127][(idx + j + t) % 5]).collect();
        out.push(BIn { big, bits, bytes });
    }
    // operand pairs that are equal modulo 2^(96 i) but differ above: they agree on the low limbs and
    // (for mixed widths) have different numbers of limbs. The wider operand gets the high part; for
    // equal widths both orders are used.
    if e.widths.len() >= 2 && n_boundary > 0 {
        let (w0, w1) = (e.widths[0] as usize, e.widths[1] as usize);
        let (wmax, wmin) = (w0.max(w1), w0.min(w1));
        let mask = |n: usize| (BigUint::one() << n) - BigUint::one();
        let mut pairs: Vec<(BigUint, BigUint)> = vec![];
        for i in 1..=3usize {
            let sh = 96 * i;
            if wmax <= sh {
                break;
            }
            let lowbits = wmin.min(sh);
            for low in [BigUint::from(5u8) & mask(lowbits), mask(lowbits)] {
                let high = if wmax - sh >= 3 { BigUint::from(7u8) } else { BigUint::one() };
                let wide = &low + (high << sh);
                if w0 >= w1 {
                    pairs.push((wide.clone(), low.clone()));
                }
                if w1 >= w0 {
                    pairs.push((low.clone(), wide.clone()));
                }
            }
        }
        for (pi, (x, y)) in pairs.into_iter().take(max_specials.max(2)).enumerate() {
            let mut big = vec![x, y];
            for w in e.widths.iter().skip(2) {
                big.push(big_classes(*w)[pi % 3].clone());
            }
            out.push(BIn {
                big,
                bits: (0..e.nbits).map(|t| (pi + t) % 2 == 0).collect(),
                bytes: vec![7; e.nbytes],
            });
        }
    }
    if (e.nbits > 1 || e.nbytes > 1) && n_boundary > 0 {
        out.push(BIn {
            big: e.widths.iter().map(|_| BigUint::zero()).collect(),
            bits: vec![true; e.nbits],
            bytes: vec![255; e.nbytes],
        });
    }
    for _ in 0..n_random {
        out.push(BIn {
            big: e.widths.iter().map(|w| rng.gen_biguint(*w as u64)).collect(),
            bits: (0..e.nbits).map(|_| rng.gen()).collect(),
            bytes: (0..e.nbytes).map(|_| rng.gen()).collect(),
        });
    }
    out.extend(e.specials.iter().take(max_specials).cloned());
    if let Some(f) = e.filter {
        out.retain(f);
    }
    out
}

fn entry(name: &str, bb: BB, widths: Vec<u32>, quick: bool) -> BEntry {
    BEntry {
        prog: BProg::new(name, bb.ins),
        widths,
        nbits: 0,
        nbytes: 0,
        specials: vec![],
        quick,
        attack: None,
        seed_moves: false,
        filter: None,
    }
}

pub fn big_catalogue(thorough: bool) -> Vec<BEntry> {
    let one = BigUint::one();
    let mut v = vec![];
    let widths: Vec<u32> = vec![1, 8, 63, 64, 65, 255, 256, 1024, 2048];
    let quick_w = |w: u32| matches!(w, 1 | 64 | 65 | 256);
    let big2 = |x: &BigUint, y: &BigUint| BIn::big(vec![x.clone(), y.clone()]);
    for &w in &widths {
        let full = (&one << w as usize) - &one;
        // add
        let mut p = BB::new();
        let a = p.p(BIns::In(0, w));
        let c = p.p(BIns::In(1, w));
        let z = p.p(BIns::Add(a, c));
        p.out(z);
        let mut e = entry(&format!("add[{w}]"), p, vec![w, w], quick_w(w) || w == 1024);
        e.specials = vec![big2(&full, &full), big2(&full, &one), big2(&(&full + &one), &one) /* operand wider than declared */];
        v.push(e);
        // sub
        let mut p = BB::new();
        let a = p.p(BIns::In(0, w));
        let c = p.p(BIns::In(1, w));
        let z = p.p(BIns::Sub(a, c));
        p.out(z);
        let mut e = entry(&format!("sub[{w}]"), p, vec![w, w], quick_w(w));
        e.specials = vec![big2(&full, &full), big2(&full, &BigUint::zero()), big2(&BigUint::zero(), &one), big2(&(&full - &one.clone().min(full.clone())), &full), big2(&BigUint::zero(), &full)];
        e.attack = (w == 64 || w == 256).then_some(BAttack::SubUnderflow);
        e.seed_moves = w == 64;
        v.push(e);
        // lower_than / is_equal
        let mut p = BB::new();
        let a = p.p(BIns::In(0, w));
        let c = p.p(BIns::In(1, w));
        let lt = p.p(BIns::Lt(a, c));
        p.out(lt);
        let eq = p.p(BIns::IsEq(a, c));
        p.out(eq);
        let ne = p.p(BIns::IsNeq(a, c));
        p.out(ne);
        let mut e = entry(&format!("lower_than+is_equal[{w}]"), p, vec![w, w], quick_w(w));
        e.specials = vec![big2(&full, &full), big2(&BigUint::zero(), &BigUint::zero()), big2(&(&full >> 1usize), &full), big2(&full, &(&full >> 1usize)), big2(&BigUint::zero(), &one), big2(&one, &BigUint::zero())];
        if w as usize > 96 {
            // differ only in the top limb / only in the bottom limb
            let top = &one << (w as usize - 1);
            e.specials.push(big2(&top, &(&top + &one)));
            e.specials.push(big2(&(&top + &one), &top));
            e.specials.push(big2(&(&one << 96usize), &((&one << 96usize) - &one)));
        }
        v.push(e);
        if w > 1024 && !thorough {
            continue;
        }
        // mul
        let mut p = BB::new();
        let a = p.p(BIns::In(0, w));
        let c = p.p(BIns::In(1, w));
        let z = p.p(BIns::Mul(a, c));
        p.out(z);
        let mut e = entry(&format!("mul[{w}]"), p, vec![w, w], quick_w(w));
        e.specials = vec![big2(&full, &full), big2(&full, &one), big2(&BigUint::zero(), &full)];
        v.push(e);
        // div_rem
        let mut p = BB::new();
        let a = p.p(BIns::In(0, w));
        let c = p.p(BIns::In(1, w));
        let qr = p.p(BIns::DivRem(a, c));
        p.out(qr);
        p.out(qr + 1);
        let mut e = entry(&format!("div_rem[{w}]"), p, vec![w, w], quick_w(w));
        e.specials = vec![big2(&full, &BigUint::zero()), big2(&BigUint::zero(), &BigUint::zero()), big2(&full, &one), big2(&full, &full), big2(&BigUint::zero(), &full), big2(&(&full >> 1usize), &full)];
        if w >= 8 {
            // operands for the (q-1, r+y) attack: small divisor, no borrow/carry in the low bytes
            e.specials.push(big2(&((((&full >> 3usize) >> 8usize) << 8usize) | b(0x55)), &b(3)));
        }
        e.attack = (w == 64 || w == 256).then_some(BAttack::DivRem);
        e.seed_moves = w == 64;
        v.push(e);
        // bits / bytes round trips
        let mut p = BB::new();
        let a = p.p(BIns::In(0, w));
        let bits = p.p(BIns::ToLeBits(a));
        p.out(bits);
        let back = p.p(BIns::FromLeBits(bits));
        let eq = p.p(BIns::IsEq(a, back));
        p.out(eq);
        p.out(back);
        v.push(entry(&format!("to_le_bits+from_le_bits[{w}]"), p, vec![w], quick_w(w)));
        let mut p = BB::new();
        let a = p.p(BIns::In(0, w));
        let bytes = p.p(BIns::ToLeBytes(a));
        p.out(bytes);
        let back = p.p(BIns::FromLeBytes(bytes));
        let eq = p.p(BIns::IsEq(a, back));
        p.out(eq);
        p.out(back);
        v.push(entry(&format!("to_le_bytes+from_le_bytes[{w}]"), p, vec![w], w == 65 || w == 256));
    }
    // mod_exp
    for &(w, quick) in &[(8u32, true), (64, false), (256, true), (1024, false)] {
        if w > 256 && !thorough {
            continue;
        }
        for n in [0u64, 1, 2, 3, 5, 17] {
            if w >= 256 && n > 3 && !thorough {
                continue;
            }
            let mut p = BB::new();
            let a = p.p(BIns::In(0, w));
            let m = p.p(BIns::In(1, w));
            let z = p.p(BIns::ModExp(a, n, m));
            p.out(z);
            let full = (&one << w as usize) - &one;
            let mut e = entry(&format!("mod_exp[{w},n={n}]"), p, vec![w, w], quick && n <= 3);
            if n <= 1 {
                // n = 0 / n = 1 skip the reduction (probe P4 in c05.rs): keep x < m, m > 1 here
                e.filter = Some(|i: &BIn| i.big[1] > BigUint::one() && i.big[0] < i.big[1]);
            }
            e.specials = vec![
                big2(&b(3), &b(7)),
                big2(&full, &b(7)),
                big2(&b(7), &b(7)),
                big2(&b(200), &b(7)),
                big2(&b(5), &one),
                big2(&b(5), &BigUint::zero()),
                big2(&BigUint::zero(), &full),
            ];
            v.push(e);
        }
    }
    // mixed widths, in both orders (x narrower than y and y narrower than x), including pairs with
    // different numbers of 96-bit limbs
    for &(w1, w2) in &[(8u32, 256u32), (256, 8), (65, 64), (1, 96), (97, 96), (96, 97), (64, 200), (200, 64)] {
        let limbs_differ = w1.div_ceil(LOG2_BASE) != w2.div_ceil(LOG2_BASE);
        let qk = matches!((w1, w2), (8, 256) | (256, 8) | (97, 96) | (96, 97));
        let mut p = BB::new();
        let bit = p.p(BIns::InBit(0));
        let a = p.p(BIns::In(0, w1));
        let c = p.p(BIns::In(1, w2));
        let s = p.p(BIns::Add(a, c));
        p.out(s);
        let lt = p.p(BIns::Lt(a, c));
        p.out(lt);
        let gt = p.p(BIns::Lt(c, a));
        p.out(gt);
        let eq = p.p(BIns::IsEq(a, c));
        p.out(eq);
        let eq2 = p.p(BIns::IsEq(c, a));
        p.out(eq2);
        let ne = p.p(BIns::IsNeq(a, c));
        p.out(ne);
        let pr = p.p(BIns::Mul(a, c));
        p.out(pr);
        let sel = p.p(BIns::Select(bit, a, c));
        p.out(sel);
        let e3 = p.p(BIns::IsEq(sel, c));
        p.out(e3);
        let e4 = p.p(BIns::IsEq(a, sel));
        p.out(e4);
        let l2 = p.p(BIns::Lt(sel, s));
        p.out(l2);
        let mut e = entry(&format!("mixed[{w1},{w2}]: add, lower_than, is_equal, is_not_equal, mul, select"), p, vec![w1, w2], qk || w1 == 65);
        e.nbits = 1;
        e.specials = vec![
            BIn { big: vec![one.clone(), one.clone()], bits: vec![true], bytes: vec![] },
            BIn { big: vec![BigUint::zero(), BigUint::zero()], bits: vec![false], bytes: vec![] },
        ];
        v.push(e);
        for (name, mk) in [
            ("assert_equal", BIns::AssertEq as fn(R, R) -> BIns),
            ("assert_not_equal", BIns::AssertNeq as fn(R, R) -> BIns),
        ] {
            if !limbs_differ {
                continue;
            }
            let mut p = BB::new();
            let a = p.p(BIns::In(0, w1));
            let c = p.p(BIns::In(1, w2));
            p.p(mk(a, c));
            p.out(a);
            let mut e = entry(&format!("mixed[{w1},{w2}]: {name}"), p, vec![w1, w2], qk);
            e.specials = vec![big2(&one, &one), big2(&BigUint::zero(), &BigUint::zero()), big2(&one, &BigUint::zero())];
            v.push(e);
        }
        let mut p = BB::new();
        let a = p.p(BIns::In(0, w1));
        let c = p.p(BIns::In(1, w2));
        let d = p.p(BIns::Sub(a, c));
        p.out(d);
        let mut e = entry(&format!("mixed[{w1},{w2}]: sub"), p, vec![w1, w2], w1 == 256);
        e.specials = vec![big2(&one, &one), big2(&one, &BigUint::zero()), big2(&BigUint::zero(), &one)];
        v.push(e);
        let mut p = BB::new();
        let a = p.p(BIns::In(0, w1));
        let c = p.p(BIns::In(1, w2));
        let qr = p.p(BIns::DivRem(a, c));
        p.out(qr);
        p.out(qr + 1);
        let mut e = entry(&format!("mixed[{w1},{w2}]: div_rem"), p, vec![w1, w2], false);
        e.specials = vec![big2(&one, &one), big2(&one, &BigUint::zero())];
        v.push(e);
    }
    // a fixed value with MORE limbs than the operand it is compared with
    for (tag, c) in [("5+7*2^96", b(5) + (b(7) << 96usize)), ("2^200+5", (&one << 200usize) + b(5))] {
        let mut p = BB::new();
        let a = p.p(BIns::In(0, 64));
        let f = p.p(BIns::Fix(c.clone()));
        let e1 = p.p(BIns::IsEq(a, f));
        p.out(e1);
        let e2 = p.p(BIns::IsEq(f, a));
        p.out(e2);
        let e3 = p.p(BIns::IsEqC(a, c.clone()));
        p.out(e3);
        let ne = p.p(BIns::IsNeq(a, f));
        p.out(ne);
        let lt = p.p(BIns::Lt(a, f));
        p.out(lt);
        p.p(BIns::AssertNeq(a, f));
        let s = p.p(BIns::Add(a, f));
        p.out(s);
        let mut e = entry(&format!("fixed-wider[{tag}] vs 64-bit operand: is_equal both orders, is_not_equal, lower_than, assert_not_equal, add"), p, vec![64], tag.starts_with('5'));
        e.specials = vec![BIn::big(vec![b(5)]), BIn::big(vec![b(6)]), BIn::big(vec![BigUint::zero()])];
        v.push(e);
    }
    // fixed values, select, equality with constants
    for (tag, c) in [("0", BigUint::zero()), ("2^96", &one << 96usize), ("2^130+5", (&one << 130usize) + b(5))] {
        let mut p = BB::new();
        let a = p.p(BIns::In(0, 256));
        let f = p.p(BIns::Fix(c.clone()));
        p.out(f);
        let s = p.p(BIns::Add(a, f));
        p.out(s);
        let e1 = p.p(BIns::IsEqC(a, c.clone()));
        p.out(e1);
        let e2 = p.p(BIns::IsEq(a, f));
        p.out(e2);
        let lt = p.p(BIns::Lt(f, a));
        p.out(lt);
        let mut e = entry(&format!("fixed[{tag}]: expose, add, is_equal_to_fixed, is_equal, lower_than"), p, vec![256], tag == "2^96");
        e.specials = vec![BIn::big(vec![c.clone()]), BIn::big(vec![&c + &one])];
        v.push(e);
    }
    {
        let mut p = BB::new();
        let bit = p.p(BIns::InBit(0));
        let a = p.p(BIns::In(0, 200));
        let c = p.p(BIns::In(1, 64));
        let z = p.p(BIns::Select(bit, a, c));
        p.out(z);
        let mut e = entry("select[200,64]", p, vec![200, 64], true);
        e.nbits = 1;
        v.push(e);
        for (name, mk) in [
            ("assert_equal", BIns::AssertEq as fn(R, R) -> BIns),
            ("assert_not_equal", BIns::AssertNeq as fn(R, R) -> BIns),
        ] {
            let mut p = BB::new();
            let a = p.p(BIns::In(0, 200));
            let c = p.p(BIns::In(1, 64));
            p.p(mk(a, c));
            p.out(a);
            let mut e = entry(&format!("{name}[200,64]"), p, vec![200, 64], name == "assert_equal");
            e.specials = vec![big2(&b(5), &b(5)), big2(&b(5), &b(6)), big2(&BigUint::zero(), &BigUint::zero()), big2(&(&one << 150usize), &b(0))];
            v.push(e);
        }
        for (name, mk) in [
            ("assert_equal_to_fixed", BIns::AssertEqC as fn(R, BigUint) -> BIns),
            ("assert_not_equal_to_fixed", BIns::AssertNeqC as fn(R, BigUint) -> BIns),
        ] {
            let c = (&one << 100usize) + b(9);
            let mut p = BB::new();
            let a = p.p(BIns::In(0, 200));
            p.p(mk(a, c.clone()));
            p.out(a);
            let mut e = entry(&format!("{name}[200; 2^100+9]"), p, vec![200], false);
            e.specials = vec![BIn::big(vec![c.clone()]), BIn::big(vec![&c + &one])];
            v.push(e);
        }
    }
    // from bits / bytes of arbitrary length
    for n in [1usize, 95, 96, 97, 200] {
        let mut p = BB::new();
        let bits = p.p(BIns::InBits(0, n));
        let z = p.p(BIns::FromLeBits(bits));
        p.out(z);
        let o = p.p(BIns::Fix(one.clone()));
        let s = p.p(BIns::Add(z, o));
        p.out(s);
        let mut e = entry(&format!("from_le_bits[{n}]+1"), p, vec![], n == 97);
        e.nbits = n;
        v.push(e);
    }
    for n in [1usize, 12, 13, 32] {
        let mut p = BB::new();
        let bytes = p.p(BIns::InBytes(0, n));
        let z = p.p(BIns::FromLeBytes(bytes));
        p.out(z);
        let s = p.p(BIns::Mul(z, z));
        p.out(s);
        let mut e = entry(&format!("from_le_bytes[{n}]+square"), p, vec![], n == 13);
        e.nbytes = n;
        v.push(e);
    }
    // chains
    for &w in &[64u32, 255, 1024] {
        if w > 256 && !thorough {
            continue;
        }
        let mut p = BB::new();
        let a = p.p(BIns::In(0, w));
        let c = p.p(BIns::In(1, w));
        let s = p.p(BIns::Add(a, c));
        let x = p.p(BIns::Sub(s, c));
        let e1 = p.p(BIns::IsEq(x, a));
        p.out(e1);
        p.out(x);
        let lt = p.p(BIns::Lt(x, s));
        p.out(lt);
        v.push(entry(&format!("chain[(a+b)-b == a; x < a+b][{w}]"), p, vec![w, w], w == 64));
        let mut p = BB::new();
        let a = p.p(BIns::In(0, w));
        let c = p.p(BIns::In(1, w));
        let pr = p.p(BIns::Mul(a, c));
        let qr = p.p(BIns::DivRem(pr, c));
        let e1 = p.p(BIns::IsEq(qr, a));
        p.out(e1);
        p.out(qr + 1);
        let d = p.p(BIns::Add(pr, a));
        let qr2 = p.p(BIns::DivRem(d, c));
        p.out(qr2);
        p.out(qr2 + 1);
        let mut e = entry(&format!("chain[(a*b)/b == a, rem 0; (a*b+a) divrem b][{w}]"), p, vec![w, w], w == 255);
        e.specials = vec![big2(&b(5), &BigUint::zero()), big2(&BigUint::zero(), &b(5))];
        v.push(e);
        let mut p = BB::new();
        let a = p.p(BIns::In(0, w));
        let c = p.p(BIns::In(1, w));
        let d = p.p(BIns::In(2, w));
        let s = p.p(BIns::Add(a, c));
        let pr = p.p(BIns::Mul(s, d));
        let ad = p.p(BIns::Mul(a, d));
        let cd = p.p(BIns::Mul(c, d));
        let r = p.p(BIns::Add(ad, cd));
        let e1 = p.p(BIns::IsEq(pr, r));
        p.out(e1);
        p.p(BIns::AssertEq(pr, r));
        let bytes = p.p(BIns::ToLeBytes(r));
        p.out(bytes);
        v.push(entry(&format!("chain[(a+b)c == ac+bc: is_equal, assert_equal, bytes][{w}]"), p, vec![w, w, w], w == 64));
    }
    v
}

/// Attack specs for BigUint entries.
pub fn big_attack_specs(e: &BEntry, input: &BIn) -> Vec<AttackSpec<BIn>> {
    let Some(a) = e.attack else { return vec![] };
    let (x, y) = (&input.big[0], &input.big[1]);
    match a {
        BAttack::DivRem => {
            if y.is_zero() {
                return vec![];
            }
            let (q, r) = x.div_rem(y);
            if q.is_zero() || (&r + y).bits() as u32 > e.widths[1] {
                return vec![];
            }
            let shape = e.prog.shape.lock().unwrap().clone();
            if shape.len() != 2 {
                return vec![];
            }
            let mut forged = encode_big(&(&q - BigUint::one()), shape[0]);
            forged.extend(encode_big(&(&r + y), shape[1]));
            vec![AttackSpec {
                label: "div_rem[q-1,r+y]".into(),
                forged: Some(forged),
                donors: vec![],
            }]
        }
        BAttack::SubUnderflow => {
            if x >= y {
                return vec![];
            }
            vec![AttackSpec {
                label: "sub-underflow[free outputs, donor (x,0)]".into(),
                forged: None,
                donors: vec![BIn::big(vec![x.clone(), BigUint::zero()])],
            }]
        }
    }
}


/// For C09: every BigUint catalogue program with deterministic admissible operands (0, 1, all-ones,
/// limb boundaries 2^96-1 / 2^96 / 2^96+1, equal and adjacent pairs, carries). No seeded randomness.
pub fn catalogue_for_structure(thorough: bool) -> Vec<(BProg, Vec<BIn>)> {
    use rand::SeedableRng;
    let mut rng = ChaCha8Rng::seed_from_u64(0xC09);
    let mut out = vec![];
    for (idx, e) in big_catalogue(thorough).into_iter().enumerate() {
        if !thorough && !e.quick {
            continue;
        }
        let mut inputs = gen_inputs(&e, idx, if thorough { 6 } else { 3 }, 0, 64, &mut rng);
        // the exposure shape is recorded at synthesis; `eval` alone decides admissibility
        inputs.retain(|i| e.prog.eval(i).is_some());
        if !inputs.is_empty() {
            out.push((e.prog, inputs));
        }
    }
    out
}
