//! C05 — catalogue of emulated-field programs and their operand classes.

use midnight_circuits::field::foreign::params::FieldEmulationParams;
use midnight_curves::Fq as F;
use num_bigint::{BigUint, RandBigInt};
use num_traits::{One, Zero};
use rand_chacha::ChaCha8Rng;

use super::{
    attack::AttackSpec,
    ffield::{big_of_f, decode_fe, encode_fe, f_of_big, log2_base, modulus, nb_limbs, Emu, FIn, FProg, Ins, MEP, R},
    lattice::short_kernel_vectors,
    repair::IdentityRow,
};

pub fn b(n: u64) -> BigUint {
    BigUint::from(n)
}

/// Program builder tracking register numbers.
pub struct PB {
    pub ins: Vec<Ins>,
    n: usize,
}
impl PB {
    pub fn new() -> Self {
        PB { ins: vec![], n: 0 }
    }
    pub fn p(&mut self, i: Ins) -> R {
        let r = self.n;
        self.n += if matches!(i, Ins::CondSwap(..)) { 2 } else { 1 };
        self.ins.push(i);
        r
    }
    pub fn out(&mut self, r: R) {
        self.p(Ins::Out(r));
    }
}

/// Which semantic attack applies (how to make the honest result equal a chosen target by
/// changing operand 0).
#[derive(Clone, Copy, Debug, PartialEq, Eq)]
pub enum Wrap {
    /// z = a*b
    Mul,
    /// z = a+b (exposed through normalisation)
    Add,
    /// z = a/b
    Div,
}

pub struct FEntry<K: Emu>
where
    MEP: FieldEmulationParams<F, K>,
{
    pub prog: FProg<K>,
    pub nfe: usize,
    pub nbits: usize,
    pub nbytes: usize,
    pub specials: Vec<FIn>,
    pub quick: bool,
    pub wrap: Option<Wrap>,
    pub seed_moves: bool,
}

/// Boundary operand classes (independent of the seed).
pub fn fe_classes<K: Emu>() -> Vec<(String, BigUint)>
where
    MEP: FieldEmulationParams<F, K>,
{
    let m = modulus::<K>();
    let lb = log2_base::<K>() as usize;
    let n = nb_limbs::<K>();
    let one = BigUint::one();
    let limb_max = (&one << lb) - &one;
    let mut v: Vec<(String, BigUint)> = vec![
        ("0".into(), BigUint::zero()),
        ("1".into(), one.clone()),
        ("2".into(), b(2)),
        ("m-1".into(), &m - &one),
        ("m-2".into(), &m - b(2)),
        ("(m-1)/2".into(), (&m - &one) >> 1),
        ("(m+1)/2".into(), (&m + &one) >> 1),
    ];
    // all-ones limbs (of x-1 and of x), top limb reduced so that the value stays below m
    let top = ((&m - &one) >> (lb * (n - 1))) - &one;
    let mut ones = top << (lb * (n - 1));
    for i in 0..n - 1 {
        ones += &limb_max << (lb * i);
    }
    v.push(("x-1=all-ones-limbs".into(), (&ones + &one) % &m));
    v.push(("x=all-ones-limbs".into(), ones.clone() % &m));
    for i in 0..n {
        // a single limb of x-1 equal to 2^B - 1 ; x-1 = 2^B at limb i (i.e. limb i+1 = 1)
        v.push((format!("x-1:limb{i}=2^B-1"), ((&limb_max << (lb * i)) + &one) % &m));
        v.push((format!("x:limb{i}=2^B-1"), (&limb_max << (lb * i)) % &m));
        if i + 1 < n {
            v.push((format!("x=2^(B*{})", i + 1), (&one << (lb * (i + 1))) % &m));
            v.push((format!("x=2^(B*{})+1", i + 1), ((&one << (lb * (i + 1))) + &one) % &m));
            v.push((format!("x=2^(B*{})+2", i + 1), ((&one << (lb * (i + 1))) + b(2)) % &m));
        }
    }
    v.push(("2^(bits-1)".into(), &one << (m.bits() - 1)));
    v
}

pub fn rand_fe<K: Emu>(rng: &mut ChaCha8Rng) -> BigUint
where
    MEP: FieldEmulationParams<F, K>,
{
    rng.gen_biguint_below(&modulus::<K>())
}

/// Inputs of an entry: `n_boundary` class combinations (rotating, seed independent) followed by
/// `n_random` seeded ones, then the entry's specials.
pub fn gen_inputs<K: Emu>(e: &FEntry<K>, idx: usize, n_boundary: usize, n_random: usize, max_specials: usize, rng: &mut ChaCha8Rng) -> Vec<FIn>
where
    MEP: FieldEmulationParams<F, K>,
{
    use rand::Rng;
    let classes = fe_classes::<K>();
    let mut out = vec![];
    for j in 0..n_boundary {
        let fe: Vec<BigUint> = (0..e.nfe).map(|t| classes[(idx * 7 + j * 5 + t * 3 + t * j) % classes.len()].1.clone()).collect();
        let bits: Vec<bool> = (0..e.nbits).map(|t| ((idx + j + t) % 3 == 0) ^ (j % 2 == 1 && t % 5 == 0)).collect();
        let bytes: Vec<u8> = (0..e.nbytes).map(|t| [0u8, 255, 1, 128, 127][(idx + j + t) % 5]).collect();
        out.push(FIn { fe, bits, bytes });
    }
    // all-ones / all-zero bit and byte vectors once
    if (e.nbits > 1 || e.nbytes > 1) && n_boundary > 0 {
        let fe: Vec<BigUint> = (0..e.nfe).map(|_| BigUint::zero()).collect();
        out.push(FIn {
            fe: fe.clone(),
            bits: vec![true; e.nbits],
            bytes: vec![255; e.nbytes],
        });
    }
    for _ in 0..n_random {
        out.push(FIn {
            fe: (0..e.nfe).map(|_| rand_fe::<K>(rng)).collect(),
            bits: (0..e.nbits).map(|_| rng.gen()).collect(),
            bytes: (0..e.nbytes).map(|_| rng.gen()).collect(),
        });
    }
    out.extend(e.specials.iter().take(max_specials).cloned());
    out
}

fn entry<K: Emu>(name: &str, pb: PB, nfe: usize, quick: bool) -> FEntry<K>
where
    MEP: FieldEmulationParams<F, K>,
{
    FEntry {
        prog: FProg::new(name, pb.ins),
        nfe,
        nbits: 0,
        nbytes: 0,
        specials: vec![],
        quick,
        wrap: None,
        seed_moves: false,
    }
}

/// The whole catalogue for one field. `fidx` rotates the non-core entries over the fields in the
/// quick tier.
pub fn field_catalogue<K: Emu>(fidx: usize, rng: &mut ChaCha8Rng, n_random_chains: usize) -> Vec<FEntry<K>>
where
    MEP: FieldEmulationParams<F, K>,
{
    let m = modulus::<K>();
    let one = BigUint::one();
    let m1 = &m - &one;
    let lb = log2_base::<K>() as usize;
    let nbits = K::NUM_BITS as usize;
    let nbytes = nbits.div_ceil(8);
    let mut v: Vec<FEntry<K>> = vec![];
    let mut rot = 0usize;
    // quick-tier rotation of non-core entries
    let mut q = |core: bool| -> bool {
        rot += 1;
        core || rot % 9 == (fidx * 3 + 1) % 9
    };
    let fe1 = |x: &BigUint| FIn::fe(vec![x.clone()]);
    let fe2 = |x: &BigUint, y: &BigUint| FIn::fe(vec![x.clone(), y.clone()]);

    // --- assignment / exposure ---
    {
        let mut p = PB::new();
        let a = p.p(Ins::In(0));
        p.out(a);
        v.push(entry("assign+expose", p, 1, q(true)));
    }
    for (tag, c) in [("0", BigUint::zero()), ("1", one.clone()), ("m-1", m1.clone()), ("2^B", &one << lb)] {
        let mut p = PB::new();
        let a = p.p(Ins::In(0));
        let f = p.p(Ins::Fix(c.clone()));
        p.out(f);
        let s = p.p(Ins::Add(a, f));
        p.out(s);
        let t = p.p(Ins::Mul(a, f));
        p.out(t);
        v.push(entry(&format!("assign_fixed[{tag}]+add+mul"), p, 1, q(false)));
    }
    // --- binary arithmetic ---
    for (name, mk, wrap, core) in [
        ("add", Ins::Add as fn(R, R) -> Ins, Some(Wrap::Add), true),
        ("sub", Ins::Sub as fn(R, R) -> Ins, None, false),
        ("mul", Ins::Mul as fn(R, R) -> Ins, Some(Wrap::Mul), true),
        ("div", Ins::Div as fn(R, R) -> Ins, Some(Wrap::Div), true),
    ] {
        let mut p = PB::new();
        let a = p.p(Ins::In(0));
        let c = p.p(Ins::In(1));
        let z = p.p(mk(a, c));
        p.out(z);
        let mut e = entry(name, p, 2, q(core));
        e.wrap = wrap;
        e.seed_moves = core;
        if name == "div" {
            e.specials = vec![fe2(&b(5), &BigUint::zero()), fe2(&BigUint::zero(), &BigUint::zero()), fe2(&BigUint::zero(), &b(7)), fe2(&m1, &m1)];
        }
        if name == "mul" {
            e.specials = vec![fe2(&m1, &m1), fe2(&((&one << lb) - &one), &((&one << lb) - &one))];
        }
        v.push(e);
    }
    for (name, mk) in [("neg", Ins::Neg as fn(R) -> Ins), ("square", Ins::Sq as fn(R) -> Ins), ("inv", Ins::Inv as fn(R) -> Ins), ("inv0", Ins::Inv0 as fn(R) -> Ins)] {
        let mut p = PB::new();
        let a = p.p(Ins::In(0));
        let z = p.p(mk(a));
        p.out(z);
        let mut e = entry(name, p, 1, q(name == "inv"));
        if name.starts_with("inv") {
            e.specials = vec![fe1(&BigUint::zero()), fe1(&one), fe1(&m1)];
        }
        v.push(e);
    }
    for (tag, c) in [("3", b(3)), ("m-1", m1.clone())] {
        let mut p = PB::new();
        let a = p.p(Ins::In(0));
        let c2 = p.p(Ins::In(1));
        let z = p.p(Ins::MulK(a, c2, c.clone()));
        p.out(z);
        v.push(entry(&format!("mul_with_constant[{tag}]"), p, 2, q(false)));
    }
    for (tag, c) in [("1", one.clone()), ("m-1", m1.clone()), ("2^B-1", (&one << lb) - &one)] {
        let mut p = PB::new();
        let a = p.p(Ins::In(0));
        let z = p.p(Ins::AddC(a, c.clone()));
        p.out(z);
        v.push(entry(&format!("add_constant[{tag}]"), p, 1, q(false)));
    }
    for (tag, c) in [("0", BigUint::zero()), ("1", one.clone()), ("2", b(2)), ("2^40", &one << 40usize), ("m-1", m1.clone()), ("2^200", &one << 200usize)] {
        let mut p = PB::new();
        let a = p.p(Ins::In(0));
        let z = p.p(Ins::MulC(a, c.clone()));
        p.out(z);
        v.push(entry(&format!("mul_by_constant[{tag}]"), p, 1, q(false)));
    }
    for n in [0u64, 1, 2, 5] {
        let mut p = PB::new();
        let a = p.p(Ins::In(0));
        let z = p.p(Ins::Pow(a, n));
        p.out(z);
        v.push(entry(&format!("pow[{n}]"), p, 1, q(false)));
    }
    {
        let mut p = PB::new();
        let a = p.p(Ins::In(0));
        let c = p.p(Ins::In(1));
        let d = p.p(Ins::In(2));
        let z = p.p(Ins::Lin(vec![(one.clone(), a), (m1.clone(), c), (&one << 40usize, d)], b(7)));
        p.out(z);
        let mut e = entry("linear_combination[1,-1,2^40;7]", p, 3, q(true));
        e.wrap = None;
        v.push(e);
        let mut p = PB::new();
        let a = p.p(Ins::In(0));
        let z = p.p(Ins::Lin(vec![], b(9)));
        p.out(z);
        let z2 = p.p(Ins::Lin(vec![(BigUint::zero(), a)], BigUint::zero()));
        p.out(z2);
        v.push(entry("linear_combination[empty]", p, 1, q(false)));
        let mut p = PB::new();
        let a = p.p(Ins::In(0));
        let c = p.p(Ins::In(1));
        let d = p.p(Ins::In(2));
        let z = p.p(Ins::AddAndMul((b(2), a), (m1.clone(), c), (b(3), d), b(11), b(5)));
        p.out(z);
        v.push(entry("add_and_mul", p, 3, q(false)));
    }
    // --- zero / equality ---
    {
        let mut p = PB::new();
        let a = p.p(Ins::In(0));
        let z = p.p(Ins::IsZero(a));
        p.out(z);
        let mut e = entry("is_zero", p, 1, q(false));
        e.specials = vec![fe1(&BigUint::zero()), fe1(&one), fe1(&m1)];
        v.push(e);
    }
    for (name, mk, core) in [("is_equal", Ins::IsEq as fn(R, R) -> Ins, true), ("is_not_equal", Ins::IsNeq as fn(R, R) -> Ins, false)] {
        let mut p = PB::new();
        let a = p.p(Ins::In(0));
        let c = p.p(Ins::In(1));
        let z = p.p(mk(a, c));
        p.out(z);
        let mut e = entry(name, p, 2, q(core));
        e.specials = vec![fe2(&b(5), &b(5)), fe2(&m1, &m1), fe2(&BigUint::zero(), &BigUint::zero()), fe2(&b(5), &b(6)), fe2(&BigUint::zero(), &m1), fe2(&(&one << lb), &((&one << lb) + &one))];
        e.seed_moves = core;
        v.push(e);
    }
    for (tag, c) in [("0", BigUint::zero()), ("5", b(5)), ("m-1", m1.clone())] {
        let mut p = PB::new();
        let a = p.p(Ins::In(0));
        let z = p.p(Ins::IsEqC(a, c.clone()));
        p.out(z);
        let z2 = p.p(Ins::IsNeqC(a, c.clone()));
        p.out(z2);
        let mut e = entry(&format!("is_(not_)equal_to_fixed[{tag}]"), p, 1, q(false));
        e.specials = vec![fe1(&c), fe1(&((&c + &one) % &m))];
        v.push(e);
    }
    {
        let mut p = PB::new();
        let a = p.p(Ins::In(0));
        let c = p.p(Ins::In(1));
        p.p(Ins::AssertEq(a, c));
        p.out(a);
        let mut e = entry("assert_equal", p, 2, q(true));
        e.specials = vec![fe2(&b(5), &b(5)), fe2(&m1, &m1), fe2(&BigUint::zero(), &BigUint::zero()), fe2(&b(5), &b(6)), fe2(&BigUint::zero(), &m1)];
        v.push(e);
        let mut p = PB::new();
        let a = p.p(Ins::In(0));
        let c = p.p(Ins::In(1));
        p.p(Ins::AssertNeq(a, c));
        p.out(a);
        let mut e = entry("assert_not_equal", p, 2, q(false));
        e.specials = vec![fe2(&b(5), &b(5)), fe2(&m1, &m1), fe2(&BigUint::zero(), &BigUint::zero()), fe2(&b(5), &b(6))];
        v.push(e);
        for (tag, c) in [("0", BigUint::zero()), ("m-1", m1.clone())] {
            let mut p = PB::new();
            let a = p.p(Ins::In(0));
            p.p(Ins::AssertEqC(a, c.clone()));
            p.out(a);
            let mut e = entry(&format!("assert_equal_to_fixed[{tag}]"), p, 1, q(false));
            e.specials = vec![fe1(&c), fe1(&((&c + &one) % &m))];
            v.push(e);
            let mut p = PB::new();
            let a = p.p(Ins::In(0));
            p.p(Ins::AssertNeqC(a, c.clone()));
            p.out(a);
            let mut e = entry(&format!("assert_not_equal_to_fixed[{tag}]"), p, 1, q(false));
            e.specials = vec![fe1(&c), fe1(&((&c + &one) % &m))];
            v.push(e);
        }
        let mut p = PB::new();
        let a = p.p(Ins::In(0));
        p.p(Ins::AssertZero(a));
        p.out(a);
        let mut e = entry("assert_zero", p, 1, q(false));
        e.specials = vec![fe1(&BigUint::zero()), fe1(&one)];
        v.push(e);
        let mut p = PB::new();
        let a = p.p(Ins::In(0));
        p.p(Ins::AssertNonZero(a));
        p.out(a);
        let mut e = entry("assert_non_zero", p, 1, q(false));
        e.specials = vec![fe1(&BigUint::zero()), fe1(&one)];
        v.push(e);
    }
    // --- control flow ---
    {
        let mut p = PB::new();
        let c = p.p(Ins::InBit(0));
        let a = p.p(Ins::In(0));
        let d = p.p(Ins::In(1));
        let z = p.p(Ins::Select(c, a, d));
        p.out(z);
        let mut e = entry("select", p, 2, q(true));
        e.nbits = 1;
        v.push(e);
        let mut p = PB::new();
        let c = p.p(Ins::InBit(0));
        let a = p.p(Ins::In(0));
        let d = p.p(Ins::In(1));
        let z = p.p(Ins::CondSwap(c, a, d));
        p.out(z);
        p.out(z + 1);
        let mut e = entry("cond_swap", p, 2, q(false));
        e.nbits = 1;
        v.push(e);
        let mut p = PB::new();
        let c = p.p(Ins::InBit(0));
        let a = p.p(Ins::In(0));
        let d = p.p(Ins::In(1));
        p.p(Ins::CondAssertEq(c, a, d));
        p.out(a);
        let mut e = entry("cond_assert_equal", p, 2, q(false));
        e.nbits = 1;
        e.specials = vec![
            FIn { fe: vec![b(5), b(5)], bits: vec![true], bytes: vec![] },
            FIn { fe: vec![b(5), b(6)], bits: vec![true], bytes: vec![] },
            FIn { fe: vec![b(5), b(6)], bits: vec![false], bytes: vec![] },
        ];
        v.push(e);
    }
    // --- bits / bytes ---
    for (tag, nb, canon, be, core) in [
        ("le,None,canonical", None, true, false, true),
        ("be,None,canonical", None, true, true, false),
        ("le,Some(bits-9),canonical", Some(nbits - 9), true, false, false),
        ("le,Some(1),canonical", Some(1usize), true, false, false),
        ("le,None,non-canonical", None, false, false, true),
    ] {
        let mut p = PB::new();
        let a = p.p(Ins::In(0));
        let z = p.p(if be { Ins::ToBeBits(a, nb, canon) } else { Ins::ToLeBits(a, nb, canon) });
        p.out(z);
        let mut e = entry(&format!("to_bits[{tag}]"), p, 1, q(core));
        e.specials = vec![fe1(&BigUint::zero()), fe1(&one), fe1(&m1), fe1(&(&one << (nbits - 9))), fe1(&((&one << (nbits - 9)) - &one)), fe1(&(&one << lb)), fe1(&(&one << (2 * lb)))];
        if !canon {
            e.prog = e.prog.clone().nonunique();
        }
        v.push(e);
    }
    // (fields whose bit length is not a multiple of 8: see probe P1 in c05.rs; any byte length that
    // covers the whole field panics there, so only short lengths are catalogued for them)
    let bytes_ok = nbits % 8 == 0;
    for (tag, nb, be, core) in [("le,None", None, false, true), ("be,None", None, true, false), ("le,Some(bytes-1)", Some(nbytes - 1), false, false), ("be,Some(1)", Some(1usize), true, false)] {
        if !bytes_ok && nb.is_none() {
            continue;
        }
        let mut p = PB::new();
        let a = p.p(Ins::In(0));
        let z = p.p(if be { Ins::ToBeBytes(a, nb) } else { Ins::ToLeBytes(a, nb) });
        p.out(z);
        let mut e = entry(&format!("to_bytes[{tag}]"), p, 1, q(core));
        e.specials = vec![fe1(&BigUint::zero()), fe1(&b(255)), fe1(&b(256)), fe1(&m1), fe1(&(&one << (8 * (nbytes - 1)))), fe1(&((&one << (8 * (nbytes - 1))) - &one))];
        v.push(e);
    }
    for (n, be, core) in [(1usize, false, false), (lb, false, false), (nbits, false, false), (nbits + 9, false, true), (nbits, true, false)] {
        let mut p = PB::new();
        let bits = p.p(Ins::InBits(0, n));
        let z = p.p(if be { Ins::FromBeBits(bits) } else { Ins::FromLeBits(bits) });
        p.out(z);
        let mut e = entry(&format!("from_{}_bits[{n}]", if be { "be" } else { "le" }), p, 0, q(core));
        e.nbits = n;
        v.push(e);
    }
    for (n, be, core) in [(1usize, false, false), (nbytes, false, true), (nbytes + 1, false, false), (nbytes, true, false)] {
        let mut p = PB::new();
        let bytes = p.p(Ins::InBytes(0, n));
        let z = p.p(if be { Ins::FromBeBytes(bytes) } else { Ins::FromLeBytes(bytes) });
        p.out(z);
        let mut e = entry(&format!("from_{}_bytes[{n}]", if be { "be" } else { "le" }), p, 0, q(core));
        e.nbytes = n;
        v.push(e);
    }
    {
        // chunk sizes: one dividing LOG2_BASE, one not
        let div = if lb % 8 == 0 { 8 } else { lb };
        let mut p = PB::new();
        let a = p.p(Ins::In(0));
        let z = p.p(Ins::ToLeChunks(a, div, None));
        p.out(z);
        v.push(entry(&format!("to_le_chunks[{div},None]"), p, 1, q(false)));
        let mut p = PB::new();
        let a = p.p(Ins::In(0));
        let z = p.p(Ins::ToLeChunks(a, div, Some(3)));
        p.out(z);
        let mut e = entry(&format!("to_le_chunks[{div},Some(3)]"), p, 1, q(false));
        e.specials = vec![fe1(&BigUint::zero()), fe1(&((&one << (3 * div)) - &one)), fe1(&(&one << (3 * div)))];
        v.push(e);
        let nd = 5usize;
        let mut p = PB::new();
        let a = p.p(Ins::In(0));
        let z = p.p(Ins::ToLeChunks(a, nd, None));
        p.out(z);
        let mut e = entry(&format!("to_le_chunks[{nd},None]"), p, 1, q(false));
        e.prog = e.prog.clone().nonunique();
        e.specials = vec![fe1(&BigUint::zero()), fe1(&one), fe1(&m1)];
        v.push(e);
    }
    for (name, mk) in [("sgn0", Ins::Sgn0 as fn(R) -> Ins), ("is_square", Ins::IsSquare as fn(R) -> Ins)] {
        let mut p = PB::new();
        let a = p.p(Ins::In(0));
        let z = p.p(mk(a));
        p.out(z);
        let mut e = entry(name, p, 1, q(false));
        e.specials = vec![fe1(&BigUint::zero()), fe1(&one), fe1(&m1), fe1(&b(4))];
        v.push(e);
    }
    {
        let mut p = PB::new();
        let bit = p.p(Ins::InBit(0));
        let bytes = p.p(Ins::InBytes(0, 1));
        let x = p.p(Ins::ConvBit(bit));
        let y = p.p(Ins::ConvByte(bytes));
        p.out(x);
        p.out(y);
        let s = p.p(Ins::Add(x, y));
        p.out(s);
        let t = p.p(Ins::Mul(x, y));
        p.out(t);
        let mut e = entry("convert[bit,byte]+add+mul", p, 0, q(false));
        e.nbits = 1;
        e.nbytes = 1;
        v.push(e);
    }
    // --- chains that leave elements un-normalised before the sensitive operations ---
    {
        // C1: x = a + b - b ; is_equal(x, a) = 1 ; exposure of x = canonical encoding of a
        let mut p = PB::new();
        let a = p.p(Ins::In(0));
        let c = p.p(Ins::In(1));
        let s = p.p(Ins::Add(a, c));
        let x = p.p(Ins::Sub(s, c));
        let e1 = p.p(Ins::IsEq(x, a));
        p.out(e1);
        p.out(x);
        let mut e = entry("chain[a+b-b == a]", p, 2, q(true));
        e.seed_moves = true;
        v.push(e);
    }
    {
        // C2: x = a + (m-1) + 1 : same residue, limbs represent a + m
        let mut p = PB::new();
        let a = p.p(Ins::In(0));
        let t = p.p(Ins::AddC(a, m1.clone()));
        let x = p.p(Ins::AddC(t, one.clone()));
        let e1 = p.p(Ins::IsEq(x, a));
        p.out(e1);
        p.p(Ins::AssertEq(x, a));
        p.out(x);
        if bytes_ok {
            let by = p.p(Ins::ToLeBytes(x, None));
            p.out(by);
        } else {
            let bi = p.p(Ins::ToLeBits(x, None, true));
            p.out(bi);
        }
        let s0 = p.p(Ins::Sgn0(x));
        p.out(s0);
        v.push(entry("chain[a+(m-1)+1: is_equal, assert_equal, expose, bytes, sgn0]", p, 1, q(true)));
    }
    {
        // C3: 4a by doubling vs mul_by_constant
        let mut p = PB::new();
        let a = p.p(Ins::In(0));
        let d = p.p(Ins::Add(a, a));
        let qd = p.p(Ins::Add(d, d));
        let k = p.p(Ins::MulC(a, b(4)));
        let e1 = p.p(Ins::IsEq(qd, k));
        p.out(e1);
        p.out(qd);
        let bits = p.p(Ins::ToLeBits(qd, None, true));
        p.out(bits);
        v.push(entry("chain[(a+a)+(a+a) == 4a: is_equal, expose, bits]", p, 1, q(true)));
    }
    {
        // C4: negative limbs
        let mut p = PB::new();
        let a = p.p(Ins::In(0));
        let c = p.p(Ins::In(1));
        let d = p.p(Ins::In(2));
        let na = p.p(Ins::Neg(a));
        let t = p.p(Ins::Sub(na, c));
        let x = p.p(Ins::Sub(t, d));
        p.out(x);
        if bytes_ok {
            let by = p.p(Ins::ToBeBytes(x, None));
            p.out(by);
        }
        let s0 = p.p(Ins::Sgn0(x));
        p.out(s0);
        let z = p.p(Ins::IsZero(x));
        p.out(z);
        let mut e = entry("chain[-a-b-c: expose, bytes, sgn0, is_zero]", p, 3, q(false));
        e.specials = vec![FIn::fe(vec![b(1), b(2), &m - b(3)]), FIn::fe(vec![BigUint::zero(), BigUint::zero(), BigUint::zero()]), FIn::fe(vec![m1.clone(), m1.clone(), b(2)])];
        v.push(e);
    }
    {
        // C5: distributivity, both sides un-normalised sums
        let mut p = PB::new();
        let a = p.p(Ins::In(0));
        let c = p.p(Ins::In(1));
        let d = p.p(Ins::In(2));
        let s = p.p(Ins::Add(a, c));
        let l = p.p(Ins::Mul(s, d));
        let ad = p.p(Ins::Mul(a, d));
        let cd = p.p(Ins::Mul(c, d));
        let r = p.p(Ins::Add(ad, cd));
        let e1 = p.p(Ins::IsEq(l, r));
        p.out(e1);
        p.p(Ins::AssertEq(l, r));
        p.out(r);
        v.push(entry("chain[(a+b)c == ac+bc: is_equal, assert_equal, expose]", p, 3, q(true)));
    }
    {
        // C6: select between representations with different bounds
        let mut p = PB::new();
        let bit = p.p(Ins::InBit(0));
        let a = p.p(Ins::In(0));
        let c = p.p(Ins::In(1));
        let s = p.p(Ins::Add(a, c));
        let n = p.p(Ins::Neg(c));
        let x = p.p(Ins::Select(bit, s, n));
        p.out(x);
        let e1 = p.p(Ins::IsEq(x, s));
        p.out(e1);
        if bytes_ok {
            let by = p.p(Ins::ToLeBytes(x, None));
            p.out(by);
        }
        let mut e = entry("chain[select(bit, a+b, -b): expose, is_equal, bytes]", p, 2, q(false));
        e.nbits = 1;
        v.push(e);
    }
    {
        // C7: six subtractions vs linear combination
        let mut p = PB::new();
        let a = p.p(Ins::In(0));
        let c = p.p(Ins::In(1));
        let mut x = a;
        for _ in 0..6 {
            x = p.p(Ins::Sub(x, c));
        }
        let y = p.p(Ins::Lin(vec![(one.clone(), a), (&m - b(6), c)], BigUint::zero()));
        let d = p.p(Ins::Sub(x, y));
        let z = p.p(Ins::IsZero(d));
        p.out(z);
        p.out(x);
        v.push(entry("chain[a-6b two ways: is_zero(diff), expose]", p, 2, q(false)));
    }
    {
        // C8: conversions of an un-normalised sum, equality with a constant
        let mut p = PB::new();
        let a = p.p(Ins::In(0));
        let c = p.p(Ins::In(1));
        let s = p.p(Ins::Add(a, c));
        let bits = p.p(Ins::ToLeBits(s, None, true));
        p.out(bits);
        if bytes_ok {
            let by = p.p(Ins::ToLeBytes(s, None));
            p.out(by);
        }
        let s0 = p.p(Ins::Sgn0(s));
        p.out(s0);
        let e1 = p.p(Ins::IsEqC(s, b(5)));
        p.out(e1);
        let mut e = entry("chain[a+b: bits, bytes, sgn0, is_equal_to_fixed(5)]", p, 2, q(true));
        e.specials = vec![fe2(&b(2), &b(3)), fe2(&m1, &b(6)), fe2(&m1, &b(7)), fe2(&m1, &one), fe2(&m1, &m1)];
        v.push(e);
    }
    {
        // C9: different residues, both un-normalised: must never be identified
        let mut p = PB::new();
        let a = p.p(Ins::In(0));
        let c = p.p(Ins::In(1));
        let x = p.p(Ins::Add(a, c));
        let y = p.p(Ins::AddC(x, one.clone()));
        let e1 = p.p(Ins::IsEq(x, y));
        p.out(e1);
        let e2 = p.p(Ins::IsNeq(x, y));
        p.out(e2);
        p.p(Ins::AssertNeq(x, y));
        let z = p.p(Ins::Sub(y, x));
        let e3 = p.p(Ins::IsEqC(z, one.clone()));
        p.out(e3);
        p.out(z);
        let mut e = entry("chain[x=a+b, y=x+1: is_equal=0, is_not_equal=1, assert_not_equal, y-x==1]", p, 2, q(true));
        e.specials = vec![fe2(&m1, &one), fe2(&m1, &m1), fe2(&BigUint::zero(), &BigUint::zero())];
        v.push(e);
    }
    {
        // C10: division / inversion of un-normalised operands
        let mut p = PB::new();
        let a = p.p(Ins::In(0));
        let c = p.p(Ins::In(1));
        let d = p.p(Ins::In(2));
        let f = p.p(Ins::In(3));
        let n = p.p(Ins::Add(a, c));
        let dn = p.p(Ins::Sub(d, f));
        let qq = p.p(Ins::Div(n, dn));
        p.out(qq);
        let iv = p.p(Ins::Inv0(dn));
        p.out(iv);
        let mut e = entry("chain[(a+b)/(c-d), inv0(c-d)]", p, 4, q(false));
        e.specials = vec![FIn::fe(vec![b(1), b(2), b(9), b(9)]), FIn::fe(vec![b(1), &m - b(1), b(9), b(8)]), FIn::fe(vec![b(1), b(2), BigUint::zero(), m1.clone()])];
        v.push(e);
    }
    {
        // C11: product of un-normalised sum and difference
        let mut p = PB::new();
        let a = p.p(Ins::In(0));
        let c = p.p(Ins::In(1));
        let s = p.p(Ins::Add(a, c));
        let t = p.p(Ins::Sub(a, c));
        let pr = p.p(Ins::Mul(s, t));
        let a2 = p.p(Ins::Sq(a));
        let c2 = p.p(Ins::Sq(c));
        let r = p.p(Ins::Sub(a2, c2));
        let e1 = p.p(Ins::IsEq(pr, r));
        p.out(e1);
        p.out(pr);
        p.out(r);
        v.push(entry("chain[(a+b)(a-b) == a^2-b^2: is_equal, expose both]", p, 2, q(false)));
    }
    // --- bound bookkeeping: every operation that tracks limb bounds (select, cond_swap, add, sub,
    // neg, mul_by_constant, add_constant) applied AFTER an un-normalising step and BEFORE the
    // bound-sensitive consumers (is_zero, equality, exposure, bit decomposition, multiplication),
    // with the un-normalised value in either operand position and both condition values; the
    // specials are representations of zero (a + b = m with carries, a = b) and limbs at 2^64 k
    {
        let big_half = (&m - &one) >> 1;
        let sp = |bit: bool, x: &BigUint, y: &BigUint| FIn {
            fe: vec![x.clone(), y.clone()],
            bits: vec![bit],
            bytes: vec![],
        };
        let pw = &one << lb;
        for (pname, pk) in [("a+b", 0usize), ("a-b", 1), ("-a", 2), ("3a", 3), ("a+(m-1)", 4), ("a+2b+5", 5)] {
            let mut p = PB::new();
            let bit = p.p(Ins::InBit(0));
            let a = p.p(Ins::In(0));
            let c = p.p(Ins::In(1));
            let u = match pk {
                0 => p.p(Ins::Add(a, c)),
                1 => p.p(Ins::Sub(a, c)),
                2 => p.p(Ins::Neg(a)),
                3 => p.p(Ins::MulC(a, b(3))),
                4 => p.p(Ins::AddC(a, m1.clone())),
                _ => p.p(Ins::Lin(vec![(one.clone(), a), (b(2), c)], b(5))),
            };
            let t1 = p.p(Ins::Select(bit, u, a));
            let t2 = p.p(Ins::Select(bit, a, u));
            let sw = p.p(Ins::CondSwap(bit, u, c));
            let t3 = p.p(Ins::Neg(u));
            let t4 = p.p(Ins::MulC(u, b(2)));
            let t5 = p.p(Ins::Sub(c, u));
            let t6 = p.p(Ins::Add(u, u));
            let t7 = p.p(Ins::AddC(u, one.clone()));
            let t8 = p.p(Ins::Select(bit, t6, u));
            for r in [t1, t2, sw, sw + 1, t3, t4, t5, t6, t7, t8] {
                let z = p.p(Ins::IsZero(r));
                p.out(z);
                p.out(r);
            }
            for r in [t2, sw + 1] {
                let e1 = p.p(Ins::IsEq(r, a));
                p.out(e1);
                let e2 = p.p(Ins::IsEqC(r, BigUint::zero()));
                p.out(e2);
                let s0 = p.p(Ins::Sgn0(r));
                p.out(s0);
                let pr = p.p(Ins::Mul(r, c));
                p.out(pr);
            }
            let mut e = entry(&format!("bounds[u={pname}: select/cond_swap/neg/2u/b-u/u+u/u+1 then is_zero, expose, is_equal, sgn0, mul]"), p, 2, q(pk == 0 || pk == 3 || pk == 5));
            e.nbits = 1;
            let pw_c = (&m - &pw) % &m;
            let half_c = (&m - &big_half) % &m;
            e.specials = vec![
                sp(false, &pw, &pw_c),
                sp(true, &pw, &pw_c),
                sp(false, &big_half, &half_c),
                sp(true, &big_half, &half_c),
                sp(false, &b(5), &b(5)),
                sp(true, &pw, &pw),
                sp(false, &BigUint::zero(), &BigUint::zero()),
                sp(true, &m1, &one),
                sp(false, &(&pw * b(3)), &(&pw * b(5))),
                sp(false, &b(7), &(&m - b(7))),
            ];
            v.push(e);
        }
    }
    // seeded random chains: 2..6 additive/multiplicative steps, then every sensitive sink
    {
        use rand::Rng;
        for ci in 0..n_random_chains {
            let mut p = PB::new();
            let a = p.p(Ins::In(0));
            let c = p.p(Ins::In(1));
            let d = p.p(Ins::In(2));
            let ops = rng.gen_range(2..=6);
            let mut regs = vec![a, c, d];
            let mut desc = String::new();
            for _ in 0..ops {
                let x = regs[rng.gen_range(0..regs.len())];
                let y = regs[rng.gen_range(0..regs.len())];
                let r = match rng.gen_range(0..7) {
                    0 | 1 => {
                        desc.push('+');
                        p.p(Ins::Add(x, y))
                    }
                    2 | 3 => {
                        desc.push('-');
                        p.p(Ins::Sub(x, y))
                    }
                    4 => {
                        desc.push('*');
                        p.p(Ins::Mul(x, y))
                    }
                    5 => {
                        desc.push('n');
                        p.p(Ins::Neg(x))
                    }
                    _ => {
                        desc.push('c');
                        p.p(Ins::AddC(x, rand_fe::<K>(rng)))
                    }
                };
                regs.push(r);
            }
            let x = *regs.last().unwrap();
            // x' = the same value recomputed as x + y - y with a fresh un-normalised detour
            let y = regs[rng.gen_range(0..3)];
            let t = p.p(Ins::Add(x, y));
            let x2 = p.p(Ins::Sub(t, y));
            let e1 = p.p(Ins::IsEq(x, x2));
            p.out(e1);
            p.out(x);
            match ci % 3 {
                0 if bytes_ok => {
                    let by = p.p(Ins::ToLeBytes(x, None));
                    p.out(by);
                }
                1 => {
                    let bits = p.p(Ins::ToBeBits(x, None, true));
                    p.out(bits);
                }
                _ => {
                    let xp = p.p(Ins::AddC(x, one.clone()));
                    let e2 = p.p(Ins::IsEq(x, xp));
                    p.out(e2);
                }
            }
            v.push(entry(&format!("chain[random#{ci}:{desc}]"), p, 3, ci == 0));
        }
    }
    v
}

/// Wrap-around attack specs for an entry with `wrap` set: forged output z' = z ± q (q = native
/// modulus), reduced modulo m, with a donor input whose honest result is z'.
pub fn wrap_specs<K: Emu>(e: &FEntry<K>, input: &FIn) -> Vec<AttackSpec<FIn>>
where
    MEP: FieldEmulationParams<F, K>,
{
    let Some(w) = e.wrap else { return vec![] };
    let m = modulus::<K>();
    let q = super::ffield::big_of_f(&-F::from(1u64)) + BigUint::one();
    let (a, c) = (&input.fe[0] % &m, &input.fe[1] % &m);
    let inv = |x: &BigUint| x.modpow(&(&m - b(2)), &m);
    let mut out = vec![];
    for (tag, plus) in [("+q", true), ("-q", false)] {
        let shift = |x: &BigUint| if plus { (x + &q) % &m } else { (x + &m - (&q % &m)) % &m };
        let (z2, a2) = match w {
            Wrap::Mul => {
                if c.is_zero() {
                    continue;
                }
                let z2 = shift(&((&a * &c) % &m));
                let a2 = (&z2 * inv(&c)) % &m;
                (z2, a2)
            }
            Wrap::Add => {
                let z2 = shift(&((&a + &c) % &m));
                let a2 = (&z2 + &m - &c) % &m;
                (z2, a2)
            }
            Wrap::Div => {
                if c.is_zero() {
                    continue;
                }
                let a2 = shift(&a);
                let z2 = (&a2 * inv(&c)) % &m;
                (z2, a2)
            }
        };
        out.push(AttackSpec {
            label: format!("native-wrap[{tag}]"),
            forged: Some(encode_fe::<K>(&z2)),
            donors: vec![FIn::fe(vec![a2, c.clone()])],
        });
    }
    // same integer, limb i lowered by 2^B and limb i+1 raised by one (out-of-range limb with a
    // compensating neighbour); and the honest limbs with the top limb raised by 2^(its bit bound)
    let z = match w {
        Wrap::Mul => (&a * &c) % &m,
        Wrap::Add => (&a + &c) % &m,
        Wrap::Div => {
            if c.is_zero() {
                return out;
            }
            (&a * inv(&c)) % &m
        }
    };
    let honest = encode_fe::<K>(&z);
    let lb = log2_base::<K>();
    let n = nb_limbs::<K>();
    for i in [0, n - 2] {
        let mut f = honest.clone();
        f[i] -= super::ffield::f_of_big(&(BigUint::one() << lb));
        f[i + 1] += F::from(1u64);
        out.push(AttackSpec {
            label: format!("limb-carry[{i}]"),
            forged: Some(f),
            donors: vec![],
        });
    }
    out
}

/// "Free auxiliary value" forgeries: for each auxiliary cell of the identity row in turn, assume it
/// is not range-checked, eliminate it, and look (LLL) for small limb changes that keep the other
/// auxiliary values within a small change. On a sound circuit every such forgery must die on the
/// range check of the assumed-free cell.
pub fn lattice_specs<K: Emu>(e: &FEntry<K>, input: &FIn, info: &IdentityRow, max_per_aux: usize) -> Vec<AttackSpec<FIn>>
where
    MEP: FieldEmulationParams<F, K>,
{
    use num_bigint::{BigInt, ToBigInt};
    use num_traits::Signed;
    let Some(w) = e.wrap else { return vec![] };
    let m = modulus::<K>();
    let (a, c) = (&input.fe[0] % &m, &input.fe[1] % &m);
    let inv = |x: &BigUint| x.modpow(&(&m - b(2)), &m);
    let z = match w {
        Wrap::Mul => (&a * &c) % &m,
        Wrap::Add => (&a + &c) % &m,
        Wrap::Div => {
            if c.is_zero() {
                return vec![];
            }
            (&a * inv(&c)) % &m
        }
    };
    let honest = encode_fe::<K>(&z);
    let n = nb_limbs::<K>();
    let lb = log2_base::<K>();
    let msl = m.bits() as u32 - (n as u32 - 1) * lb;
    let limb_bits: Vec<u32> = (0..n).map(|i| if i == n - 1 { msl } else { lb }).collect();
    let q: BigInt = (big_of_f(&-F::from(1u64)) + BigUint::one()).to_bigint().unwrap();
    let fi = |f: &F| big_of_f(f).to_bigint().unwrap();
    let r = info.aux.len();
    let mut out = vec![];
    for free in 0..r {
        // eliminate aux `free` with the first polynomial that depends on it
        let Some(p0) = (0..r).find(|p| info.da[*p][free] != F::from(0u64)) else { continue };
        let inv_p0 = Option::<F>::from(ff::Field::invert(&info.da[p0][free])).unwrap();
        // unknowns: limbs 0..n, then the other aux cells
        let others: Vec<usize> = (0..r).filter(|j| *j != free).collect();
        let mut eqs: Vec<Vec<BigInt>> = vec![];
        for p in 0..r {
            if p == p0 {
                continue;
            }
            let factor = info.da[p][free] * inv_p0;
            let mut row: Vec<BigInt> = vec![];
            for i in 0..n {
                row.push(fi(&(info.dz[p][i] - factor * info.dz[p0][i])));
            }
            for j in &others {
                row.push(fi(&(info.da[p][*j] - factor * info.da[p0][*j])));
            }
            eqs.push(row);
        }
        let mut bits: Vec<u32> = limb_bits.iter().map(|b| b.saturating_sub(1).max(1)).collect();
        for j in &others {
            bits.push((big_of_f(&info.aux_values[*j]).bits() as u32).saturating_sub(2).max(16));
        }
        let vecs = short_kernel_vectors(&eqs, &q, &bits);
        if std::env::var("MZV_LATTICE_DEBUG").is_ok() {
            eprintln!("[lattice] free aux {free} (cell {:?}), aux bits {:?}, allowed bits {:?}", info.aux[free], info.aux_values.iter().map(|v| big_of_f(v).bits()).collect::<Vec<_>>(), bits);
            for v in vecs.iter().take(4) {
                eprintln!("[lattice]   vector bits {:?}", v.iter().map(|x| x.bits() as i64 * if x.is_negative() { -1 } else { 1 }).collect::<Vec<_>>());
            }
        }
        let mut made = 0;
        for v in vecs.iter().take(6) {
            for sign in [1i32, -1] {
                if made >= max_per_aux {
                    break;
                }
                let mut forged = vec![];
                let mut ok = true;
                for i in 0..n {
                    let zi = big_of_f(&honest[i]).to_bigint().unwrap() + &v[i] * BigInt::from(sign);
                    if zi.is_negative() || zi.bits() as u32 > limb_bits[i] {
                        ok = false;
                        break;
                    }
                    forged.push(f_of_big(&zi.to_biguint().unwrap()));
                }
                if !ok {
                    continue;
                }
                let (res, wf) = decode_fe::<K>(&forged);
                if !wf || res == z {
                    continue;
                }
                made += 1;
                out.push(AttackSpec {
                    label: format!("free-aux[{free}]"),
                    forged: Some(forged),
                    donors: vec![],
                });
            }
        }
    }
    out
}

/// For C09 (structure must not depend on witness values): every catalogue program of one field
/// with deterministic admissible operands that steer the data-dependent paths (0, 1, m-1, limbs at
/// 2^B-1 / 2^B, carries, un-normalised chains, equal / adjacent pairs). No seeded randomness.
pub fn catalogue_for_structure<K: Emu>(thorough: bool) -> Vec<(FProg<K>, Vec<FIn>)>
where
    MEP: FieldEmulationParams<F, K>,
{
    use rand::SeedableRng;
    let mut rng = ChaCha8Rng::seed_from_u64(0xC09);
    let mut out = vec![];
    for (idx, e) in field_catalogue::<K>(0, &mut rng, if thorough { 3 } else { 1 }).into_iter().enumerate() {
        if !thorough && !e.quick {
            continue;
        }
        let mut inputs = gen_inputs(&e, idx, if thorough { 8 } else { 3 }, 0, 64, &mut rng);
        inputs.retain(|i| e.prog.eval(i).is_some());
        if e.prog.nonunique {
            // operands on which the non-canonical decomposition has no honest run (finding P2)
            let lb = log2_base::<K>();
            let mask = (BigUint::one() << lb) - BigUint::one();
            let m = modulus::<K>();
            inputs.retain(|i| (((&i.fe[0] % &m) + &m - BigUint::one()) % &m) & &mask != mask);
        }
        if !inputs.is_empty() {
            out.push((e.prog, inputs));
        }
    }
    out
}
