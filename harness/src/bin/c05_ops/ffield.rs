//! C05 — emulated-field programs: a small register program over one `FieldChip`, run in-circuit
//! (on the chips ZkStdLib exposes, or on a chip built from scratch for Curve25519) and in a
//! `num-bigint` reference modulo the emulated modulus.
//!
//! Public-input layout expected by the reference (documented in `field_chip.rs` / `params.rs`):
//! an emulated element x is exposed as the `NB_LIMBS` little-endian limbs in base `2^LOG2_BASE`
//! of the integer `(x - 1) mod m` (the "+1 shift" that gives zero a unique representation); a bit
//! is one field element 0/1; a byte one field element 0..255; a native chunk one field element.

use ff::{Field, PrimeField};
use midnight_circuits::{
    field::{
        decomposition::chip::P2RDecompositionChip,
        foreign::{
            params::{FieldEmulationParams, MultiEmulationParams},
            FieldChip,
        },
        NativeChip, NativeGadget,
    },
    instructions::*,
    types::{AssignedBit, AssignedByte, AssignedField, AssignedNative},
    CircuitField,
};
use midnight_curves::Fq as F;
use midnight_proofs::{
    circuit::{Layouter, Value},
    plonk::Error,
};
use midnight_zk_stdlib::{ZkStdLib, ZkStdLibArch};
use mzv::engines::catalogue::OpSpec;
use num_bigint::BigUint;
use num_traits::{One, Zero};

pub type NG = NativeGadget<F, P2RDecompositionChip<F>, NativeChip<F>>;
pub type MEP = MultiEmulationParams;
pub type Chip<K> = FieldChip<F, K, MEP, NG>;
pub type AF<K> = AssignedField<F, K, MEP>;

/// An emulated field reachable through a chip.
pub trait Emu: CircuitField + Send + Sync + 'static
where
    MEP: FieldEmulationParams<F, Self>,
{
    const TAG: &'static str;
    /// `Some` when ZkStdLib exposes a chip for this field.
    fn arch() -> Option<ZkStdLibArch>;
    fn chip(s: &ZkStdLib) -> &Chip<Self>;
}

impl Emu for midnight_curves::k256::Fq {
    const TAG: &'static str = "secp256k1.scalar";
    fn arch() -> Option<ZkStdLibArch> {
        Some(ZkStdLibArch {
            secp256k1: true,
            ..ZkStdLibArch::default()
        })
    }
    fn chip(s: &ZkStdLib) -> &Chip<Self> {
        s.secp256k1_scalar()
    }
}

impl Emu for midnight_curves::k256::Fp {
    const TAG: &'static str = "secp256k1.base";
    fn arch() -> Option<ZkStdLibArch> {
        Some(ZkStdLibArch {
            secp256k1: true,
            ..ZkStdLibArch::default()
        })
    }
    fn chip(s: &ZkStdLib) -> &Chip<Self> {
        s.secp256k1_curve().base_field_chip()
    }
}

impl Emu for midnight_curves::Fp {
    const TAG: &'static str = "bls12_381.base";
    fn arch() -> Option<ZkStdLibArch> {
        Some(ZkStdLibArch {
            bls12_381: true,
            ..ZkStdLibArch::default()
        })
    }
    fn chip(s: &ZkStdLib) -> &Chip<Self> {
        s.bls12_381_curve().base_field_chip()
    }
}

impl Emu for midnight_curves::curve25519::Fp {
    const TAG: &'static str = "curve25519.base";
    fn arch() -> Option<ZkStdLibArch> {
        None
    }
    fn chip(_: &ZkStdLib) -> &Chip<Self> {
        unreachable!("ZkStdLib exposes no Curve25519 field chip")
    }
}

impl Emu for midnight_curves::curve25519::Scalar {
    const TAG: &'static str = "curve25519.scalar";
    fn arch() -> Option<ZkStdLibArch> {
        None
    }
    fn chip(_: &ZkStdLib) -> &Chip<Self> {
        unreachable!("ZkStdLib exposes no Curve25519 field chip")
    }
}

/// Native helper operations needed by the interpreter (bits, bytes, raw public inputs); implemented
/// by `ZkStdLib` and by the native gadget of a from-scratch circuit.
pub trait NatOps {
    fn a_bit(&self, l: &mut impl Layouter<F>, v: Value<bool>) -> Result<AssignedBit<F>, Error>;
    fn a_byte(&self, l: &mut impl Layouter<F>, v: Value<u8>) -> Result<AssignedByte<F>, Error>;
    fn pi_bit(&self, l: &mut impl Layouter<F>, b: &AssignedBit<F>) -> Result<(), Error>;
    fn pi_byte(&self, l: &mut impl Layouter<F>, b: &AssignedByte<F>) -> Result<(), Error>;
    fn pi_nat(&self, l: &mut impl Layouter<F>, b: &AssignedNative<F>) -> Result<(), Error>;
}

macro_rules! impl_natops {
    ($t:ty) => {
        impl NatOps for $t {
            fn a_bit(&self, l: &mut impl Layouter<F>, v: Value<bool>) -> Result<AssignedBit<F>, Error> {
                self.assign(l, v)
            }
            fn a_byte(&self, l: &mut impl Layouter<F>, v: Value<u8>) -> Result<AssignedByte<F>, Error> {
                self.assign(l, v)
            }
            fn pi_bit(&self, l: &mut impl Layouter<F>, b: &AssignedBit<F>) -> Result<(), Error> {
                self.constrain_as_public_input(l, b)
            }
            fn pi_byte(&self, l: &mut impl Layouter<F>, b: &AssignedByte<F>) -> Result<(), Error> {
                self.constrain_as_public_input(l, b)
            }
            fn pi_nat(&self, l: &mut impl Layouter<F>, b: &AssignedNative<F>) -> Result<(), Error> {
                self.constrain_as_public_input(l, b)
            }
        }
    };
}
impl_natops!(ZkStdLib);
impl_natops!(NG);

pub type R = usize;

/// One instruction; every instruction pushes zero, one or two registers.
#[derive(Clone, Debug)]
pub enum Ins {
    /// assign operand `fe[i]` and expose it (inputs come first in the instance)
    In(usize),
    InBit(usize),
    /// `n` bits starting at `bits[i]`
    InBits(usize, usize),
    InBytes(usize, usize),
    Fix(BigUint),
    Add(R, R),
    Sub(R, R),
    Neg(R),
    Mul(R, R),
    MulK(R, R, BigUint),
    Sq(R),
    Div(R, R),
    Inv(R),
    Inv0(R),
    AddC(R, BigUint),
    MulC(R, BigUint),
    Pow(R, u64),
    Lin(Vec<(BigUint, R)>, BigUint),
    /// a*x + b*y + c*z + k + m*x*y
    AddAndMul((BigUint, R), (BigUint, R), (BigUint, R), BigUint, BigUint),
    IsZero(R),
    IsEq(R, R),
    IsNeq(R, R),
    IsEqC(R, BigUint),
    IsNeqC(R, BigUint),
    AssertEq(R, R),
    AssertNeq(R, R),
    AssertEqC(R, BigUint),
    AssertNeqC(R, BigUint),
    AssertZero(R),
    AssertNonZero(R),
    /// select(cond, x, y) = cond ? x : y
    Select(R, R, R),
    /// pushes two registers
    CondSwap(R, R, R),
    CondAssertEq(R, R, R),
    ToLeBits(R, Option<usize>, bool),
    ToBeBits(R, Option<usize>, bool),
    ToLeBytes(R, Option<usize>),
    ToBeBytes(R, Option<usize>),
    FromLeBits(R),
    FromBeBits(R),
    FromLeBytes(R),
    FromBeBytes(R),
    ToLeChunks(R, usize, Option<usize>),
    Sgn0(R),
    IsSquare(R),
    ConvBit(R),
    /// first byte of a byte-vector register converted to an element
    ConvByte(R),
    /// expose a register (any type) as public input
    Out(R),
}

#[derive(Clone, Debug)]
pub struct FIn {
    pub fe: Vec<BigUint>,
    pub bits: Vec<bool>,
    pub bytes: Vec<u8>,
}

impl FIn {
    pub fn fe(v: Vec<BigUint>) -> Self {
        FIn {
            fe: v,
            bits: vec![],
            bytes: vec![],
        }
    }
}

#[derive(Clone, Debug)]
enum Reg<K: Emu>
where
    MEP: FieldEmulationParams<F, K>,
{
    Fe(AF<K>),
    Bit(AssignedBit<F>),
    Bits(Vec<AssignedBit<F>>),
    Bytes(Vec<AssignedByte<F>>),
    Nats(Vec<AssignedNative<F>>),
    None,
}

#[derive(Clone, Debug, PartialEq, Eq)]
pub enum RV {
    Fe(BigUint),
    Bit(bool),
    Bits(Vec<bool>),
    Bytes(Vec<u8>),
    Nats(Vec<BigUint>),
    None,
}

pub fn modulus<K: CircuitField>() -> BigUint {
    K::modulus()
}

pub fn to_k<K: CircuitField>(v: &BigUint) -> K {
    K::from_biguint(&(v % K::modulus())).expect("reduced value")
}

pub fn f_of_big(v: &BigUint) -> F {
    let mut b = v.to_bytes_le();
    assert!(b.len() <= 32, "native value too large");
    b.resize(32, 0);
    let mut repr = <F as PrimeField>::Repr::default();
    repr.as_mut().copy_from_slice(&b);
    Option::<F>::from(F::from_repr(repr)).expect("canonical native value")
}

pub fn big_of_f(f: &F) -> BigUint {
    BigUint::from_bytes_le(f.to_repr().as_ref())
}

pub fn log2_base<K: Emu>() -> u32
where
    MEP: FieldEmulationParams<F, K>,
{
    <MEP as FieldEmulationParams<F, K>>::LOG2_BASE
}
pub fn nb_limbs<K: Emu>() -> usize
where
    MEP: FieldEmulationParams<F, K>,
{
    <MEP as FieldEmulationParams<F, K>>::NB_LIMBS as usize
}

/// Documented public-input encoding of an emulated element.
pub fn encode_fe<K: Emu>(x: &BigUint) -> Vec<F>
where
    MEP: FieldEmulationParams<F, K>,
{
    let m = modulus::<K>();
    let mut v = ((x % &m) + &m - BigUint::one()) % &m;
    let base = BigUint::one() << log2_base::<K>();
    let mut out = vec![];
    for _ in 0..nb_limbs::<K>() {
        out.push(f_of_big(&(&v % &base)));
        v >>= log2_base::<K>();
    }
    assert!(v.is_zero());
    out
}

/// Decodes limbs (as integers of the native field elements) into (residue, all limbs within the
/// well-formed bounds).
pub fn decode_fe<K: Emu>(limbs: &[F]) -> (BigUint, bool)
where
    MEP: FieldEmulationParams<F, K>,
{
    let m = modulus::<K>();
    let b = log2_base::<K>();
    let n = nb_limbs::<K>();
    let msl_bits = m.bits() as u32 - (n as u32 - 1) * b;
    let mut acc = BigUint::zero();
    let mut well_formed = true;
    for (i, l) in limbs.iter().enumerate() {
        let li = big_of_f(l);
        let bound = if i == n - 1 { msl_bits } else { b };
        if li.bits() as u32 > bound {
            well_formed = false;
        }
        acc += li << (b as usize * i);
    }
    ((acc + BigUint::one()) % m, well_formed)
}

fn bits_of(x: &BigUint, n: usize) -> Vec<bool> {
    (0..n).map(|i| x.bit(i as u64)).collect()
}

fn legendre_is_square(x: &BigUint, m: &BigUint) -> bool {
    if x.is_zero() {
        return true;
    }
    let e = (m - BigUint::one()) >> 1;
    x.modpow(&e, m).is_one()
}

fn inv_mod(x: &BigUint, m: &BigUint) -> BigUint {
    x.modpow(&(m - BigUint::from(2u8)), m)
}

/// A program over one emulated field. `nonunique` marks programs whose documented contract allows
/// several outputs (non-canonical decompositions): only completeness is checked for them.
#[derive(Clone, Debug)]
pub struct FProg<K: Emu>
where
    MEP: FieldEmulationParams<F, K>,
{
    pub name: String,
    pub ins: Vec<Ins>,
    pub nonunique: bool,
    pub _k: std::marker::PhantomData<K>,
}

impl<K: Emu> FProg<K>
where
    MEP: FieldEmulationParams<F, K>,
{
    pub fn new(name: &str, ins: Vec<Ins>) -> Self {
        FProg {
            name: format!("{}/{}", K::TAG, name),
            ins,
            nonunique: false,
            _k: std::marker::PhantomData,
        }
    }
    pub fn nonunique(mut self) -> Self {
        self.nonunique = true;
        self
    }

    /// Reference evaluation: `None` = the circuit must be unsatisfiable (documented failure
    /// domain). Returns (input encodings, output values in order of `Out`).
    pub fn eval(&self, input: &FIn) -> Option<(Vec<F>, Vec<RV>)> {
        let m = modulus::<K>();
        let red = |v: &BigUint| v % &m;
        let mut regs: Vec<RV> = vec![];
        let mut ins_pi: Vec<F> = vec![];
        let mut outs: Vec<RV> = vec![];
        let fe = |regs: &Vec<RV>, r: R| -> BigUint {
            match &regs[r] {
                RV::Fe(v) => v.clone(),
                other => panic!("register {r} is not an element: {other:?}"),
            }
        };
        let bit = |regs: &Vec<RV>, r: R| -> bool {
            match &regs[r] {
                RV::Bit(v) => *v,
                other => panic!("register {r} is not a bit: {other:?}"),
            }
        };
        for ins in &self.ins {
            match ins {
                Ins::In(i) => {
                    let v = red(&input.fe[*i]);
                    ins_pi.extend(encode_fe::<K>(&v));
                    regs.push(RV::Fe(v));
                }
                Ins::InBit(i) => {
                    ins_pi.push(if input.bits[*i] { F::ONE } else { F::ZERO });
                    regs.push(RV::Bit(input.bits[*i]));
                }
                Ins::InBits(i, n) => {
                    let v = input.bits[*i..*i + *n].to_vec();
                    ins_pi.extend(v.iter().map(|b| if *b { F::ONE } else { F::ZERO }));
                    regs.push(RV::Bits(v));
                }
                Ins::InBytes(i, n) => {
                    let v = input.bytes[*i..*i + *n].to_vec();
                    ins_pi.extend(v.iter().map(|b| F::from(*b as u64)));
                    regs.push(RV::Bytes(v));
                }
                Ins::Fix(c) => regs.push(RV::Fe(red(c))),
                Ins::Add(a, b) => regs.push(RV::Fe(red(&(fe(&regs, *a) + fe(&regs, *b))))),
                Ins::Sub(a, b) => regs.push(RV::Fe(red(&(fe(&regs, *a) + &m - fe(&regs, *b))))),
                Ins::Neg(a) => regs.push(RV::Fe(red(&(&m - fe(&regs, *a))))),
                Ins::Mul(a, b) => regs.push(RV::Fe(red(&(fe(&regs, *a) * fe(&regs, *b))))),
                Ins::MulK(a, b, k) => regs.push(RV::Fe(red(&(fe(&regs, *a) * fe(&regs, *b) * red(k))))),
                Ins::Sq(a) => regs.push(RV::Fe(red(&(fe(&regs, *a) * fe(&regs, *a))))),
                Ins::Div(a, b) => {
                    let y = fe(&regs, *b);
                    if y.is_zero() {
                        return None;
                    }
                    regs.push(RV::Fe(red(&(fe(&regs, *a) * inv_mod(&y, &m)))));
                }
                Ins::Inv(a) => {
                    let x = fe(&regs, *a);
                    if x.is_zero() {
                        return None;
                    }
                    regs.push(RV::Fe(inv_mod(&x, &m)));
                }
                Ins::Inv0(a) => {
                    let x = fe(&regs, *a);
                    regs.push(RV::Fe(if x.is_zero() { x } else { inv_mod(&x, &m) }));
                }
                Ins::AddC(a, c) => regs.push(RV::Fe(red(&(fe(&regs, *a) + red(c))))),
                Ins::MulC(a, c) => regs.push(RV::Fe(red(&(fe(&regs, *a) * red(c))))),
                Ins::Pow(a, n) => regs.push(RV::Fe(fe(&regs, *a).modpow(&BigUint::from(*n), &m))),
                Ins::Lin(terms, c) => {
                    let mut acc = red(c);
                    for (k, r) in terms {
                        acc = red(&(acc + red(k) * fe(&regs, *r)));
                    }
                    regs.push(RV::Fe(acc));
                }
                Ins::AddAndMul((a, x), (b, y), (c, z), k, mm) => {
                    let (xv, yv, zv) = (fe(&regs, *x), fe(&regs, *y), fe(&regs, *z));
                    let v = red(a) * &xv + red(b) * &yv + red(c) * &zv + red(k) + red(mm) * &xv * &yv;
                    regs.push(RV::Fe(red(&v)));
                }
                Ins::IsZero(a) => regs.push(RV::Bit(fe(&regs, *a).is_zero())),
                Ins::IsEq(a, b) => regs.push(RV::Bit(fe(&regs, *a) == fe(&regs, *b))),
                Ins::IsNeq(a, b) => regs.push(RV::Bit(fe(&regs, *a) != fe(&regs, *b))),
                Ins::IsEqC(a, c) => regs.push(RV::Bit(fe(&regs, *a) == red(c))),
                Ins::IsNeqC(a, c) => regs.push(RV::Bit(fe(&regs, *a) != red(c))),
                Ins::AssertEq(a, b) => {
                    if fe(&regs, *a) != fe(&regs, *b) {
                        return None;
                    }
                    regs.push(RV::None);
                }
                Ins::AssertNeq(a, b) => {
                    if fe(&regs, *a) == fe(&regs, *b) {
                        return None;
                    }
                    regs.push(RV::None);
                }
                Ins::AssertEqC(a, c) => {
                    if fe(&regs, *a) != red(c) {
                        return None;
                    }
                    regs.push(RV::None);
                }
                Ins::AssertNeqC(a, c) => {
                    if fe(&regs, *a) == red(c) {
                        return None;
                    }
                    regs.push(RV::None);
                }
                Ins::AssertZero(a) => {
                    if !fe(&regs, *a).is_zero() {
                        return None;
                    }
                    regs.push(RV::None);
                }
                Ins::AssertNonZero(a) => {
                    if fe(&regs, *a).is_zero() {
                        return None;
                    }
                    regs.push(RV::None);
                }
                Ins::Select(c, x, y) => {
                    let v = if bit(&regs, *c) { fe(&regs, *x) } else { fe(&regs, *y) };
                    regs.push(RV::Fe(v));
                }
                Ins::CondSwap(c, x, y) => {
                    let (xv, yv) = (fe(&regs, *x), fe(&regs, *y));
                    if bit(&regs, *c) {
                        regs.push(RV::Fe(yv));
                        regs.push(RV::Fe(xv));
                    } else {
                        regs.push(RV::Fe(xv));
                        regs.push(RV::Fe(yv));
                    }
                }
                Ins::CondAssertEq(c, x, y) => {
                    if bit(&regs, *c) && fe(&regs, *x) != fe(&regs, *y) {
                        return None;
                    }
                    regs.push(RV::None);
                }
                Ins::ToLeBits(a, n, _) | Ins::ToBeBits(a, n, _) => {
                    let x = fe(&regs, *a);
                    let n = n.unwrap_or(K::NUM_BITS as usize);
                    if x.bits() as usize > n {
                        return None;
                    }
                    let mut v = bits_of(&x, n);
                    if matches!(ins, Ins::ToBeBits(..)) {
                        v.reverse();
                    }
                    regs.push(RV::Bits(v));
                }
                Ins::ToLeBytes(a, n) | Ins::ToBeBytes(a, n) => {
                    let x = fe(&regs, *a);
                    let n = n.unwrap_or((K::NUM_BITS as usize).div_ceil(8));
                    if x.bits() as usize > 8 * n {
                        return None;
                    }
                    let mut v = x.to_bytes_le();
                    v.resize(n, 0);
                    if matches!(ins, Ins::ToBeBytes(..)) {
                        v.reverse();
                    }
                    regs.push(RV::Bytes(v));
                }
                Ins::FromLeBits(r) | Ins::FromBeBits(r) => {
                    let mut v = match &regs[*r] {
                        RV::Bits(v) => v.clone(),
                        o => panic!("not bits: {o:?}"),
                    };
                    if matches!(ins, Ins::FromBeBits(..)) {
                        v.reverse();
                    }
                    let mut acc = BigUint::zero();
                    for (i, b) in v.iter().enumerate() {
                        if *b {
                            acc.set_bit(i as u64, true);
                        }
                    }
                    regs.push(RV::Fe(red(&acc)));
                }
                Ins::FromLeBytes(r) | Ins::FromBeBytes(r) => {
                    let mut v = match &regs[*r] {
                        RV::Bytes(v) => v.clone(),
                        o => panic!("not bytes: {o:?}"),
                    };
                    if matches!(ins, Ins::FromBeBytes(..)) {
                        v.reverse();
                    }
                    regs.push(RV::Fe(red(&BigUint::from_bytes_le(&v))));
                }
                Ins::ToLeChunks(a, bpc, nb) => {
                    let x = fe(&regs, *a);
                    let nb = nb.unwrap_or_else(|| {
                        let b = log2_base::<K>() as usize;
                        if b % bpc == 0 {
                            (b / bpc) * nb_limbs::<K>()
                        } else {
                            (K::NUM_BITS as usize).div_ceil(*bpc)
                        }
                    });
                    if x.bits() as usize > bpc * nb {
                        return None;
                    }
                    let mask = (BigUint::one() << *bpc) - BigUint::one();
                    regs.push(RV::Nats((0..nb).map(|i| (&x >> (i * bpc)) & &mask).collect()));
                }
                Ins::Sgn0(a) => regs.push(RV::Bit(fe(&regs, *a).bit(0))),
                Ins::IsSquare(a) => regs.push(RV::Bit(legendre_is_square(&fe(&regs, *a), &m))),
                Ins::ConvBit(r) => regs.push(RV::Fe(if bit(&regs, *r) { BigUint::one() } else { BigUint::zero() })),
                Ins::ConvByte(r) => {
                    let v = match &regs[*r] {
                        RV::Bytes(v) => v[0],
                        o => panic!("not bytes: {o:?}"),
                    };
                    regs.push(RV::Fe(BigUint::from(v)));
                }
                Ins::Out(r) => {
                    outs.push(regs[*r].clone());
                    regs.push(RV::None);
                }
            }
        }
        Some((ins_pi, outs))
    }

    pub fn encode_outs(outs: &[RV]) -> Vec<F> {
        let mut v = vec![];
        for o in outs {
            match o {
                RV::Fe(x) => v.extend(encode_fe::<K>(x)),
                RV::Bit(b) => v.push(if *b { F::ONE } else { F::ZERO }),
                RV::Bits(bs) => v.extend(bs.iter().map(|b| if *b { F::ONE } else { F::ZERO })),
                RV::Bytes(bs) => v.extend(bs.iter().map(|b| F::from(*b as u64))),
                RV::Nats(ns) => v.extend(ns.iter().map(f_of_big)),
                RV::None => {}
            }
        }
        v
    }

    /// Semantic comparison of a forged output vector with the reference outputs:
    /// `Same` (identical), `SameResidue` (emulated outputs are other well-formed representations
    /// of the same residues, everything else identical), `Different`.
    pub fn compare_outputs(outs: &[RV], forged: &[F]) -> OutCmp {
        let expected = Self::encode_outs(outs);
        if expected.len() != forged.len() {
            return OutCmp::Different;
        }
        if expected == forged {
            return OutCmp::Same;
        }
        let mut pos = 0;
        for o in outs {
            match o {
                RV::Fe(x) => {
                    let n = nb_limbs::<K>();
                    let (res, wf) = decode_fe::<K>(&forged[pos..pos + n]);
                    if !wf || res != *x {
                        return OutCmp::Different;
                    }
                    pos += n;
                }
                other => {
                    let e = Self::encode_outs(std::slice::from_ref(other));
                    if forged[pos..pos + e.len()] != e[..] {
                        return OutCmp::Different;
                    }
                    pos += e.len();
                }
            }
        }
        OutCmp::SameResidue
    }

    /// Runs the program on a chip.
    pub fn run<N: NatOps>(&self, chip: &Chip<K>, nat: &N, l: &mut impl Layouter<F>, input: Value<FIn>) -> Result<(), Error> {
        let kc = |v: &BigUint| to_k::<K>(v);
        let mut regs: Vec<Reg<K>> = vec![];
        macro_rules! fe {
            ($r:expr) => {
                match &regs[$r] {
                    Reg::Fe(x) => x.clone(),
                    _ => panic!("register {} is not an element", $r),
                }
            };
        }
        macro_rules! bit {
            ($r:expr) => {
                match &regs[$r] {
                    Reg::Bit(x) => x.clone(),
                    _ => panic!("register {} is not a bit", $r),
                }
            };
        }
        for ins in &self.ins {
            match ins {
                Ins::In(i) => {
                    let x: AF<K> = chip.assign(l, input.clone().map(|w| kc(&w.fe[*i])))?;
                    chip.constrain_as_public_input(l, &x)?;
                    regs.push(Reg::Fe(x));
                }
                Ins::InBit(i) => {
                    let b = nat.a_bit(l, input.clone().map(|w| w.bits[*i]))?;
                    nat.pi_bit(l, &b)?;
                    regs.push(Reg::Bit(b));
                }
                Ins::InBits(i, n) => {
                    let mut v = vec![];
                    for j in 0..*n {
                        let b = nat.a_bit(l, input.clone().map(|w| w.bits[*i + j]))?;
                        nat.pi_bit(l, &b)?;
                        v.push(b);
                    }
                    regs.push(Reg::Bits(v));
                }
                Ins::InBytes(i, n) => {
                    let mut v = vec![];
                    for j in 0..*n {
                        let b = nat.a_byte(l, input.clone().map(|w| w.bytes[*i + j]))?;
                        nat.pi_byte(l, &b)?;
                        v.push(b);
                    }
                    regs.push(Reg::Bytes(v));
                }
                Ins::Fix(c) => {
                    let x: AF<K> = chip.assign_fixed(l, kc(c))?;
                    regs.push(Reg::Fe(x));
                }
                Ins::Add(a, b) => regs.push(Reg::Fe(chip.add(l, &fe!(*a), &fe!(*b))?)),
                Ins::Sub(a, b) => regs.push(Reg::Fe(chip.sub(l, &fe!(*a), &fe!(*b))?)),
                Ins::Neg(a) => regs.push(Reg::Fe(chip.neg(l, &fe!(*a))?)),
                Ins::Mul(a, b) => regs.push(Reg::Fe(chip.mul(l, &fe!(*a), &fe!(*b), None)?)),
                Ins::MulK(a, b, k) => regs.push(Reg::Fe(chip.mul(l, &fe!(*a), &fe!(*b), Some(kc(k)))?)),
                Ins::Sq(a) => regs.push(Reg::Fe(chip.square(l, &fe!(*a))?)),
                Ins::Div(a, b) => regs.push(Reg::Fe(chip.div(l, &fe!(*a), &fe!(*b))?)),
                Ins::Inv(a) => regs.push(Reg::Fe(chip.inv(l, &fe!(*a))?)),
                Ins::Inv0(a) => regs.push(Reg::Fe(chip.inv0(l, &fe!(*a))?)),
                Ins::AddC(a, c) => regs.push(Reg::Fe(chip.add_constant(l, &fe!(*a), kc(c))?)),
                Ins::MulC(a, c) => regs.push(Reg::Fe(chip.mul_by_constant(l, &fe!(*a), kc(c))?)),
                Ins::Pow(a, n) => regs.push(Reg::Fe(chip.pow(l, &fe!(*a), *n)?)),
                Ins::Lin(terms, c) => {
                    let ts: Vec<(K, AF<K>)> = terms.iter().map(|(k, r)| (kc(k), fe!(*r))).collect();
                    regs.push(Reg::Fe(chip.linear_combination(l, &ts, kc(c))?));
                }
                Ins::AddAndMul((a, x), (b, y), (c, z), k, mm) => {
                    let (xv, yv, zv) = (fe!(*x), fe!(*y), fe!(*z));
                    regs.push(Reg::Fe(chip.add_and_mul(l, (kc(a), &xv), (kc(b), &yv), (kc(c), &zv), kc(k), kc(mm))?));
                }
                Ins::IsZero(a) => regs.push(Reg::Bit(chip.is_zero(l, &fe!(*a))?)),
                Ins::IsEq(a, b) => regs.push(Reg::Bit(chip.is_equal(l, &fe!(*a), &fe!(*b))?)),
                Ins::IsNeq(a, b) => regs.push(Reg::Bit(chip.is_not_equal(l, &fe!(*a), &fe!(*b))?)),
                Ins::IsEqC(a, c) => regs.push(Reg::Bit(chip.is_equal_to_fixed(l, &fe!(*a), kc(c))?)),
                Ins::IsNeqC(a, c) => regs.push(Reg::Bit(chip.is_not_equal_to_fixed(l, &fe!(*a), kc(c))?)),
                Ins::AssertEq(a, b) => {
                    chip.assert_equal(l, &fe!(*a), &fe!(*b))?;
                    regs.push(Reg::None);
                }
                Ins::AssertNeq(a, b) => {
                    chip.assert_not_equal(l, &fe!(*a), &fe!(*b))?;
                    regs.push(Reg::None);
                }
                Ins::AssertEqC(a, c) => {
                    chip.assert_equal_to_fixed(l, &fe!(*a), kc(c))?;
                    regs.push(Reg::None);
                }
                Ins::AssertNeqC(a, c) => {
                    chip.assert_not_equal_to_fixed(l, &fe!(*a), kc(c))?;
                    regs.push(Reg::None);
                }
                Ins::AssertZero(a) => {
                    chip.assert_zero(l, &fe!(*a))?;
                    regs.push(Reg::None);
                }
                Ins::AssertNonZero(a) => {
                    chip.assert_non_zero(l, &fe!(*a))?;
                    regs.push(Reg::None);
                }
                Ins::Select(c, x, y) => regs.push(Reg::Fe(chip.select(l, &bit!(*c), &fe!(*x), &fe!(*y))?)),
                Ins::CondSwap(c, x, y) => {
                    let (p, q) = chip.cond_swap(l, &bit!(*c), &fe!(*x), &fe!(*y))?;
                    regs.push(Reg::Fe(p));
                    regs.push(Reg::Fe(q));
                }
                Ins::CondAssertEq(c, x, y) => {
                    chip.cond_assert_equal(l, &bit!(*c), &fe!(*x), &fe!(*y))?;
                    regs.push(Reg::None);
                }
                Ins::ToLeBits(a, n, c) => regs.push(Reg::Bits(chip.assigned_to_le_bits(l, &fe!(*a), *n, *c)?)),
                Ins::ToBeBits(a, n, c) => regs.push(Reg::Bits(chip.assigned_to_be_bits(l, &fe!(*a), *n, *c)?)),
                Ins::ToLeBytes(a, n) => regs.push(Reg::Bytes(chip.assigned_to_le_bytes(l, &fe!(*a), *n)?)),
                Ins::ToBeBytes(a, n) => regs.push(Reg::Bytes(chip.assigned_to_be_bytes(l, &fe!(*a), *n)?)),
                Ins::FromLeBits(r) | Ins::FromBeBits(r) => {
                    let v = match &regs[*r] {
                        Reg::Bits(v) => v.clone(),
                        _ => panic!("not bits"),
                    };
                    let x = if matches!(ins, Ins::FromLeBits(..)) {
                        chip.assigned_from_le_bits(l, &v)?
                    } else {
                        chip.assigned_from_be_bits(l, &v)?
                    };
                    regs.push(Reg::Fe(x));
                }
                Ins::FromLeBytes(r) | Ins::FromBeBytes(r) => {
                    let v = match &regs[*r] {
                        Reg::Bytes(v) => v.clone(),
                        _ => panic!("not bytes"),
                    };
                    let x = if matches!(ins, Ins::FromLeBytes(..)) {
                        chip.assigned_from_le_bytes(l, &v)?
                    } else {
                        chip.assigned_from_be_bytes(l, &v)?
                    };
                    regs.push(Reg::Fe(x));
                }
                Ins::ToLeChunks(a, bpc, nb) => regs.push(Reg::Nats(chip.assigned_to_le_chunks(l, &fe!(*a), *bpc, *nb)?)),
                Ins::Sgn0(a) => regs.push(Reg::Bit(chip.sgn0(l, &fe!(*a))?)),
                Ins::IsSquare(a) => regs.push(Reg::Bit(chip.is_square(l, &fe!(*a))?)),
                Ins::ConvBit(r) => {
                    let x: AF<K> = chip.convert(l, &bit!(*r))?;
                    regs.push(Reg::Fe(x));
                }
                Ins::ConvByte(r) => {
                    let b = match &regs[*r] {
                        Reg::Bytes(v) => v[0].clone(),
                        _ => panic!("not bytes"),
                    };
                    let x: AF<K> = chip.convert(l, &b)?;
                    regs.push(Reg::Fe(x));
                }
                Ins::Out(r) => {
                    match &regs[*r] {
                        Reg::Fe(x) => chip.constrain_as_public_input(l, x)?,
                        Reg::Bit(b) => nat.pi_bit(l, b)?,
                        Reg::Bits(v) => {
                            for b in v {
                                nat.pi_bit(l, b)?
                            }
                        }
                        Reg::Bytes(v) => {
                            for b in v {
                                nat.pi_byte(l, b)?
                            }
                        }
                        Reg::Nats(v) => {
                            for b in v {
                                nat.pi_nat(l, b)?
                            }
                        }
                        Reg::None => {}
                    }
                    regs.push(Reg::None);
                }
            }
        }
        Ok(())
    }
}

#[derive(Clone, Copy, Debug, PartialEq, Eq)]
pub enum OutCmp {
    Same,
    SameResidue,
    Different,
}

impl<K: Emu> OpSpec for FProg<K>
where
    MEP: FieldEmulationParams<F, K>,
{
    type In = FIn;
    fn name(&self) -> String {
        self.name.clone()
    }
    fn arch(&self) -> ZkStdLibArch {
        K::arch().expect("stdlib field")
    }
    fn synth(&self, s: &ZkStdLib, l: &mut impl Layouter<F>, input: Value<FIn>) -> Result<(), Error> {
        self.run(K::chip(s), s, l, input)
    }
    fn reference(&self, input: &FIn) -> Option<Vec<F>> {
        let (mut pi, outs) = self.eval(input)?;
        pi.extend(Self::encode_outs(&outs));
        Some(pi)
    }
    fn n_input_positions(&self, input: &FIn) -> usize {
        // inputs are always encodable, whatever happens later in the program
        let mut n = 0;
        for i in &self.ins {
            n += match i {
                Ins::In(_) => nb_limbs::<K>(),
                Ins::InBit(_) => 1,
                Ins::InBits(_, k) | Ins::InBytes(_, k) => *k,
                _ => 0,
            };
        }
        let _ = input;
        n
    }
    fn extra_targets(&self, _pos: usize, honest: F) -> Vec<F> {
        vec![honest - F::ONE]
    }
}

