//! C05 — exact LLL over `BigInt` for the tiny lattices (dimension ≤ 12) behind the
//! "free auxiliary value" attack: if one of the auxiliary cells (quotient u, per-modulus v_j) of a
//! foreign-field identity were not range-checked, a short vector of the lattice of limb changes
//! that keep the *other* auxiliary values small is a forged result.

use num_bigint::BigInt;
use num_integer::Integer;
use num_traits::{One, Signed, Zero};

fn dot(a: &[BigInt], b: &[BigInt]) -> BigInt {
    a.iter().zip(b).map(|(x, y)| x * y).sum()
}

fn round_div(n: &BigInt, d: &BigInt) -> BigInt {
    // nearest integer to n/d, d > 0
    let two = BigInt::from(2);
    (n * &two + d).div_floor(&(d * &two))
}

/// Integral LLL (Cohen, Algorithm 2.6.7), delta = 3/4, rows of `b` reduced in place. The rows
/// must be linearly independent.
pub fn lll(b: &mut [Vec<BigInt>]) {
    let n = b.len();
    if n < 2 {
        return;
    }
    // 1-indexed bookkeeping: d[0] = 1, lam[i][j] for 1 <= j < i <= n
    let mut d: Vec<BigInt> = vec![BigInt::one(); n + 1];
    let mut lam: Vec<Vec<BigInt>> = vec![vec![BigInt::zero(); n + 1]; n + 1];
    d[1] = dot(&b[0], &b[0]);
    let mut k = 2usize;
    let mut kmax = 1usize;
    let mut guard = 0u64;
    fn red(b: &mut [Vec<BigInt>], d: &[BigInt], lam: &mut [Vec<BigInt>], k: usize, l: usize) {
        let two_l = &lam[k][l] * BigInt::from(2);
        if two_l.abs() <= d[l] {
            return;
        }
        let q = round_div(&lam[k][l], &d[l]);
        let bl = b[l - 1].clone();
        for (x, y) in b[k - 1].iter_mut().zip(bl.iter()) {
            *x -= &q * y;
        }
        lam[k][l] = &lam[k][l] - &q * &d[l];
        for i in 1..l {
            let t = &q * &lam[l][i];
            lam[k][i] -= t;
        }
    }
    while k <= n {
        guard += 1;
        if guard > 2_000_000 {
            return;
        }
        if k > kmax {
            kmax = k;
            for j in 1..=k {
                let mut u = dot(&b[k - 1], &b[j - 1]);
                for i in 1..j {
                    u = (&d[i] * &u - &lam[k][i] * &lam[j][i]) / &d[i - 1];
                }
                if j < k {
                    lam[k][j] = u;
                } else {
                    d[k] = u;
                }
            }
            if d[k].is_zero() {
                return; // dependent rows: give up
            }
        }
        loop {
            red(b, &d, &mut lam, k, k - 1);
            let lhs = &d[k] * &d[k - 2] * BigInt::from(4);
            let rhs = &d[k - 1] * &d[k - 1] * BigInt::from(3) - &lam[k][k - 1] * &lam[k][k - 1] * BigInt::from(4);
            if lhs < rhs {
                // SWAP(k)
                b.swap(k - 1, k - 2);
                for j in 1..k.saturating_sub(1) {
                    let t = lam[k][j].clone();
                    lam[k][j] = lam[k - 1][j].clone();
                    lam[k - 1][j] = t;
                }
                let l = lam[k][k - 1].clone();
                let bb = (&d[k - 2] * &d[k] + &l * &l) / &d[k - 1];
                for i in k + 1..=kmax {
                    let t = lam[i][k].clone();
                    lam[i][k] = (&d[k] * &lam[i][k - 1] - &l * &t) / &d[k - 1];
                    lam[i][k - 1] = (&bb * &t + &l * &lam[i][k]) / &d[k];
                }
                d[k - 1] = bb;
                k = k.max(3) - 1;
            } else {
                for l in (1..k.saturating_sub(1)).rev() {
                    red(b, &d, &mut lam, k, l);
                }
                k += 1;
                break;
            }
        }
    }
}

/// Short vectors y (dimension `d`) with `sum_i y_i * w[e][i] ≡ 0 (mod q)` for every equation e,
/// where coordinate i is allowed about `bits[i]` bits. Returns the reduced basis vectors whose
/// congruences hold exactly, shortest first.
pub fn short_kernel_vectors(w: &[Vec<BigInt>], q: &BigInt, bits: &[u32]) -> Vec<Vec<BigInt>> {
    let d = bits.len();
    let e = w.len();
    let tmax = *bits.iter().max().unwrap_or(&0);
    // scaling so that an admissible change has about 2^tmax in every coordinate
    let scale: Vec<BigInt> = bits.iter().map(|b| BigInt::one() << (tmax - b) as usize).collect();
    // penalty on the congruence coordinates
    let pen: BigInt = BigInt::one() << (tmax as usize + 2 * q.bits() as usize + 64);
    let mut basis: Vec<Vec<BigInt>> = vec![];
    for i in 0..d {
        let mut row = vec![BigInt::zero(); d + e];
        row[i] = scale[i].clone();
        for (k, eq) in w.iter().enumerate() {
            row[d + k] = eq[i].mod_floor(q) * &pen;
        }
        basis.push(row);
    }
    for k in 0..e {
        let mut row = vec![BigInt::zero(); d + e];
        row[d + k] = q * &pen;
        basis.push(row);
    }
    lll(&mut basis);
    let mut out: Vec<Vec<BigInt>> = vec![];
    for row in basis {
        if row[d..].iter().all(|x| x.is_zero()) && row[..d].iter().any(|x| !x.is_zero()) {
            out.push((0..d).map(|i| &row[i] / &scale[i]).collect());
        }
    }
    out.sort_by_key(|v| v.iter().zip(&scale).map(|(x, s)| (x * s).pow(2)).sum::<BigInt>());
    out
}

#[cfg(test)]
mod tests {
    use super::*;
    #[test]
    fn small() {
        let mut b = vec![vec![BigInt::from(1), BigInt::from(1), BigInt::from(1)], vec![BigInt::from(-1), BigInt::from(0), BigInt::from(2)], vec![BigInt::from(3), BigInt::from(5), BigInt::from(6)]];
        lll(&mut b);
        assert!(b[0].iter().map(|x| x * x).sum::<BigInt>() <= BigInt::from(3));
    }
}
