//! C05 — checks that do not fit the driver:
//!   * programs whose documented contract allows several outputs (non-canonical bit / chunk
//!     decompositions): the honest output is compared *semantically* (bits are bits, their weighted
//!     sum is the operand modulo m);
//!   * probes: a handful of fixed inputs for defects found while building this check, each with ONE
//!     stable signature (the catalogue itself stays away from those inputs so that the same defect
//!     does not show up under a dozen entry names).

use std::collections::BTreeMap;

use ff::Field;
use midnight_circuits::field::foreign::params::FieldEmulationParams;
use midnight_curves::Fq as F;
use midnight_proofs::circuit::Value;
use midnight_zk_stdlib::MidnightCircuit;
use mzv::{
    common::{catch_any, repo_file, Report},
    engines::{
        catalogue::{bound_instance, OpRel, OpSpec},
        ref_eval::{collect, CollectOpts},
    },
};
use num_bigint::BigUint;
use num_traits::{One, Zero};
use serde_json::json;

use super::{
    attack::{hexf, mock_accepts},
    big::{BIn, BIns, BProg},
    cat_field::b,
    ffield::{big_of_f, log2_base, modulus, Emu, FIn, FProg, Ins, MEP, RV},
};

#[derive(Debug, Clone)]
#[allow(dead_code)]
pub enum Honest {
    /// the circuit, with the instance it binds itself, is accepted by the reference evaluator and
    /// MockProver; payload = bound instance
    Accepted(Vec<F>),
    Rejected(String),
    Panic(String),
    SynthErr(String),
}

/// Honest run of `op` on `input`; the instance is whatever the circuit binds.
pub fn honest_run<O: OpSpec>(op: &O, input: &O::In, mbl: u8) -> Honest {
    let rel = OpRel(op.clone());
    let k = match catch_any(|| MidnightCircuit::new(&rel, Value::unknown(), Value::unknown(), Some(mbl)).min_k()) {
        Ok(k) => k,
        Err(p) => return Honest::Panic(format!("unknown witness: {} @{}", p.message, repo_file(&p.file))),
    };
    let circuit = MidnightCircuit::new(&rel, Value::known(vec![]), Value::known(input.clone()), Some(mbl));
    let mut t = match catch_any(|| collect::<F, _>(k, &circuit, &[vec![], vec![]], CollectOpts::default())) {
        Err(p) => return Honest::Panic(format!("{} @{}", p.message, repo_file(&p.file))),
        Ok(Err(e)) => return Honest::SynthErr(e),
        Ok(Ok(t)) => t,
    };
    let bound = bound_instance(&t, 1, &[]);
    for (i, v) in bound.iter().enumerate() {
        t.instance[1][i] = *v;
    }
    let fails = t.violations(3);
    if !fails.is_empty() {
        return Honest::Rejected(format!("{fails:?}"));
    }
    match mock_accepts(k, &rel, input, &bound, mbl, &BTreeMap::new()) {
        Ok(true) => Honest::Accepted(bound),
        other => Honest::Rejected(format!("MockProver: {other:?}")),
    }
}

fn limb0_all_ones<K: Emu>(x: &BigUint) -> bool
where
    MEP: FieldEmulationParams<F, K>,
{
    let m = modulus::<K>();
    let xm1 = ((x % &m) + &m - BigUint::one()) % &m;
    let mask = (BigUint::one() << log2_base::<K>()) - BigUint::one();
    (&xm1 & &mask) == mask
}

const SIG_P2: &str = "C05/emulated.assigned_to_le_bits[enforce_canonical=false]/rejects-honest@circuits/src/field/foreign/field_chip.rs limb0(x-1)=2^B-1";

/// Non-canonical decompositions: every admissible operand must be accepted, and the output the
/// circuit binds must be bits / chunks whose weighted sum is the operand modulo m.
pub fn check_nonunique<K: Emu>(prog: &FProg<K>, inputs: &[FIn], mbl: u8, rep: &mut Report)
where
    MEP: FieldEmulationParams<F, K>,
{
    let m = modulus::<K>();
    // weight of one output position: bits -> 1 bit, chunks -> chunk size
    let chunk_bits = prog
        .ins
        .iter()
        .find_map(|i| match i {
            Ins::ToLeChunks(_, bpc, _) => Some(*bpc),
            Ins::ToLeBits(..) => Some(1usize),
            _ => None,
        })
        .unwrap_or(1);
    for input in inputs {
        let Some((ins_pi, outs)) = prog.eval(input) else { continue };
        rep.eval();
        let x = &input.fe[0] % &m;
        let wit = json!({"op": prog.name, "input": format!("{input:?}"), "max_bit_len": mbl});
        let known_shape = limb0_all_ones::<K>(&x);
        match honest_run(prog, input, mbl) {
            Honest::Accepted(bound) => {
                let n_in = ins_pi.len();
                if bound[..n_in] != ins_pi[..] {
                    rep.violation(&format!("C05/{}/input-encoding", prog.name), "the circuit binds another encoding of the operand than the documented one", wit);
                    continue;
                }
                let expected_len = match &outs[0] {
                    RV::Bits(v) => v.len(),
                    RV::Nats(v) => v.len(),
                    _ => 0,
                };
                let got = &bound[n_in..];
                let mut acc = BigUint::zero();
                let mut in_range = true;
                for (i, g) in got.iter().enumerate() {
                    let gi = big_of_f(g);
                    if gi.bits() as usize > chunk_bits {
                        in_range = false;
                    }
                    acc += gi << (i * chunk_bits);
                }
                if got.len() != expected_len || !in_range || acc % &m != x {
                    rep.violation(
                        &format!("C05/{}/wrong-decomposition", prog.name),
                        &format!("honest non-canonical decomposition is not a decomposition of the operand: {} positions (documented {}), all in range: {in_range}", got.len(), expected_len),
                        json!({"op": prog.name, "input": format!("{input:?}"), "bound": bound.iter().map(hexf).collect::<Vec<_>>()}),
                    );
                } else {
                    rep.nontrivial(&(prog.name.clone(), format!("{input:?}")));
                    rep.count("nonunique.accepted_with_valid_decomposition");
                }
            }
            other => {
                let sig = if known_shape { SIG_P2.to_string() } else { format!("C05/{}/rejects-honest", prog.name) };
                rep.violation(
                    &sig,
                    &format!("an admissible operand has no accepted honest run with enforce_canonical = false (completeness): {other:?}"),
                    wit,
                );
            }
        }
    }
}

/// Fixed probes (one signature per defect).
pub fn run_probes(mbl: u8, rep: &mut Report) {
    type Bls = midnight_curves::Fp;
    type Sec = midnight_curves::k256::Fq;
    let one = BigUint::one();
    // P1: bytes of an element of a field whose bit length is not a multiple of 8
    {
        let p = FProg::<Bls>::new("probe/to_le_bytes[None]", vec![Ins::In(0), Ins::ToLeBytes(0, None), Ins::Out(1)]);
        let input = FIn::fe(vec![b(0x1234)]);
        rep.eval();
        let r = honest_run(&p, &input, mbl);
        let ok = match &r {
            Honest::Accepted(bound) => {
                let exp = p.reference(&input).unwrap();
                *bound == exp
            }
            _ => false,
        };
        if ok {
            rep.count("probe.P1.to_le_bytes_bls_base.ok");
        } else {
            rep.violation(
                "C05/emulated.assigned_to_le_bytes/panic@circuits/src/field/foreign/field_chip.rs NUM_BITS%8!=0",
                &format!("assigned_to_le_bytes(x, None) of a BLS12-381 base-field element (381 bits, documented default ceil(381/8) = 48 bytes) has no accepted honest run, even at key generation: {r:?}"),
                json!({"op": p.name, "input": format!("{input:?}")}),
            );
        }
        rep.nontrivial(&"probe-P1");
    }
    // P2 is raised by check_nonunique (same signature); make sure its trigger is always exercised
    {
        let p = FProg::<Sec>::new("probe/to_le_bits[None,non-canonical]", vec![Ins::In(0), Ins::ToLeBits(0, None, false), Ins::Out(1)]).nonunique();
        check_nonunique(&p, &[FIn::fe(vec![&one << 64usize]), FIn::fe(vec![b(12345)])], mbl, rep);
        rep.nontrivial(&"probe-P2");
    }
    // P3: chunk size that does not divide LOG2_BASE, with a requested number of chunks
    {
        let p = FProg::<Sec>::new("probe/to_le_chunks[5,Some(10)]", vec![Ins::In(0), Ins::ToLeChunks(0, 5, Some(10)), Ins::Out(1)]);
        let small = FIn::fe(vec![b(1000)]);
        let large = FIn::fe(vec![&one << 60usize]);
        rep.eval();
        let r_small = honest_run(&p, &small, mbl);
        let r_large = honest_run(&p, &large, mbl);
        let n_in = 4;
        let small_ok = matches!(&r_small, Honest::Accepted(bnd) if bnd.len() == n_in + 10);
        let large_rejected = !matches!(&r_large, Honest::Accepted(_));
        if small_ok && large_rejected {
            rep.count("probe.P3.to_le_chunks_nb_chunks.ok");
        } else {
            let n_out = |r: &Honest| match r {
                Honest::Accepted(bnd) => format!("accepted with {} chunks", bnd.len() - n_in),
                o => format!("{o:?}"),
            };
            rep.violation(
                "C05/emulated.assigned_to_le_chunks/nb_chunks-ignored@circuits/src/field/foreign/field_chip.rs chunk-size-not-dividing-LOG2_BASE",
                &format!(
                    "assigned_to_le_chunks(x, 5, Some(10)) must return 10 chunks and be unsatisfiable for x >= 2^50 (trait documentation); x = 1000: {}; x = 2^60: {}",
                    n_out(&r_small),
                    n_out(&r_large)
                ),
                json!({"op": p.name, "inputs": ["1000", "2^60"]}),
            );
        }
        rep.nontrivial(&"probe-P3");
    }
    // P4: mod_exp with exponent 1 (no reduction) and exponent 0 modulo 1
    {
        for (n, x, m, tag) in [(1u64, 255u64, 7u64, "n=1,x>=m"), (0, 5, 1, "n=0,m=1")] {
            let p = BProg::new(&format!("probe/mod_exp[n={n}]"), vec![BIns::In(0, 8), BIns::In(1, 8), BIns::ModExp(0, n, 1), BIns::Out(2)]);
            let input = BIn::big(vec![b(x), b(m)]);
            rep.eval();
            let r = honest_run(&p, &input, mbl);
            let exp = p.reference(&input).unwrap();
            match &r {
                Honest::Accepted(bound) if *bound == exp => rep.count(&format!("probe.P4.mod_exp[{tag}].ok")),
                _ => rep.violation(
                    &format!("C05/biguint.mod_exp/wrong-result@circuits/src/biguint/biguint_gadget.rs {tag}"),
                    &format!(
                        "mod_exp({x}, {n}, {m}) must be {} (documented: x^n % m); the honest circuit binds {}",
                        b(x).modpow(&b(n), &b(m)),
                        match &r {
                            Honest::Accepted(bound) => format!("{}", big_of_f(bound.last().unwrap())),
                            o => format!("{o:?}"),
                        }
                    ),
                    json!({"op": p.name, "input": format!("{input:?}")}),
                ),
            }
        }
        rep.nontrivial(&"probe-P4");
    }
    // cross-check (not an oracle): the repository's off-circuit encoder agrees with the documented
    // layout the reference uses, on every boundary class
    fn enc_check<K: Emu>(rep: &mut Report)
    where
        MEP: FieldEmulationParams<F, K>,
    {
        use midnight_circuits::types::{AssignedField, Instantiable};
        for (label, v) in super::cat_field::fe_classes::<K>() {
            let k = super::ffield::to_k::<K>(&v);
            let theirs = <AssignedField<F, K, MEP> as Instantiable<F>>::as_public_input(&k);
            if theirs == super::ffield::encode_fe::<K>(&v) {
                rep.count("selftest.offcircuit_encoder_matches_documented_layout");
            } else {
                rep.inconclusive(&format!("{}: AssignedField::as_public_input differs from the documented limb layout on class {label} (see C08)", K::TAG));
            }
        }
    }
    enc_check::<midnight_curves::k256::Fq>(rep);
    enc_check::<midnight_curves::k256::Fp>(rep);
    enc_check::<Bls>(rep);
    enc_check::<midnight_curves::curve25519::Fp>(rep);
    enc_check::<midnight_curves::curve25519::Scalar>(rep);
    let _ = F::ZERO;
}
