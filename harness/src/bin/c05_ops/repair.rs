//! C05 — donor-guided repair search (a malicious prover specialised for limb arithmetic).
//!
//! Same idea as `engines::ars` (start from an honest table, force some cells, repair every
//! violated constraint by changing further cells, depth first with a node budget) with two
//! additions that the limb gadgets need:
//!   * *donor tables*: honest tables of the same circuit on other inputs. When a violated
//!     constraint reads cells whose donor value differs from the current one, "take the donor's
//!     values for all of them" is tried first. This is how a forged limb gets a consistent
//!     range-check decomposition (the donor run decomposed exactly that value honestly) without
//!     the search having to understand decompositions;
//!   * *free outputs*: the copy constraints from output cells to the instance column can be
//!     dropped for the search, so the search may end on any output vector; the caller reads the
//!     vector back and compares it semantically with the reference.
//! A result is only a candidate; the caller confirms it with the reference evaluator (full),
//! MockProver (H2) and the real prover/verifier (H1) before reporting anything.

use std::collections::{BTreeMap, BTreeSet, HashMap, HashSet};

use ff::{Field, PrimeField};
use midnight_curves::Fq as F;
use midnight_proofs::plonk::Expression;
use mzv::engines::ref_eval::{CellRef, Failure, Tables};

type Cell = (usize, usize);

#[derive(Clone, Debug, PartialEq, Eq, PartialOrd, Ord)]
enum Con {
    Poly(usize, usize),
    Lookup(usize, usize),
    Class(usize),
}

struct PolyInfo {
    expr: Expression<F>,
    guard: Option<Expression<F>>,
    adv: Vec<(usize, i32)>,
    /// `Some(s)`: the polynomial is `selector_s * (...)`, hence zero wherever the selector is off
    gate_sel: Option<usize>,
}

fn gating_selector(e: &Expression<F>) -> Option<usize> {
    match e {
        Expression::Product(a, b) => match (&**a, &**b) {
            (Expression::Selector(s), _) | (_, Expression::Selector(s)) => Some(s.index()),
            (x, y) => gating_selector(x).or_else(|| gating_selector(y)),
        },
        _ => None,
    }
}

struct LookupInfo {
    inputs: Vec<Expression<F>>,
    in_adv: Vec<(usize, i32)>,
    table_has_advice: bool,
}

fn adv_queries(e: &Expression<F>) -> Vec<(usize, i32)> {
    let out = std::cell::RefCell::new(BTreeSet::new());
    e.evaluate(
        &|_| (),
        &|_| (),
        &|_| (),
        &|q| {
            out.borrow_mut().insert((q.column_index(), q.rotation().0));
        },
        &|_| (),
        &|_| (),
        &|_| (),
        &|_, _| (),
        &|_, _| (),
        &|_, _| (),
    );
    out.into_inner().into_iter().collect()
}

#[derive(Clone, Debug, Default)]
pub struct RepairStats {
    pub nodes: u64,
    pub dead_no_move: u64,
    pub dead_pinned: u64,
    pub full_checks: u64,
}

pub struct Repair<'a> {
    t: &'a mut Tables<F>,
    donors: Vec<&'a Tables<F>>,
    polys: Vec<PolyInfo>,
    lookups: Vec<LookupInfo>,
    /// (column) -> polys / lookups that query it, with the rotation
    poly_by_col: HashMap<usize, Vec<(usize, i32)>>,
    lookup_by_col: HashMap<usize, Vec<(usize, i32)>>,
    class_of: HashMap<Cell, usize>,
    classes: Vec<Vec<Cell>>,
    pinned: Vec<Option<F>>,
    table_sets: Vec<Option<HashSet<Vec<Vec<u8>>>>>,
    changed: BTreeSet<Cell>,
    undo: Vec<(Cell, F)>,
    watch: BTreeSet<Con>,
    pub stats: RepairStats,
    budget: u64,
    max_changed: usize,
    debug: bool,
}

impl<'a> Repair<'a> {
    /// `t.copies` must already have the free-output copies removed by the caller.
    pub fn new(t: &'a mut Tables<F>, donors: Vec<&'a Tables<F>>, scan: bool) -> Self {
        let mut polys = vec![];
        let mut gate_index: HashMap<(usize, usize), usize> = HashMap::new();
        for (gi, g) in t.cs.gates().iter().enumerate() {
            for (pi, p) in g.polynomials().iter().enumerate() {
                gate_index.insert((gi, pi), polys.len());
                polys.push(PolyInfo {
                    expr: p.clone(),
                    guard: None,
                    adv: adv_queries(p),
                    gate_sel: gating_selector(p),
                });
            }
        }
        let mut trash_index: HashMap<(usize, usize), usize> = HashMap::new();
        for (ti, tr) in t.cs.trashcans().iter().enumerate() {
            for (pi, p) in tr.constraint_expressions().iter().enumerate() {
                let mut q = adv_queries(p);
                q.extend(adv_queries(tr.selector()));
                q.sort();
                q.dedup();
                trash_index.insert((ti, pi), polys.len());
                polys.push(PolyInfo {
                    expr: p.clone(),
                    guard: Some(tr.selector().clone()),
                    adv: q,
                    gate_sel: None,
                });
            }
        }
        let lookups: Vec<LookupInfo> = t
            .cs
            .lookups()
            .iter()
            .map(|l| LookupInfo {
                inputs: l.input_expressions().clone(),
                in_adv: {
                    let mut v: Vec<(usize, i32)> = l.input_expressions().iter().flat_map(adv_queries).collect();
                    v.sort();
                    v.dedup();
                    v
                },
                table_has_advice: l.table_expressions().iter().any(|e| !adv_queries(e).is_empty()),
            })
            .collect();
        let mut poly_by_col: HashMap<usize, Vec<(usize, i32)>> = HashMap::new();
        for (pi, p) in polys.iter().enumerate() {
            for (c, r) in &p.adv {
                poly_by_col.entry(*c).or_default().push((pi, *r));
            }
        }
        let mut lookup_by_col: HashMap<usize, Vec<(usize, i32)>> = HashMap::new();
        for (li, l) in lookups.iter().enumerate() {
            for (c, r) in &l.in_adv {
                lookup_by_col.entry(*c).or_default().push((li, *r));
            }
        }
        // copy classes
        let mut class_of = HashMap::new();
        let mut classes = vec![];
        let mut pinned = vec![];
        for (_, members) in t.copy_classes() {
            let id = classes.len();
            let mut pin = None;
            let mut adv = vec![];
            for m in &members {
                match m {
                    CellRef::Fixed(..) | CellRef::Instance(..) => pin = Some(t.get(m)),
                    CellRef::Advice(c, r) => {
                        class_of.insert((*c, *r), id);
                        adv.push((*c, *r));
                    }
                }
            }
            classes.push(adv);
            pinned.push(pin);
        }
        // initially violated constraints
        let mut watch = BTreeSet::new();
        for f in if scan { t.violations(256) } else { vec![] } {
            match f {
                Failure::Gate { gate, poly, row, .. } => {
                    watch.insert(Con::Poly(gate_index[&(gate, poly)], row));
                }
                Failure::Trash { trash, poly, row, .. } => {
                    watch.insert(Con::Poly(trash_index[&(trash, poly)], row));
                }
                Failure::Lookup { lookup, row, .. } => {
                    watch.insert(Con::Lookup(lookup, row));
                }
                Failure::Copy { a, b } => {
                    for x in [a, b] {
                        if let CellRef::Advice(c, r) = x {
                            if let Some(id) = class_of.get(&(c, r)) {
                                watch.insert(Con::Class(*id));
                            }
                        }
                    }
                }
            }
        }
        let nl = lookups.len();
        Repair {
            t,
            donors,
            polys,
            lookups,
            poly_by_col,
            lookup_by_col,
            class_of,
            classes,
            pinned,
            table_sets: vec![None; nl],
            changed: BTreeSet::new(),
            undo: vec![],
            watch,
            stats: RepairStats::default(),
            budget: 0,
            max_changed: 0,
            debug: std::env::var("MZV_REPAIR_DEBUG").is_ok(),
        }
    }

    fn rot(&self, row: usize, r: i32) -> usize {
        (row as i64 + r as i64).rem_euclid(self.t.n as i64) as usize
    }

    fn set_adv(&mut self, cell: Cell, v: F) {
        let old = self.t.advice[cell.0][cell.1];
        self.undo.push((cell, old));
        self.t.advice[cell.0][cell.1] = v;
        self.changed.insert(cell);
    }

    fn rollback(&mut self, mark: usize, changed_before: &BTreeSet<Cell>) {
        while self.undo.len() > mark {
            let (cell, old) = self.undo.pop().unwrap();
            self.t.advice[cell.0][cell.1] = old;
        }
        self.changed = changed_before.clone();
    }

    /// Sets a cell and its whole copy class. `false` = pinned to another value, or a member was
    /// already changed to another value.
    fn assign_class(&mut self, cell: Cell, v: F) -> bool {
        match self.class_of.get(&cell).copied() {
            None => {
                if self.changed.contains(&cell) && self.t.advice[cell.0][cell.1] != v {
                    return false;
                }
                self.set_adv(cell, v);
                true
            }
            Some(id) => {
                if let Some(p) = self.pinned[id] {
                    if p != v {
                        self.stats.dead_pinned += 1;
                        return false;
                    }
                }
                let members = self.classes[id].clone();
                for m in &members {
                    if self.changed.contains(m) && self.t.advice[m.0][m.1] != v {
                        return false;
                    }
                }
                for m in members {
                    if self.t.advice[m.0][m.1] != v {
                        self.set_adv(m, v);
                    } else {
                        self.changed.insert(m);
                    }
                }
                true
            }
        }
    }

    fn ensure_table(&mut self, li: usize) {
        if self.table_sets[li].is_some() && !self.lookups[li].table_has_advice {
            return;
        }
        let l = &self.t.cs.lookups()[li];
        let mut set = HashSet::new();
        for r in 0..self.t.usable_rows {
            let key: Vec<Vec<u8>> =
                l.table_expressions().iter().map(|e| self.t.eval(e, r).to_repr().as_ref().to_vec()).collect();
            set.insert(key);
        }
        self.table_sets[li] = Some(set);
    }

    fn con_violated(&mut self, con: &Con) -> bool {
        match con {
            Con::Poly(pi, row) => {
                let p = &self.polys[*pi];
                if let Some(sel) = p.gate_sel {
                    if !self.t.selectors[sel][*row] {
                        return false;
                    }
                }
                if let Some(g) = &p.guard {
                    if self.t.eval(g, *row) == F::ZERO {
                        return false;
                    }
                } else if *row >= self.t.usable_rows {
                    return false;
                }
                self.t.eval(&p.expr, *row) != F::ZERO
            }
            Con::Lookup(li, row) => {
                if *row >= self.t.usable_rows {
                    return false;
                }
                self.ensure_table(*li);
                let key: Vec<Vec<u8>> =
                    self.lookups[*li].inputs.iter().map(|e| self.t.eval(e, *row).to_repr().as_ref().to_vec()).collect();
                !self.table_sets[*li].as_ref().unwrap().contains(&key)
            }
            Con::Class(id) => {
                let members = &self.classes[*id];
                let first = match self.pinned[*id] {
                    Some(p) => p,
                    None => match members.first() {
                        Some(m) => self.t.advice[m.0][m.1],
                        None => return false,
                    },
                };
                members.iter().any(|m| self.t.advice[m.0][m.1] != first)
            }
        }
    }

    fn violated(&mut self) -> Vec<Con> {
        let mut cands: BTreeSet<Con> = self.watch.clone();
        let changed: Vec<Cell> = self.changed.iter().copied().collect();
        for (c, r) in changed {
            if let Some(v) = self.poly_by_col.get(&c) {
                for (pi, rot) in v {
                    cands.insert(Con::Poly(*pi, self.rot(r, -rot)));
                }
            }
            if let Some(v) = self.lookup_by_col.get(&c) {
                for (li, rot) in v {
                    cands.insert(Con::Lookup(*li, self.rot(r, -rot)));
                }
            }
            if let Some(id) = self.class_of.get(&(c, r)) {
                cands.insert(Con::Class(*id));
            }
        }
        let mut out = vec![];
        for c in cands {
            if self.con_violated(&c) {
                out.push(c);
            }
        }
        out
    }

    fn cells_of(&self, con: &Con) -> Vec<Cell> {
        match con {
            Con::Poly(pi, row) => self.polys[*pi].adv.iter().map(|(c, r)| (*c, self.rot(*row, *r))).collect(),
            Con::Lookup(li, row) => self.lookups[*li].in_adv.iter().map(|(c, r)| (*c, self.rot(*row, *r))).collect(),
            Con::Class(id) => self.classes[*id].clone(),
        }
    }

    fn is_free(&self, cell: &Cell) -> bool {
        if self.changed.contains(cell) {
            return false;
        }
        match self.class_of.get(cell) {
            Some(id) => {
                // a pinned class whose members already equal the pin cannot move
                match self.pinned[*id] {
                    Some(p) => self.t.advice[cell.0][cell.1] != p,
                    None => !self.classes[*id].iter().any(|m| self.changed.contains(m)),
                }
            }
            None => true,
        }
    }

    fn eval_with(&mut self, expr: &Expression<F>, row: usize, cell: Cell, v: F) -> F {
        let old = self.t.advice[cell.0][cell.1];
        self.t.advice[cell.0][cell.1] = v;
        let r = self.t.eval(expr, row);
        self.t.advice[cell.0][cell.1] = old;
        r
    }

    fn solve_affine(&mut self, expr: &Expression<F>, row: usize, cell: Cell) -> Option<F> {
        let y0 = self.eval_with(expr, row, cell, F::ZERO);
        let y1 = self.eval_with(expr, row, cell, F::ONE);
        let y2 = self.eval_with(expr, row, cell, F::ONE + F::ONE);
        let slope = y1 - y0;
        if y2 - y1 != slope {
            return None;
        }
        let inv: Option<F> = slope.invert().into();
        Some(-y0 * inv?)
    }

    /// `Some(t)`: a lookup constrains this cell to `[0, 2^t)` on its row (range table); `None`: no
    /// lookup constrains it.
    fn max_bits(&mut self, cell: Cell) -> Option<u32> {
        let lk = self.lookup_by_col.get(&cell.0)?.clone();
        let old = self.t.advice[cell.0][cell.1];
        let mut best: Option<u32> = None;
        for (li, rot) in lk {
            let row = self.rot(cell.1, -rot);
            if row >= self.t.usable_rows {
                continue;
            }
            let con = Con::Lookup(li, row);
            let accepts = |s: &mut Self, v: F| {
                s.t.advice[cell.0][cell.1] = v;
                let r = !s.con_violated(&con);
                s.t.advice[cell.0][cell.1] = old;
                r
            };
            if accepts(self, F::from((1u64 << 40) - 1)) {
                continue; // lookup not active on this row
            }
            let mut tt = 0u32;
            for t in (0..=24u32).rev() {
                if accepts(self, F::from((1u64 << t) - 1)) {
                    tt = t;
                    break;
                }
            }
            best = Some(best.map_or(tt, |b| b.min(tt)));
        }
        best
    }

    fn slope_const(&mut self, expr: &Expression<F>, row: usize, cell: Cell) -> Option<F> {
        let y0 = self.eval_with(expr, row, cell, F::ZERO);
        let y1 = self.eval_with(expr, row, cell, F::ONE);
        let y2 = self.eval_with(expr, row, cell, F::ONE + F::ONE);
        if y2 - y1 != y1 - y0 {
            return None;
        }
        Some(y1 - y0)
    }

    /// Range-aware move for a linear constraint `-v + sum_j c_j a_j + r = 0` whose free cells are
    /// range-checked chunks `a_j` (weights `c_j`) and at most one unconstrained remainder `r`: the
    /// chunks take the base-2 digits of `v`, the remainder takes what is left. This is how a
    /// changed value gets a fresh range-check decomposition without a donor.
    fn decompose_move(&mut self, con: &Con, free: &[Cell]) -> Option<Vec<(Cell, F)>> {
        let Con::Poly(pi, row) = con else { return None };
        let expr = self.polys[*pi].expr.clone();
        let big = |f: &F| num_bigint::BigUint::from_bytes_le(f.to_repr().as_ref());
        let fe = |v: &num_bigint::BigUint| {
            let mut b = v.to_bytes_le();
            b.resize(32, 0);
            let mut repr = <F as PrimeField>::Repr::default();
            repr.as_mut().copy_from_slice(&b);
            Option::<F>::from(F::from_repr(repr))
        };
        let mut ranged: Vec<(Cell, F, u32)> = vec![];
        let mut others: Vec<(Cell, F)> = vec![];
        for c in free {
            let s = self.slope_const(&expr, *row, *c)?;
            if s == F::ZERO {
                continue;
            }
            match self.max_bits(*c) {
                Some(t) => ranged.push((*c, s, t)),
                None => others.push((*c, s)),
            }
        }
        if ranged.is_empty() || others.len() > 1 {
            return None;
        }
        // constant term with every free cell at zero
        let olds: Vec<(Cell, F)> = free.iter().map(|c| (*c, self.t.advice[c.0][c.1])).collect();
        for c in free {
            self.t.advice[c.0][c.1] = F::ZERO;
        }
        let k = self.t.eval(&expr, *row);
        for (c, o) in &olds {
            self.t.advice[c.0][c.1] = *o;
        }
        let half = big(&-F::ONE) >> 1;
        let neg = match others.first() {
            Some((_, s)) if *s == F::ONE => false,
            Some((_, s)) if *s == -F::ONE => true,
            Some(_) => return None,
            None => big(&ranged[0].1) > half,
        };
        let sgn = |x: F| if neg { -x } else { x };
        let mut rem = big(&sgn(-k));
        let mut rs: Vec<(Cell, num_bigint::BigUint, u32)> = vec![];
        for (c, s, t) in &ranged {
            let w = big(&sgn(*s));
            if w > half || w == num_bigint::BigUint::from(0u8) {
                return None;
            }
            rs.push((*c, w, *t));
        }
        rs.sort_by(|a, b| a.1.cmp(&b.1));
        let mut mv: Vec<(Cell, F)> = vec![];
        for (c, w, t) in rs {
            let digit = (&rem / &w) & ((num_bigint::BigUint::from(1u8) << t) - num_bigint::BigUint::from(1u8));
            rem -= &w * &digit;
            mv.push((c, fe(&digit)?));
        }
        match others.first() {
            Some((c, _)) => mv.push((*c, fe(&rem)?)),
            None => {
                if rem != num_bigint::BigUint::from(0u8) {
                    return None;
                }
            }
        }
        mv.retain(|(c, v)| self.t.advice[c.0][c.1] != *v);
        if mv.is_empty() {
            None
        } else {
            Some(mv)
        }
    }

    /// Finds the row of the multiplication / normalisation identity that reads one cell of every
    /// given output-limb class, its auxiliary cells (not pinned, not output limbs) and the partial
    /// derivatives of its polynomials with respect to the limbs and the auxiliary cells.
    pub fn identity_row(&mut self, z_classes: &[Vec<Cell>]) -> Option<IdentityRow> {
        let first = z_classes.first()?;
        let mut by_row: BTreeMap<usize, Vec<usize>> = BTreeMap::new();
        for m in first {
            let Some(v) = self.poly_by_col.get(&m.0).cloned() else { continue };
            for (pi, rot) in v {
                let row = self.rot(m.1, -rot);
                if let Some(sel) = self.polys[pi].gate_sel {
                    if !self.t.selectors[sel][row] {
                        continue;
                    }
                }
                let cells = self.cells_of(&Con::Poly(pi, row));
                if z_classes.iter().all(|cl| cl.iter().any(|c| cells.contains(c))) {
                    let e = by_row.entry(row).or_default();
                    if !e.contains(&pi) {
                        e.push(pi);
                    }
                }
            }
        }
        // the last such row: the identity whose result feeds the exposure; then every polynomial
        // of that row that reads one of the limbs (the per-modulus identities read fewer limbs)
        let (row, _) = by_row.into_iter().next_back()?;
        let z_set: BTreeSet<Cell> = z_classes.iter().flatten().copied().collect();
        let mut polys: Vec<usize> = vec![];
        for pi in 0..self.polys.len() {
            if let Some(sel) = self.polys[pi].gate_sel {
                if !self.t.selectors[sel][row] {
                    continue;
                }
            } else {
                continue;
            }
            if self.cells_of(&Con::Poly(pi, row)).iter().any(|c| z_set.contains(c)) {
                polys.push(pi);
            }
        }
        let mut z_cells: Vec<Cell> = vec![];
        let all_cells: BTreeSet<Cell> = polys.iter().flat_map(|pi| self.cells_of(&Con::Poly(*pi, row))).collect();
        for cl in z_classes {
            z_cells.push(*cl.iter().find(|c| all_cells.contains(c))?);
        }
        let z_all: BTreeSet<Cell> = z_classes.iter().flatten().copied().collect();
        let aux: Vec<Cell> = all_cells
            .iter()
            .filter(|c| !z_all.contains(c))
            .filter(|c| match self.class_of.get(c) {
                Some(id) => self.pinned[*id].is_none(),
                None => true,
            })
            .copied()
            .collect();
        if aux.len() != polys.len() {
            return None;
        }
        let mut dz = vec![];
        let mut da = vec![];
        for pi in &polys {
            let expr = self.polys[*pi].expr.clone();
            let mut rz = vec![];
            for c in &z_cells {
                rz.push(self.slope_const(&expr, row, *c)?);
            }
            let mut ra = vec![];
            for c in &aux {
                ra.push(self.slope_const(&expr, row, *c)?);
            }
            dz.push(rz);
            da.push(ra);
        }
        let aux_values = aux.iter().map(|c| self.t.advice[c.0][c.1]).collect();
        Some(IdentityRow {
            row,
            aux,
            dz,
            da,
            aux_values,
        })
    }

    /// Would the constraint hold after setting these cells (only the cells, not their classes)?
    fn satisfied_after(&mut self, con: &Con, mv: &[(Cell, F)]) -> bool {
        let olds: Vec<F> = mv.iter().map(|(c, _)| self.t.advice[c.0][c.1]).collect();
        for (c, v) in mv {
            self.t.advice[c.0][c.1] = *v;
        }
        let ok = !self.con_violated(con);
        for ((c, _), o) in mv.iter().zip(olds) {
            self.t.advice[c.0][c.1] = o;
        }
        ok
    }

    /// Moves for a violated constraint, in the order they are tried. `.0` = commit: the move is a
    /// donor transplant that satisfies the constraint on its own; when the search below it fails,
    /// the alternatives for this constraint are not explored.
    fn moves(&mut self, con: &Con) -> Vec<(bool, Vec<(Cell, F)>)> {
        let cells = self.cells_of(con);
        let mut out: Vec<(bool, Vec<(Cell, F)>)> = vec![];
        if let Con::Class(id) = con {
            let mut vals: Vec<F> = vec![];
            if let Some(p) = self.pinned[*id] {
                vals.push(p);
            } else {
                // a changed member dictates the value; otherwise donors, then member values
                let forced: Vec<F> =
                    cells.iter().filter(|m| self.changed.contains(m)).map(|m| self.t.advice[m.0][m.1]).collect();
                if !forced.is_empty() {
                    vals.push(forced[0]);
                } else {
                    for d in &self.donors {
                        for m in &cells {
                            vals.push(d.advice[m.0][m.1]);
                        }
                    }
                    for m in &cells {
                        vals.push(self.t.advice[m.0][m.1]);
                    }
                }
            }
            let mut seen = HashSet::new();
            for v in vals {
                if seen.insert(v.to_repr().as_ref().to_vec()) {
                    if let Some(m) = cells.first() {
                        out.push((false, vec![(*m, v)]));
                    }
                }
            }
            return out;
        }
        let free: Vec<Cell> = cells.into_iter().filter(|c| self.is_free(c)).collect();
        let mut sat_donor: Vec<Vec<(Cell, F)>> = vec![];
        let mut unsat_donor: Vec<Vec<(Cell, F)>> = vec![];
        for d in self.donors.clone() {
            let all: Vec<(Cell, F)> = free
                .iter()
                .filter(|c| d.advice[c.0][c.1] != self.t.advice[c.0][c.1])
                .map(|c| (*c, d.advice[c.0][c.1]))
                .collect();
            if all.is_empty() {
                continue;
            }
            let mut cands: Vec<Vec<(Cell, F)>> = vec![];
            if all.len() <= 4 {
                for x in &all {
                    cands.push(vec![*x]);
                }
            }
            if all.len() > 1 {
                cands.push(all);
            }
            for mv in cands {
                if sat_donor.contains(&mv) || unsat_donor.contains(&mv) {
                    continue;
                }
                if self.satisfied_after(con, &mv) {
                    sat_donor.push(mv);
                } else {
                    unsat_donor.push(mv);
                }
            }
        }
        sat_donor.sort_by_key(|m| m.len());
        let committed = !sat_donor.is_empty();
        for mv in sat_donor {
            out.push((true, mv));
        }
        // range-aware re-decomposition (deterministic, hence committing)
        if !committed {
            if let Some(mv) = self.decompose_move(con, &free) {
                if self.satisfied_after(con, &mv) {
                    out.push((true, mv));
                }
            }
        }
        // affine moves
        if let Con::Poly(pi, row) = con {
            let expr = self.polys[*pi].expr.clone();
            for c in &free {
                if let Some(v) = self.solve_affine(&expr, *row, *c) {
                    if v != self.t.advice[c.0][c.1] {
                        let mv = vec![(*c, v)];
                        if !out.iter().any(|(_, m)| *m == mv) {
                            out.push((false, mv));
                        }
                    }
                }
            }
        }
        // donor transplants that do not satisfy the constraint on their own are only kept where
        // nothing else can be tried (they multiply the branching of doomed decomposition chains)
        if !committed && out.is_empty() {
            for mv in unsat_donor {
                if mv.len() > 1 {
                    out.push((false, mv));
                }
            }
        }
        out
    }

    fn search(&mut self) -> bool {
        self.stats.nodes += 1;
        if self.stats.nodes > self.budget {
            return false;
        }
        let viol = self.violated();
        if self.debug {
            eprintln!("[repair] node {} changed={} violated={:?}", self.stats.nodes, self.changed.len(), viol.iter().take(6).collect::<Vec<_>>());
        }
        if viol.is_empty() {
            self.stats.full_checks += 1;
            return self.t.violations(1).is_empty();
        }
        if self.changed.len() > self.max_changed {
            return false;
        }
        // a constraint with a committing move first, else the most constrained one
        let mut best: Option<(Con, Vec<(bool, Vec<(Cell, F)>)>)> = None;
        for con in viol.iter().take(16) {
            let mv = self.moves(con);
            if mv.is_empty() {
                self.stats.dead_no_move += 1;
                if self.debug {
                    eprintln!("[repair]   dead: {con:?} has no move");
                }
                return false;
            }
            let commits = mv[0].0;
            let better = match &best {
                None => true,
                Some((_, b)) => (commits && !b[0].0) || (commits == b[0].0 && mv.len() < b.len()),
            };
            if better {
                best = Some((con.clone(), mv));
            }
            if commits {
                break;
            }
        }
        let (con, moves) = best.unwrap();
        let mark = self.undo.len();
        let changed_before = self.changed.clone();
        for (commit, mv) in moves {
            if self.debug {
                eprintln!("[repair]   {con:?}: move on {} cells{}", mv.len(), if commit { " (commit)" } else { "" });
            }
            let mut ok = true;
            for (c, v) in &mv {
                if !self.assign_class(*c, *v) {
                    ok = false;
                    break;
                }
            }
            if ok && self.search() {
                return true;
            }
            self.rollback(mark, &changed_before);
            if self.stats.nodes > self.budget || (commit && ok) {
                return false;
            }
        }
        false
    }
}

/// See `Repair::identity_row`.
#[derive(Clone, Debug)]
#[allow(dead_code)]
pub struct IdentityRow {
    pub row: usize,
    pub aux: Vec<Cell>,
    /// dz[p][i] = d poly_p / d limb_i ; da[p][j] = d poly_p / d aux_j
    pub dz: Vec<Vec<F>>,
    pub da: Vec<Vec<F>>,
    pub aux_values: Vec<F>,
}

#[allow(dead_code)]
pub struct RepairResult {
    /// advice cells whose value differs from the table the search started from
    pub changed: BTreeMap<Cell, F>,
    pub stats: RepairStats,
}

/// Runs the search on `tables` (left in the attacking state on success, restored otherwise).
/// `forced`: cells set up front (their whole classes). The instance column must already hold the
/// pinned values; output copies that are to be free must already be removed from `tables.copies`.
pub fn repair(
    tables: &mut Tables<F>,
    donors: Vec<&Tables<F>>,
    forced: &[(Cell, F)],
    nodes: u64,
    max_changed: usize,
    scan: bool,
) -> (Option<RepairResult>, RepairStats) {
    let start_advice = tables.advice.clone();
    let mut rp = Repair::new(tables, donors, scan);
    rp.budget = nodes;
    rp.max_changed = max_changed;
    let mut ok = true;
    for (c, v) in forced {
        if !rp.assign_class(*c, *v) {
            ok = false;
        }
    }
    let found = ok && rp.search();
    let stats = rp.stats.clone();
    drop(rp);
    if found {
        let mut changed = BTreeMap::new();
        for (c, col) in tables.advice.iter().enumerate() {
            for (r, v) in col.iter().enumerate() {
                if *v != start_advice[c][r] {
                    changed.insert((c, r), *v);
                }
            }
        }
        (
            Some(RepairResult {
                changed,
                stats: stats.clone(),
            }),
            stats,
        )
    } else {
        tables.advice = start_advice;
        (None, stats)
    }
}
