//! C05 — Curve25519 base and scalar field chips. ZkStdLib has no architecture flag for them, so the
//! chips are built from scratch (`FromScratch`, cargo feature `testing`) inside a harness circuit.
//! Same programs and reference as the other fields; verdicts = reference evaluator ∧ MockProver
//! (no real prover: the circuit is not a `MidnightCircuit`).

use std::collections::BTreeMap;

use ff::Field;
use midnight_circuits::{
    field::{
        decomposition::chip::P2RDecompositionConfig,
        foreign::{nb_field_chip_columns, params::FieldEmulationParams, FieldChip, FieldChipConfig},
    },
    testing_utils::FromScratch,
};
use midnight_curves::Fq as F;
use midnight_proofs::{
    circuit::{Layouter, SimpleFloorPlanner, Value},
    dev::{CellValue, MockProver},
    plonk::{Circuit, ConstraintSystem, Error},
};
use mzv::{
    common::{catch_any, fnv, repo_file, Ctx, Report},
    engines::{
        ars::attack,
        catalogue::{bound_instance, bound_len},
        ref_eval::{collect, CollectOpts, Tables},
    },
};
use num_bigint::BigUint;
use num_traits::{Num, One};
use rayon::prelude::*;
use serde_json::{json, Value as Json};

use super::{
    attack::{clone_tables, hexf},
    cat_field::{field_catalogue, gen_inputs, wrap_specs, FEntry},
    ffield::{modulus, Chip, Emu, FIn, FProg, OutCmp, MEP, NG},
    repair::repair,
    Budgets,
};

#[derive(Clone)]
pub struct ScratchCircuit<K: Emu>
where
    MEP: FieldEmulationParams<F, K>,
{
    pub prog: FProg<K>,
    pub input: Value<FIn>,
}

impl<K: Emu> Circuit<F> for ScratchCircuit<K>
where
    MEP: FieldEmulationParams<F, K>,
{
    type Config = (P2RDecompositionConfig, FieldChipConfig);
    type FloorPlanner = SimpleFloorPlanner;
    type Params = ();

    fn without_witnesses(&self) -> Self {
        ScratchCircuit {
            prog: self.prog.clone(),
            input: Value::unknown(),
        }
    }

    fn configure(meta: &mut ConstraintSystem<F>) -> Self::Config {
        let committed = meta.instance_column();
        let inst = meta.instance_column();
        let ng = <NG as FromScratch<F>>::configure_from_scratch(meta, &[committed, inst]);
        let cols: Vec<_> = (0..nb_field_chip_columns::<F, K, MEP>()).map(|_| meta.advice_column()).collect();
        let fc = Chip::<K>::configure(meta, &cols);
        (ng, fc)
    }

    fn synthesize(&self, config: Self::Config, mut layouter: impl Layouter<F>) -> Result<(), Error> {
        let ng = <NG as FromScratch<F>>::new_from_scratch(&config.0);
        let chip: Chip<K> = FieldChip::new(&config.1, &ng);
        self.prog.run(&chip, &ng, &mut layouter, self.input.clone())?;
        ng.load_from_scratch(&mut layouter)
    }
}

/// The moduli the reference computes with are the ones of the standards.
pub fn moduli_selftest(rep: &mut Report) {
    let hex = |s: &str| BigUint::from_str_radix(s, 16).unwrap();
    let one = BigUint::one();
    let checks: Vec<(&str, BigUint, BigUint)> = vec![
        ("secp256k1 p", modulus::<midnight_curves::k256::Fp>(), (&one << 256usize) - (&one << 32usize) - BigUint::from(977u32)),
        ("secp256k1 n", modulus::<midnight_curves::k256::Fq>(), hex("FFFFFFFFFFFFFFFFFFFFFFFFFFFFFFFEBAAEDCE6AF48A03BBFD25E8CD0364141")),
        (
            "BLS12-381 p",
            modulus::<midnight_curves::Fp>(),
            hex("1a0111ea397fe69a4b1ba7b6434bacd764774b84f38512bf6730d2a0f6b0f6241eabfffeb153ffffb9feffffffffaaab"),
        ),
        ("Curve25519 p", modulus::<midnight_curves::curve25519::Fp>(), (&one << 255usize) - BigUint::from(19u32)),
        (
            "Curve25519 l",
            modulus::<midnight_curves::curve25519::Scalar>(),
            (&one << 252usize) + BigUint::from_str_radix("27742317777372353535851937790883648493", 10).unwrap(),
        ),
        (
            "BLS12-381 r (native)",
            super::ffield::big_of_f(&-F::ONE) + &one,
            hex("73eda753299d7d483339d80809a1d80553bda402fffe5bfeffffffff00000001"),
        ),
    ];
    for (name, got, want) in checks {
        if got != want {
            rep.inconclusive(&format!("modulus of {name} differs from the standard: the reference cannot be trusted (see C10)"));
        } else {
            rep.count("selftest.modulus_matches_standard");
        }
    }
}

fn tables_for<K: Emu>(prog: &FProg<K>, input: &FIn, k: u32, instance: &[F]) -> Result<Tables<F>, String>
where
    MEP: FieldEmulationParams<F, K>,
{
    let c = ScratchCircuit {
        prog: prog.clone(),
        input: Value::known(input.clone()),
    };
    match catch_any(|| collect::<F, _>(k, &c, &[vec![], instance.to_vec()], CollectOpts::default())) {
        Ok(r) => r,
        Err(p) => Err(format!("panic@{}: {}", repo_file(&p.file), p.message)),
    }
}

fn mock<K: Emu>(prog: &FProg<K>, input: &FIn, k: u32, instance: &[F], changed: &BTreeMap<(usize, usize), F>) -> Result<bool, String>
where
    MEP: FieldEmulationParams<F, K>,
{
    let c = ScratchCircuit {
        prog: prog.clone(),
        input: Value::known(input.clone()),
    };
    match catch_any(|| {
        let mut mp = MockProver::<F>::run(k, &c, vec![vec![], instance.to_vec()]).map_err(|e| format!("{e:?}"))?;
        for ((c, r), v) in changed {
            mp.advice_mut()[*c][*r] = CellValue::Assigned(*v);
        }
        Ok::<bool, String>(mp.verify().is_ok())
    }) {
        Ok(r) => r,
        Err(p) => Err(format!("panic@{}: {}", repo_file(&p.file), p.message)),
    }
}

fn min_k<K: Emu>(prog: &FProg<K>, input: &FIn) -> Option<u32>
where
    MEP: FieldEmulationParams<F, K>,
{
    (9..=15).find(|k| match tables_for(prog, input, *k, &[]) {
        Ok(_) => true,
        Err(e) => !(e.contains("NotEnoughRows") || e.contains("too small") || e.contains("too long")),
    })
}

fn run_entry<K: Emu>(e: &FEntry<K>, idx: usize, ctx: &Ctx, bud: &Budgets, rep: &mut Report) -> Json
where
    MEP: FieldEmulationParams<F, K>,
{
    let name = e.prog.name.clone();
    let mut rng = ctx.rng(&format!("c05-inputs-{name}"));
    let (nb, nr) = if bud.thorough { (bud.n_boundary.min(6), bud.n_random.min(4)) } else { (1, 1) };
    let inputs = gen_inputs(e, idx, nb, nr, bud.max_specials, &mut rng);
    let (mut honest, mut edits, mut ood, mut ars_targets, mut attacks) = (0u64, 0u64, 0u64, 0u64, 0u64);
    let Some(first_ok) = inputs.iter().find(|i| e.prog.eval(i).is_some()) else {
        return json!({"skipped": "no admissible input"});
    };
    let Some(k) = min_k(&e.prog, first_ok) else {
        rep.inconclusive(&format!("{name}: no k in 9..=15 fits"));
        return json!({"skipped": "k"});
    };
    for (ii, input) in inputs.iter().enumerate() {
        let wit = || json!({"op": name, "input": format!("{input:?}"), "k": k});
        rep.eval();
        let expected = e.prog.eval(input).map(|(mut pi, outs)| {
            pi.extend(FProg::<K>::encode_outs(&outs));
            pi
        });
        let n_in = {
            use mzv::engines::catalogue::OpSpec;
            e.prog.n_input_positions(input)
        };
        let provisional = expected.clone().unwrap_or_default();
        let mut t = match tables_for(&e.prog, input, k, &provisional) {
            Ok(t) => t,
            Err(err) => {
                if expected.is_some() {
                    rep.violation(
                        &format!("C05/{name}/synthesis-fails-on-admissible-input"),
                        &format!("synthesis fails or panics on an admissible input: {err}"),
                        wit(),
                    );
                } else {
                    ood += 1;
                    rep.nontrivial(&(name.clone(), ii, "ood-err"));
                    rep.count("curve25519.out_of_domain.synthesis_error_or_panic(rejection)");
                }
                continue;
            }
        };
        let bound = bound_instance(&t, 1, &provisional);
        match &expected {
            None => {
                ood += 1;
                rep.nontrivial(&(name.clone(), ii, "ood"));
                for (i, v) in bound.iter().enumerate() {
                    t.instance[1][i] = *v;
                }
                if t.violations(1).is_empty() && matches!(mock(&e.prog, input, k, &bound, &BTreeMap::new()), Ok(true)) {
                    rep.violation(
                        &format!("C05/{name}/accepts-out-of-domain-input"),
                        "an input outside the documented domain yields a satisfiable circuit (reference evaluator and MockProver accept)",
                        wit(),
                    );
                }
            }
            Some(exp) => {
                honest += 1;
                if bound_len(&t, 1) != exp.len() {
                    rep.violation(
                        &format!("C05/{name}/public-input-count"),
                        &format!("the circuit binds {} raw public inputs, the reference encoding has {}", bound_len(&t, 1), exp.len()),
                        wit(),
                    );
                    continue;
                }
                let fails = t.violations(4);
                if !fails.is_empty() {
                    rep.violation(
                        &format!("C05/{name}/rejects-honest"),
                        &format!(
                            "honest run with instance = reference(input) is unsatisfied: {:?}; circuit binds {:?}, reference says {:?}",
                            fails,
                            bound.iter().map(hexf).collect::<Vec<_>>(),
                            exp.iter().map(hexf).collect::<Vec<_>>()
                        ),
                        wit(),
                    );
                    continue;
                }
                match mock(&e.prog, input, k, exp, &BTreeMap::new()) {
                    Ok(true) => {}
                    other => {
                        rep.violation(&format!("C05/{name}/mock-rejects-honest"), &format!("MockProver rejects the honest run the reference evaluator accepts: {other:?}"), wit());
                        continue;
                    }
                }
                rep.nontrivial(&(name.clone(), fnv(format!("{input:?}").as_bytes())));
                let (_, outs) = e.prog.eval(input).unwrap();
                for pos in (n_in..exp.len()).take(bud.opts.max_positions) {
                    let mut targets = vec![exp[pos] + F::ONE, F::ZERO, F::ONE - exp[pos], exp[pos] - F::ONE];
                    targets.retain(|x| *x != exp[pos]);
                    targets.dedup();
                    for tv in targets {
                        edits += 1;
                        rep.eval();
                        let old = t.instance[1][pos];
                        t.instance[1][pos] = tv;
                        let sat = t.violations(1).is_empty();
                        t.instance[1][pos] = old;
                        if sat {
                            rep.violation(&format!("C05/{name}/edited-output-accepted"), &format!("honest witness accepted with output position {} edited", pos - n_in), wit());
                        }
                        if let Some(budget) = &bud.opts.ars {
                            ars_targets += 1;
                            let (att, _) = attack(&mut t, &[(1, pos, tv)], &[], budget, &mut rng);
                            if let Some(att) = att {
                                let mut pi = exp.clone();
                                pi[pos] = tv;
                                let cmp = FProg::<K>::compare_outputs(&outs, &pi[n_in..]);
                                let m = mock(&e.prog, input, k, &pi, &att.changed);
                                if cmp == OutCmp::Different && matches!(m, Ok(true)) {
                                    rep.violation(
                                        &format!("C05/{name}/forged-output"),
                                        &format!("adversarial assignment ({} changed cells) makes the circuit accept a wrong output at position {} (reference evaluator and MockProver accept)", att.changed.len(), pos - n_in),
                                        json!({"op": name, "input": format!("{input:?}"), "k": k, "position": pos - n_in, "forged_output": hexf(&tv),
                                               "changed_cells": att.changed.iter().map(|((c, r), v)| json!([c, r, hexf(v)])).collect::<Vec<_>>()}),
                                    );
                                } else if cmp == OutCmp::Different {
                                    rep.inconclusive(&format!("{name}: ARS candidate not confirmed by mock: {m:?}"));
                                }
                                t = match tables_for(&e.prog, input, k, exp) {
                                    Ok(t) => t,
                                    Err(_) => break,
                                };
                            }
                        }
                    }
                }
                // wrap-around attacks with donors
                for spec in wrap_specs(e, input).into_iter().take(if ii < 2 { 2 } else { 0 }) {
                    attacks += 1;
                    rep.eval();
                    let donors: Vec<Tables<F>> = spec.donors.iter().filter_map(|d| tables_for(&e.prog, d, k, &[]).ok()).collect();
                    let mut tt = clone_tables(&t);
                    let forged = spec.forged.clone().unwrap();
                    if n_in + forged.len() != exp.len() {
                        continue;
                    }
                    for (i, v) in forged.iter().enumerate() {
                        tt.instance[1][n_in + i] = *v;
                    }
                    let (res, _) = repair(&mut tt, donors.iter().collect(), &[], bud.repair_nodes, 400, true);
                    if let Some(res) = res {
                        let mut pi = exp.clone();
                        pi[n_in..].copy_from_slice(&forged);
                        let m = mock(&e.prog, input, k, &pi, &res.changed);
                        if FProg::<K>::compare_outputs(&outs, &forged) == OutCmp::Different && matches!(m, Ok(true)) {
                            rep.violation(
                                &format!("C05/{name}/forged-output attack=native-wrap"),
                                &format!("adversarial assignment ({} changed cells, attack {}) makes the circuit accept outputs that differ from the reference", res.changed.len(), spec.label),
                                json!({"op": name, "input": format!("{input:?}"), "k": k, "forged_outputs": forged.iter().map(hexf).collect::<Vec<_>>(),
                                       "changed_cells": res.changed.iter().map(|((c, r), v)| json!([c, r, hexf(v)])).collect::<Vec<_>>()}),
                            );
                        }
                    }
                }
            }
        }
    }
    rep.count_n(&format!("class.{}.entries", K::TAG), 1);
    rep.count_n(&format!("class.{}.inputs", K::TAG), inputs.len() as u64);
    json!({"k": k, "honest": honest, "edits": edits, "ood": ood, "ars_targets": ars_targets, "wrap_attacks": attacks})
}

fn run_field<K: Emu>(fidx: usize, ctx: &Ctx, bud: &Budgets, only: &Option<String>, rep: &mut Report) -> BTreeMap<String, Json>
where
    MEP: FieldEmulationParams<F, K>,
{
    let mut rng = ctx.rng(&format!("c05-chains-{}", K::TAG));
    let entries: Vec<(usize, FEntry<K>)> = field_catalogue::<K>(fidx, &mut rng, if bud.thorough { 3 } else { 1 })
        .into_iter()
        .enumerate()
        .filter(|(_, e)| (bud.thorough || e.quick) && !e.prog.nonunique)
        .filter(|(_, e)| only.as_ref().map(|o| e.prog.name.contains(o.as_str())).unwrap_or(true))
        .collect();
    // in the quick tier every second quick entry (the catalogue is the same as for the other fields)
    let entries: Vec<(usize, FEntry<K>)> = if bud.thorough || only.is_some() { entries } else { entries.into_iter().enumerate().filter(|(i, _)| i % 2 == fidx % 2).map(|(_, e)| e).collect() };
    let parts: Vec<(Report, String, Json)> = entries
        .par_iter()
        .map(|(idx, e)| {
            let mut part = rep.fork();
            let j = run_entry(e, *idx, ctx, bud, &mut part);
            (part, e.prog.name.clone(), j)
        })
        .collect();
    let mut out = BTreeMap::new();
    for (part, name, j) in parts {
        rep.merge(part);
        out.insert(name, j);
    }
    out
}

pub fn run_curve25519(ctx: &Ctx, bud: &Budgets, only: &Option<String>, rep: &mut Report) -> Json {
    moduli_selftest(rep);
    let mut all = run_field::<midnight_curves::curve25519::Fp>(0, ctx, bud, only, rep);
    all.extend(run_field::<midnight_curves::curve25519::Scalar>(1, ctx, bud, only, rep));
    json!(all)
}
