//! C06 — elliptic-curve gadgets compute the group law and accept nothing else.
//!
//! Catalogue (E5) of `EccInstructions` and the chip-specific public extras on the Jubjub native
//! chip, and on the secp256k1 and BLS12-381 G1 foreign chips of `ZkStdLib`. Every input and every
//! output is exposed through `constrain_as_public_input`; expected values come from the affine
//! reference group law of `refs::curve` (E7). Stages per (entry, input):
//!   1. driver (`catalogue::check_op`): completeness, output edits, out-of-domain inputs, and — on
//!      Jubjub, whose encodings are canonical — the adversarial repair search on every output;
//!   2. encoding cross-check: the layout written in `c06_ops/cv.rs` from the documentation vs the
//!      library's `Instantiable::as_public_input`;
//!   3. malicious prover (`c06_ops/attack.rs`): instance-target attacks on the coordinates of
//!      input and output points (x+1, y+1, y -> -y, swapped coordinates, another valid point,
//!      identity flag, Jubjub torsion components) and seed moves on hint cells near the scalar
//!      inputs of the foreign msm, judged semantically and confirmed by MockProver / real prover.

#[path = "c06_ops/cv.rs"]
mod cv;
#[path = "c06_ops/ops.rs"]
mod ops;
#[path = "c06_ops/attack.rs"]
mod attack;
/// entries + admissible inputs for C09 (structure independence); only self-checked here
#[path = "c06_ops/structure.rs"]
mod structure;

use std::collections::BTreeMap;

use ff::Field;
use group::Group;
use midnight_curves::Fq as F;
use mzv::{
    common::*,
    engines::{
        ars::ArsBudget,
        catalogue::{check_op, OpOptions, OpSpec, OpStats},
    },
    refs::curve::{Big, Pt, RField},
};
use num_traits::{One, Zero};
use rand::Rng;
use rand_chacha::ChaCha8Rng;
use rayon::prelude::*;
use serde_json::json;

use attack::*;
use cv::*;
use ops::*;

struct Task<V: Cv> {
    entry: Entry<V>,
    inputs: Vec<Vec<Val>>,
    /// let the driver run its own (raw-comparison) ARS: only where encodings are canonical
    driver_ars: bool,
    attack: bool,
    hints: bool,
    /// rough relative cost, for scheduling only
    cost: u64,
}

trait Job: Send + Sync {
    fn name(&self) -> String;
    fn cost(&self) -> u64;
    fn n_inputs(&self) -> usize;
    fn attacks(&self) -> bool;
    /// circuit size (0 = synthesis with an unknown witness panics; the driver reports that)
    fn min_k(&self) -> u32;
    fn run(&self, thorough: bool, seed: u64, atk: &AtkOpts, k: u32, only_input: Option<usize>, phase: u8, rep: &mut Report) -> (String, OpStats, AtkStats, u32);
}

impl<V: Cv> Job for Task<V> {
    fn name(&self) -> String {
        self.entry.name()
    }
    fn cost(&self) -> u64 {
        self.cost
    }
    fn n_inputs(&self) -> usize {
        self.inputs.len()
    }
    fn attacks(&self) -> bool {
        self.attack
    }
    fn min_k(&self) -> u32 {
        let rel = mzv::engines::catalogue::OpRel(self.entry.clone());
        catch_any(|| midnight_zk_stdlib::MidnightCircuit::new(&rel, midnight_proofs::circuit::Value::unknown(), midnight_proofs::circuit::Value::unknown(), Some(8)).min_k()).unwrap_or(0)
    }
    fn run(&self, thorough: bool, seed: u64, atk: &AtkOpts, k: u32, only_input: Option<usize>, phase: u8, rep: &mut Report) -> (String, OpStats, AtkStats, u32) {
        let name = self.entry.name();
        let mut opts = OpOptions::new("C06", thorough);
        opts.real_k_max = atk.real_k_max;
        if !self.driver_ars {
            opts.ars = None;
        }
        // the driver's free-instance seed-move attacks: units are single inputs here, so the
        // "first seed_inputs inputs of an operation" rule is applied on the entry's input index
        opts.seed_cells = if thorough { 48 } else { 16 };
        if only_input.map(|i| i >= opts.seed_inputs).unwrap_or(false) {
            opts.seed_cells = 0;
        }
        let inputs: Vec<Vec<Val>> = match only_input {
            Some(i) => self.inputs.iter().skip(i).take(1).cloned().collect(),
            None => self.inputs.clone(),
        };
        // 2. encoding cross-check (inputs and reference outputs)
        for inp in inputs.iter().filter(|_| phase != 2) {
            rep.nontrivial(&(name.clone(), format!("{inp:?}")));
            let mut vals = inp.clone();
            if let Some(o) = self.entry.op.eval::<V>(inp) {
                vals.extend(o);
            }
            for v in &vals {
                if let Val::P(p) = v {
                    if !V::cref().valid(p) {
                        continue;
                    }
                }
                rep.eval();
                match catch_any(|| V::lib_enc(v)) {
                    Ok(Some(lib)) => {
                        if lib != V::enc(v) {
                            rep.violation(
                                &format!("C06/{}/public-input-encoding/mismatch@{}", V::NAME, chip_file::<V>()),
                                "Instantiable::as_public_input differs from the documented coordinate/limb layout",
                                json!({"value": format!("{v:?}"), "library": lib.iter().map(|f| format!("{f:?}")).collect::<Vec<_>>(),
                                       "documented": V::enc(v).iter().map(|f| format!("{f:?}")).collect::<Vec<_>>()}),
                            );
                        } else {
                            rep.count(&format!("{}.encoding_crosschecks", V::NAME));
                        }
                    }
                    Ok(None) => {}
                    Err(p) => {
                        rep.violation(
                            &format!("C06/{}/public-input-encoding/panic@{}", V::NAME, repo_file(&p.file)),
                            &format!("as_public_input panics on a valid value: {}", p.message),
                            json!({"value": format!("{v:?}")}),
                        );
                    }
                }
            }
        }
        // 1. driver (every output edit re-evaluates the whole table: fewer positions on big circuits)
        if k >= 16 {
            opts.max_positions = 1;
        } else if k >= 14 {
            opts.max_positions = 2;
        }
        let t_d = std::time::Instant::now();
        let st = if phase != 2 { check_op(&self.entry, &inputs, &opts, seed, rep) } else { OpStats::default() };
        if std::env::var("MZV_C06_TIMING").is_ok() {
            eprintln!("[c06-timing] {name}: driver {:.1}s", t_d.elapsed().as_secs_f64());
        }
        // 3. malicious prover
        let mut a = AtkStats::default();
        if phase != 1 && self.attack && k > 0 && (k < 18 || thorough) {
            for (i, inp) in inputs.iter().enumerate() {
                let idx = only_input.unwrap_or(0) + i;
                a.add(&attack_stage::<V>(&self.entry, inp, idx, k, atk, seed, self.hints, rep));
            }
        }
        (name, st, a, k)
    }
}

// ---------------------------------------------------------------------------------------------
// operand classes
// ---------------------------------------------------------------------------------------------

struct Pts {
    id: RP,
    g: RP,
    r: Vec<RP>,
    /// valid points of the curve outside the prime-order subgroup (only where the assigned type
    /// admits them: BLS12-381 "whole curve")
    outside: Vec<RP>,
}

fn rand_point<V: Cv>(rng: &mut ChaCha8Rng) -> RP {
    // sampling only: the library's generator times a seeded scalar; membership is re-checked
    // with the reference curve
    let p = match V::NAME {
        "jubjub" => Jub::from_lib(&(midnight_curves::JubjubSubgroup::generator() * midnight_curves::Fr::random(&mut *rng))),
        "secp256k1" => Secp::from_lib(&(midnight_curves::k256::K256::generator() * midnight_curves::k256::Fq::random(&mut *rng))),
        _ => Bls::from_lib(&(midnight_curves::G1Projective::generator() * F::random(&mut *rng))),
    };
    assert!(V::cref().in_subgroup(&p), "harness: sampled point fails the reference subgroup check");
    p
}

fn points<V: Cv>(rng: &mut ChaCha8Rng, n_rand: usize) -> Pts {
    let c = V::cref();
    let mut outside = vec![];
    if V::NAME == "bls12_381" {
        // (0, 2): a point of order 3 of E(Fp): y^2 = x^3 + 4
        let o3 = Pt::Aff(Big::zero(), Big::from(2u8));
        assert!(c.curve.on_curve(&o3) && !c.in_subgroup(&o3));
        outside.push(o3);
        // first x >= 1 giving a curve point outside G1
        let f = c.curve.f();
        let mut x = Big::one();
        loop {
            let rhs = f.add(&f.mul(&f.sqr(&x), &x), &Big::from(4u8));
            if let Some(y) = f.sqrt(&rhs) {
                let p = Pt::Aff(x.clone(), y);
                if c.curve.on_curve(&p) && !c.in_subgroup(&p) {
                    outside.push(p);
                    break;
                }
            }
            x += 1u8;
        }
    }
    Pts {
        id: c.id(),
        g: c.gen.clone(),
        r: (0..n_rand).map(|_| rand_point::<V>(rng)).collect(),
        outside,
    }
}

fn rand_scalar<V: Cv>(rng: &mut ChaCha8Rng) -> Big {
    let bytes: [u8; 48] = core::array::from_fn(|_| rng.gen());
    Big::from_bytes_le(&bytes) % &V::cref().r
}

fn pv(p: &RP) -> Val {
    Val::P(p.clone())
}

fn bits_of(k: &Big, n: usize) -> Vec<Val> {
    (0..n).map(|i| Val::B(k.bit(i as u64))).collect()
}

fn const_tag(k: &Big) -> &'static str {
    match k.bits() {
        0 => "0",
        1 => "1",
        2..=64 => "2..64 bits",
        65..=128 => "65..128 bits",
        _ => "above 128 bits",
    }
}

/// Catalogue of one curve. `full` = every entry (Jubjub always; foreign curves in the thorough
/// tier), otherwise the quick foreign subset.
fn catalogue<V: Cv>(thorough: bool, seed: u64) -> Vec<Task<V>> {
    let mut rng = rng_for(seed, &format!("c06-{}", V::NAME));
    let c = V::cref();
    let foreign = V::FOREIGN;
    let full = thorough || !foreign;
    let nr = if thorough { 10 } else { 2 };
    let pts = points::<V>(&mut rng, nr.max(3));
    let (id, g, r0, r1) = (pts.id.clone(), pts.g.clone(), pts.r[0].clone(), pts.r[1].clone());
    let r = c.r.clone();
    let mut out: Vec<Task<V>> = vec![];
    let mut push = |op: Op, tag: &str, inputs: Vec<Vec<Val>>, cost: u64, attack: bool, hints: bool| {
        if !inputs.is_empty() {
            out.push(Task { entry: Entry::new(op, tag), inputs, driver_ars: !foreign, attack, hints, cost });
        }
    };

    // single points: identity, generator, randoms (+ outside-subgroup where admitted)
    let mut singles: Vec<RP> = vec![id.clone(), g.clone()];
    singles.extend(pts.r.iter().take(nr).cloned());
    let singles_v: Vec<Vec<Val>> = singles.iter().map(|p| vec![pv(p)]).collect();
    // operands outside the prime-order subgroup (BLS12-381 chip = "the whole BLS curve") go to
    // entries of their own, so that a failure there has its own signature
    const OUT: &str = "operand outside the prime-order subgroup";
    let singles_out: Vec<Vec<Val>> = pts.outside.iter().map(|p| vec![pv(p)]).collect();

    // pairs: identity combinations, P=Q, P=-Q, 2P vs P+P, random
    let mut pairs: Vec<(RP, RP)> = vec![
        (id.clone(), id.clone()),
        (id.clone(), g.clone()),
        (g.clone(), id.clone()),
        (r0.clone(), id.clone()),
        (g.clone(), g.clone()),
        (r0.clone(), r0.clone()),
        (r0.clone(), c.neg(&r0)),
        (c.neg(&g), g.clone()),
        (r0.clone(), r1.clone()),
        (c.add(&r0, &r0), r0.clone()),
        (r0.clone(), c.mul(&r0, &Big::from(2u8))),
        (c.add(&r0, &r0), c.neg(&r0)),
    ];
    for i in 2..nr.saturating_sub(1) {
        pairs.push((pts.r[i].clone(), pts.r[i + 1].clone()));
    }
    let pairs_v: Vec<Vec<Val>> = pairs.iter().map(|(p, q)| vec![pv(p), pv(q)]).collect();
    let mut pairs_out: Vec<Vec<Val>> = vec![];
    for o in &pts.outside {
        pairs_out.push(vec![pv(o), pv(o)]);
        pairs_out.push(vec![pv(o), pv(&c.neg(o))]);
        pairs_out.push(vec![pv(o), pv(&r0)]);
        pairs_out.push(vec![pv(&id), pv(o)]);
    }

    push(Op::Assign, "assign", singles_v.clone(), 2, true, false);
    // Jubjub's assign_as_public_input documents that validity is left to the verifier's
    // off-circuit check (no curve/subgroup constraint): completeness only there
    push(Op::AssignAsPi, "assign_as_public_input", singles_v.clone(), 2, foreign, false);
    for (lbl, p) in [("identity", &id), ("generator", &g), ("random", &r0)] {
        push(Op::AssignFixed(p.clone()), &format!("assign_fixed[{lbl}]"), vec![vec![]], 1, true, false);
    }
    push(Op::Add, "add", pairs_v.clone(), 3, true, false);
    push(Op::AddSelf, "add[same variable]", singles_v.clone(), 3, full, false);
    push(Op::Double, "double", singles_v.clone(), 3, true, false);
    push(Op::Negate, "negate", singles_v.clone(), 2, true, false);
    push(Op::Assign, &format!("assign[{OUT}]"), singles_out.clone(), 2, true, false);
    push(Op::Add, &format!("add[{OUT}]"), pairs_out.clone(), 3, true, false);
    push(Op::AddSelf, &format!("add[same variable; {OUT}]"), singles_out.clone(), 3, full, false);
    push(Op::Double, &format!("double[{OUT}]"), singles_out.clone(), 3, true, false);
    push(Op::Negate, &format!("negate[{OUT}]"), singles_out.clone(), 2, true, false);
    // select / cond_swap / equality
    let mut sel: Vec<Vec<Val>> = vec![];
    for b in [false, true] {
        for (p, q) in [(&r0, &r1), (&id, &g), (&g, &id), (&r0, &r0)] {
            sel.push(vec![Val::B(b), pv(p), pv(q)]);
        }
    }
    push(Op::Select, "select", sel.clone(), 2, true, false);
    if full {
        push(Op::CondSwap, "cond_swap", sel.clone(), 2, true, false);
        push(Op::IsEqual, "is_equal", pairs_v.clone(), 2, true, false);
        push(Op::IsEqualFixed(g.clone()), "is_equal_to_fixed[generator]", singles_v.clone(), 2, true, false);
        push(Op::IsEqualFixed(id.clone()), "is_equal_to_fixed[identity]", singles_v.clone(), 2, true, false);
        push(Op::IsZero, "is_zero", singles_v.clone(), 2, true, false);
        push(Op::AssertEqual, "assert_equal", pairs_v.clone(), 2, true, false);
        push(Op::AssertNotEqual, "assert_not_equal", pairs_v.clone(), 2, true, false);
        push(Op::AssertEqualFixed(g.clone()), "assert_equal_to_fixed[generator]", singles_v.clone(), 2, true, false);
        push(Op::AssertEqualFixed(id.clone()), "assert_equal_to_fixed[identity]", singles_v.clone(), 2, true, false);
        // coordinates
        // (the coordinates of the foreign identity are unspecified: not part of the domain)
        let with_coords: Vec<Vec<Val>> = singles_v.iter().filter(|v| !foreign || !c.is_id(v[0].p())).cloned().collect();
        push(Op::Coords, "x_coordinate,y_coordinate", with_coords, 2, true, false);
    }
    {
        // point_from_coordinates: valid points, the identity's conventional coordinates, points
        // off the curve, points outside the subgroup
        let mut cs: Vec<Vec<Val>> = vec![];
        for p in singles.iter().chain(pts.outside.iter()) {
            let (x, y) = match p {
                Pt::Inf => (Big::zero(), Big::zero()),
                Pt::Aff(x, y) => (x.clone(), y.clone()),
            };
            cs.push(vec![Val::C(x), Val::C(y)]);
        }
        if let Pt::Aff(x, y) = &r0 {
            cs.push(vec![Val::C((x + 1u8) % &c.p), Val::C(y.clone())]); // off the curve
            cs.push(vec![Val::C(y.clone()), Val::C(x.clone())]);
        }
        if !foreign {
            // Jubjub: a point of order 8 and a point with a torsion component
            let tors = mzv::refs::curve::edwards_torsion8(&mzv::refs::curve::jubjub());
            for q in [tors[0].clone(), tors[3].clone(), c.add(&r0, &tors[0])] {
                if let Pt::Aff(x, y) = q {
                    cs.push(vec![Val::C(x), Val::C(y)]);
                }
            }
        }
        if full || V::NAME == "bls12_381" {
            push(Op::FromCoords, "point_from_coordinates", cs, 2, true, false);
        }
    }

    // ---- scalar multiplications
    let sc_classes: Vec<(&str, Big)> = vec![("0", Big::zero()), ("1", Big::one()), ("2", Big::from(2u8)), ("r-1", &r - 1u8), ("random", rand_scalar::<V>(&mut rng))];
    let mul_cost: u64 = if foreign { 400 } else { 8 };
    if full {
        // size 1 = variable-base multiplication: every scalar class x {random point}, plus point classes
        let mut m1: Vec<Vec<Val>> = sc_classes.iter().map(|(_, s)| vec![Val::S(s.clone()), pv(&r0)]).collect();
        m1.push(vec![Val::S(rand_scalar::<V>(&mut rng)), pv(&id)]);
        m1.push(vec![Val::S(&r - 1u8), pv(&g)]);
        m1.push(vec![Val::S(Big::zero()), pv(&id)]);
        // bases outside the prime-order subgroup (admitted by the BLS12-381 chip, "the whole BLS
        // curve"): own entry, so that a failure there has its own signature
        // NOT driven: scalar multiplication (msm, mul_by_constant) of bases outside the prime-order
        // subgroup. The foreign chip documents "the curve (or the relevant subgroup) must have a
        // large prime order / no low-order points" and its GLV decomposition is only meaningful
        // there; demanding s·P on the whole curve asked for more than C06 and the chip state
        // (first thorough run: false alarm, entries removed — DESIGN.md §10.6).
        for i in 0..if thorough { if foreign { 4 } else { 10 } } else { 1 } {
            m1.push(vec![Val::S(rand_scalar::<V>(&mut rng)), pv(&pts.r[i % pts.r.len()])]);
        }
        push(Op::Msm(1), "msm[1]", m1, mul_cost, true, foreign);
        let max_n = if thorough { 8 } else { 3 };
        for n in 2..=max_n {
            let mut ins: Vec<Vec<Val>> = vec![];
            let reps = if thorough {
                if !foreign {
                    10
                } else if n <= 3 {
                    3
                } else {
                    1
                }
            } else {
                1
            };
            for rep_i in 0..reps + 2 {
                let mut sc: Vec<Val> = vec![];
                let mut ps: Vec<Val> = vec![];
                for j in 0..n {
                    let (s, p) = match rep_i {
                        // boundary mix: cancellation a*P + (r-a)*P (+ zeros and identities)
                        0 => match j {
                            0 => (Big::from(5u8), r0.clone()),
                            1 => (&r - 5u8, r0.clone()),
                            2 => (Big::zero(), g.clone()),
                            3 => (rand_scalar::<V>(&mut rng), id.clone()),
                            _ => (Big::one(), if j % 2 == 0 { g.clone() } else { c.neg(&g) }),
                        },
                        // equal and opposite bases with equal scalars
                        1 => match j {
                            0 => (Big::from(3u8), r1.clone()),
                            1 => (Big::from(3u8), c.neg(&r1)),
                            _ => (rand_scalar::<V>(&mut rng), pts.r[j % pts.r.len()].clone()),
                        },
                        _ => (rand_scalar::<V>(&mut rng), pts.r[(j + rep_i) % pts.r.len()].clone()),
                    };
                    sc.push(Val::S(s));
                    ps.push(pv(&p));
                }
                ins.push([sc, ps].concat());
            }
            push(Op::Msm(n), &format!("msm[{n}]"), ins, mul_cost * n as u64, (thorough && !foreign && n <= 4) || n <= 2, false);
        }
        // bounded scalars
        let nb = V::scalar_bits();
        let small = |rng: &mut ChaCha8Rng, bits: usize| Big::from(rng.gen::<u64>()) % (Big::one() << bits);
        let mut ins = vec![];
        for i in 0..if thorough { 6 } else { 2 } {
            let a = if i == 0 { Big::from(15u8) } else { small(&mut rng, 4) };
            let b = if i == 0 { (Big::one() << 12usize) - 1u8 } else { small(&mut rng, 12) };
            ins.push(vec![Val::S(a), Val::S(b), Val::S(rand_scalar::<V>(&mut rng)), pv(&r0), pv(if i == 1 { &id } else { &r1 }), pv(&g)]);
        }
        push(Op::MsmBounded(vec![4, 12, nb]), "msm_by_bounded_scalars[4,12,full]", ins, mul_cost * 3, thorough, false);
        let half = nb / 2 + 2;
        let mut ins = vec![];
        for i in 0..if thorough { 6 } else { 2 } {
            let a = if i == 0 { (Big::one() << half) - 1u8 } else { rand_scalar::<V>(&mut rng) % (Big::one() << half) };
            ins.push(vec![Val::S(a), pv(if i == 1 { &g } else { &r0 })]);
        }
        push(Op::MsmBounded(vec![half]), "msm_by_bounded_scalars[half]", ins, mul_cost / 2, true, foreign);
        // repeated variables, fixed scalar one, fixed base
        let mut ins = vec![];
        for i in 0..if thorough { 4 } else { 1 } {
            let (p, q) = if i == 1 { (r0.clone(), c.neg(&r0)) } else { (pts.r[i % pts.r.len()].clone(), pts.r[(i + 1) % pts.r.len()].clone()) };
            ins.push(vec![Val::S(rand_scalar::<V>(&mut rng)), Val::S(rand_scalar::<V>(&mut rng)), pv(&p), pv(&q)]);
        }
        ins.push(vec![Val::S(Big::from(7u8)), Val::S(&r - 7u8), pv(&r0), pv(&r1)]); // a + b = 0 on the shared base
        push(Op::MsmShared, "msm[shared scalar and base variables]", ins, mul_cost * 2, thorough, false);
        let mut ins = vec![vec![Val::S(rand_scalar::<V>(&mut rng)), pv(&r0), pv(&c.neg(&r0))], vec![Val::S(rand_scalar::<V>(&mut rng)), pv(&r0), pv(&r1)]];
        if thorough {
            ins.push(vec![Val::S(rand_scalar::<V>(&mut rng)), pv(&r0), pv(&r0)]);
            ins.push(vec![Val::S(Big::zero()), pv(&g), pv(&id)]);
        }
        push(Op::MsmSameScalar, "msm[same scalar variable]", ins, mul_cost, thorough, false);
        let mut ins = vec![vec![Val::S(rand_scalar::<V>(&mut rng)), pv(&r0), pv(&r1)], vec![Val::S(&r - 1u8), pv(&g), pv(&g)]];
        if thorough {
            ins.push(vec![Val::S(Big::zero()), pv(&id), pv(&g)]);
            ins.push(vec![Val::S(Big::one()), pv(&r0), pv(&c.neg(&r0))]);
        }
        push(Op::MsmFixedOne, "msm[fixed scalar one]", ins, mul_cost, thorough, false);
        let ins: Vec<Vec<Val>> = sc_classes.iter().map(|(_, s)| vec![Val::S(s.clone())]).collect();
        push(Op::MsmFixedBase(g.clone()), "msm[fixed base generator]", ins.clone(), mul_cost, thorough, false);
        if thorough {
            push(Op::MsmFixedBase(id.clone()), "msm[fixed base identity]", ins, mul_cost, false, false);
        }
    } else {
        // quick foreign subset: ONE variable-base multiplication
        let ins = vec![vec![Val::S(rand_scalar::<V>(&mut rng)), pv(&r0)]];
        push(Op::Msm(1), "msm[1]", ins, mul_cost, true, true);
    }
    // mul_by_constant: constant classes; bases {random, identity}
    let mut consts: Vec<Big> = vec![Big::zero(), Big::one(), Big::from(2u8), Big::from(123456u32)];
    let wide: Vec<Big> = vec![
        Big::one() << 64usize,
        (Big::one() << 64usize) + 1u8,
        (Big::one() << 100usize) + 5u8,
        (Big::one() << 128usize) - 1u8,
    ];
    let huge: Vec<Big> = vec![Big::one() << 128usize, &r - 1u8, rand_scalar::<V>(&mut rng)];
    if full {
        consts.push((Big::one() << 64usize) - 1u8);
        consts.extend(wide.iter().cloned());
        consts.extend(huge.iter().cloned());
    } else {
        // quick foreign: the cheap (<= 128-bit) path once per size class
        consts.push(wide[0].clone());
        consts.push(wide[2].clone());
    }
    for k in consts {
        let mut ins = vec![vec![pv(&r0)]];
        if full {
            ins.push(vec![pv(&id)]);
            ins.push(vec![pv(&g)]);
        }
        let cost = match k.bits() {
            0..=1 => 1,
            2..=64 => mul_cost / 4,
            65..=128 => mul_cost / 2,
            _ => mul_cost,
        };
        push(Op::MulConst(k.clone()), &format!("mul_by_constant[{}]", const_tag(&k)), ins, cost.max(1), full && k.bits() <= 128, false);
        if full && k.bits() > 1 {
        }
    }
    if !full {
        // quick foreign: the documented "the base can be the identity point" on the wide-constant path
        push(Op::MulConst(&r - 1u8), &format!("mul_by_constant[{}]", const_tag(&(&r - 1u8))), vec![vec![pv(&id)]], mul_cost, false, false);
    }

    // ---- chip-specific extras
    match V::NAME {
        "jubjub" => {
            let ins: Vec<Vec<Val>> = sc_classes.iter().map(|(_, s)| vec![Val::S(s.clone()), pv(&r0)]).chain([vec![Val::S(rand_scalar::<V>(&mut rng)), pv(&id)]]).collect();
            push(Op::JubMul, "mul", ins, mul_cost, true, false);
            // scalars wider than r, given as a native field element
            let p_native = <F as midnight_circuits::CircuitField>::modulus();
            let mut ns: Vec<Big> = vec![Big::zero(), Big::one(), Big::from(2u8), &r - 1u8, r.clone(), &r + 1u8, Big::one() << 252usize, (Big::one() << 254usize) - 1u8, &p_native - 1u8];
            for _ in 0..if thorough { 10 } else { 1 } {
                ns.push(fbig(&F::random(&mut rng)));
            }
            let ins: Vec<Vec<Val>> = ns.iter().map(|n| vec![Val::N(bigf(n)), pv(&r0)]).collect();
            push(Op::JubMulNative, "msm[scalar = native element via convert]", ins, mul_cost, true, false);
            // scalars given as 32 little-endian bytes
            let mut bs: Vec<Big> = vec![Big::zero(), Big::one(), r.clone(), &r + 1u8, (Big::one() << 256usize) - 1u8];
            for _ in 0..if thorough { 10 } else { 1 } {
                bs.push(Big::from_bytes_le(&core::array::from_fn::<u8, 32, _>(|_| rng.gen())));
            }
            let ins: Vec<Vec<Val>> = bs
                .iter()
                .map(|b| {
                    let mut bytes = b.to_bytes_le();
                    bytes.resize(32, 0);
                    let mut v: Vec<Val> = bytes.iter().map(|x| Val::Y(*x)).collect();
                    v.push(pv(&r1));
                    v
                })
                .collect();
            push(Op::JubMulBytes(32), "msm[scalar_from_le_bytes(32)]", ins, mul_cost, true, false);
            // hash to curve
            for n in [1usize, 2, 3] {
                let mut ins: Vec<Vec<Val>> = vec![vec![Val::N(F::ZERO); n], vec![Val::N(-F::ONE); n]];
                for _ in 0..if thorough { 10 } else { 2 } {
                    ins.push((0..n).map(|_| Val::N(F::random(&mut rng))).collect());
                }
                push(Op::HashToCurve(n), &format!("hash_to_curve[{n}]"), ins, 30, true, false);
            }
        }
        _ => {
            if full || V::NAME == "bls12_381" {
                // msm_by_le_bits: scalars at or above the group order
                let n = V::scalar_bits() + 2;
                let mut ks: Vec<Big> = if full { vec![Big::zero(), Big::one(), &r - 1u8, r.clone(), &r + 1u8, (Big::one() << n) - 1u8, rand_scalar::<V>(&mut rng)] } else { vec![&r + 1u8] };
                if thorough {
                    for _ in 0..3 {
                        ks.push(Big::from_bytes_le(&core::array::from_fn::<u8, 40, _>(|_| rng.gen())) % (Big::one() << n));
                    }
                }
                let mut ins: Vec<Vec<Val>> = ks
                    .iter()
                    .map(|k| {
                        let mut v = bits_of(k, n);
                        v.push(pv(&r0));
                        v
                    })
                    .collect();
                if full {
                    let mut v = bits_of(&Big::from(5u8), n);
                    v.push(pv(&id)); // documented: unsatisfiable
                    ins.push(v);
                }
                if full || V::NAME == "secp256k1" {
                    push(Op::MsmLeBits(n), &format!("msm_by_le_bits[{n}]"), ins, mul_cost, false, false);
                }
            }
            // k_out_of_n_points: tables of witnessed points, selections at different positions
            {
                let pool: Vec<RP> = vec![r0.clone(), r1.clone(), c.add(&r0, &r0), g.clone(), c.add(&r0, &r1)];
                let sizes: Vec<(usize, usize)> = if full || V::NAME == "secp256k1" { vec![(1, 1), (2, 1), (3, 1), (3, 2), (4, 2), (5, 3)] } else { vec![(3, 2), (5, 3)] };
                for (n, k) in sizes {
                    let table: Vec<RP> = pool[..n].to_vec();
                    let mk = |table: &[RP], sel: &[usize]| -> Vec<Val> { table.iter().map(pv).chain(sel.iter().map(|i| Val::H(table[*i].clone()))).collect() };
                    // all k-subsets in lexicographic order
                    let mut subsets: Vec<Vec<usize>> = vec![];
                    let mut cur: Vec<usize> = (0..k).collect();
                    loop {
                        subsets.push(cur.clone());
                        let mut i = k;
                        while i > 0 && cur[i - 1] == n - k + i - 1 {
                            i -= 1;
                        }
                        if i == 0 {
                            break;
                        }
                        cur[i - 1] += 1;
                        for j in i..k {
                            cur[j] = cur[j - 1] + 1;
                        }
                    }
                    let chosen: Vec<Vec<usize>> = if thorough || subsets.len() <= 3 { subsets.clone() } else { vec![subsets[0].clone(), subsets[subsets.len() / 2].clone(), subsets[subsets.len() - 1].clone()] };
                    let mut ins: Vec<Vec<Val>> = chosen.iter().map(|s| mk(&table, s)).collect();
                    if n >= 3 {
                        // a table with a repeated entry; the selection takes its first occurrence
                        let mut t2 = table.clone();
                        t2[1] = t2[0].clone();
                        let sel: Vec<usize> = [0usize, 2, 3, 4].iter().copied().filter(|i| *i < n).take(k).collect();
                        if sel.len() == k {
                            ins.push(mk(&t2, &sel));
                        }
                    }
                    // outside the documented domain: identity on the table (unsatisfiable), selection
                    // out of table order / the same entry twice (synthesis error)
                    let mut t3 = table.clone();
                    t3[n - 1] = id.clone();
                    ins.push(mk(&t3, &(0..k).collect::<Vec<_>>()));
                    if k >= 2 {
                        let rev: Vec<usize> = (0..k).rev().collect();
                        ins.push(mk(&table, &rev));
                        let mut dup: Vec<usize> = (0..k).collect();
                        dup[1] = dup[0];
                        ins.push(mk(&table, &dup));
                    }
                    push(Op::KOutOfN { n, k }, &format!("k_out_of_n_points[{k} of {n}]"), ins, 6, true, false);
                }
            }
            if V::NAME == "bls12_381" {
                let mut ins = vec![vec![pv(&r0)]];
                for o in &pts.outside {
                    ins.push(vec![pv(o)]);
                }
                if full {
                    ins.push(vec![pv(&id)]);
                    ins.push(vec![pv(&g)]);
                }
                push(Op::BlsSubgroup, "assert_in_bls12_381_subgroup", ins, mul_cost / 2, false, false);
            }
        }
    }
    out
}

/// CPU time of the calling thread (the machine may be shared: wall time says little)
fn thread_cpu() -> f64 {
    let mut ts = libc::timespec { tv_sec: 0, tv_nsec: 0 };
    unsafe {
        libc::clock_gettime(libc::CLOCK_THREAD_CPUTIME_ID, &mut ts);
    }
    ts.tv_sec as f64 + ts.tv_nsec as f64 * 1e-9
}

fn main() {
    let mut ctx = Ctx::from_args("C06");
    // --replay: re-execute exactly the (entry, input) of a violation file
    let mut only: Option<(String, usize)> = None;
    if let Some(path) = ctx.replay.clone() {
        if let Some(j) = load_replay(&path) {
            if let Some(s) = j.get("seed").and_then(|s| s.as_u64()) {
                ctx.seed = s;
            }
            if j.get("tier").and_then(|s| s.as_str()) == Some("thorough") {
                ctx.tier = Tier::Thorough;
            }
            let w = j.get("witness").cloned().unwrap_or(json!({}));
            let entry = w.get("entry").or(w.get("op")).and_then(|s| s.as_str()).unwrap_or("").to_string();
            let idx = w.get("input_index").and_then(|s| s.as_u64()).unwrap_or(u64::MAX) as usize;
            only = Some((entry, idx));
        }
    }
    let mut rep = Report::new(
        &ctx,
        "case = (curve, operation, input): the honest run must be accepted with instance = encoding of (inputs, reference group-law result); every output position edited must be rejected; \
         inputs outside the documented domain must be unsatisfiable; the malicious-prover stage searches assignments towards edited outputs, edited input coordinates (off-curve, other point, \
         identity flag, torsion component) and moved hint cells. Non-trivial = distinct (curve, operation, input).",
    );
    rep.assume("expected results: affine reference group laws of harness/src/refs/curve.rs (BigUint, published curve constants; cross-checked against midnight-curves / k256 by C11); random operands are sampled with the library's generator and re-checked by the reference");
    rep.assume("hash_to_curve reference = library CPU Poseidon sponge (checked by C07) + circuits/src/ecc/hash_to_curve/mtc_cpu.rs map_to_curve per squeezed element + reference Edwards addition");
    rep.assume("foreign identity: per the documentation of AssignedForeignPoint the coordinates are irrelevant when is_id is set; accepted public inputs that differ only in such coordinates are counted (noncanonical identity), not failed");
    rep.assume("msm_by_bounded_scalars: only inputs respecting the stated bounds are generated (the documentation says the bounds are not enforced)");
    rep.assume("ZKIR IntoBytes(32)/FromBytes point compression is not reachable from outside the zkir crate except through a whole ZKIR program: left to C18");
    let thorough = ctx.tier == Tier::Thorough;
    let xu = |k: &str, d: usize| ctx.extra.get(k).and_then(|v| v.parse().ok()).unwrap_or(d);
    let atk = AtkOpts {
        small: if thorough { ArsBudget { restarts: 64, nodes_per_restart: 4000, max_changed: 48 } } else { ArsBudget { restarts: 12, nodes_per_restart: 1000, max_changed: 24 } },
        foreign_small: if thorough {
            ArsBudget { restarts: xu("fs-restarts", 6), nodes_per_restart: xu("fs-nodes", 100), max_changed: 32 }
        } else {
            ArsBudget { restarts: xu("fs-restarts", 5), nodes_per_restart: xu("fs-nodes", 60), max_changed: 24 }
        },
        big: if thorough {
            ArsBudget { restarts: xu("big-restarts", 3), nodes_per_restart: xu("big-nodes", 24), max_changed: 32 }
        } else {
            ArsBudget { restarts: xu("big-restarts", 3), nodes_per_restart: xu("big-nodes", 12), max_changed: 16 }
        },
        real_k_max: 12,
        max_targets: if thorough { 40 } else { 12 },
        max_targets_foreign: xu("f-targets", if thorough { 12 } else { 10 }),
        max_targets_big: xu("big-targets", if thorough { 6 } else { 4 }),
        hint_cells: xu("hint-cells", if thorough { 4 } else { 2 }),
    };
    rep.set(
        "ars_budgets",
        json!({"jubjub": format!("{:?}", atk.small), "foreign k<14 (lowered: the chip's lookup reads advice columns, every node rescans it)": format!("{:?}", atk.foreign_small),
               "k>=14 (lowered further: ~2 s per node)": format!("{:?}", atk.big), "real_prover_confirmation_k_max": atk.real_k_max,
               "targets_per_input": json!({"jubjub": atk.max_targets, "foreign": atk.max_targets_foreign, "k>=14": atk.max_targets_big})}),
    );

    let mut jobs: Vec<Box<dyn Job>> = vec![];
    for t in catalogue::<Jub>(thorough, ctx.seed) {
        jobs.push(Box::new(t));
    }
    for t in catalogue::<Secp>(thorough, ctx.seed) {
        jobs.push(Box::new(t));
    }
    for t in catalogue::<Bls>(thorough, ctx.seed) {
        jobs.push(Box::new(t));
    }
    if let Some((entry, _)) = &only {
        jobs.retain(|j| &j.name() == entry);
    }
    if let Some(f) = ctx.extra.get("only") {
        jobs.retain(|j| j.name().contains(f.as_str()));
    }
    let seed = ctx.seed;
    let only_idx = only.as_ref().map(|(_, i)| *i).filter(|i| *i != usize::MAX).or(ctx.extra.get("input").and_then(|v| v.parse().ok()));
    // one unit of work per (entry, input): the expensive entries would otherwise serialise the run
    let ks: Vec<u32> = jobs.par_iter().map(|j| j.min_k()).collect();
    // (job, input, cost, phase): on big circuits the driver stage and the malicious-prover stage of
    // the same input are separate units (they are independent and each takes minutes)
    let mut units: Vec<(usize, usize, u64, u8)> = vec![];
    for (ji, j) in jobs.iter().enumerate() {
        for i in 0..j.n_inputs() {
            if only_idx.map(|x| x == i).unwrap_or(true) {
                if ks[ji] >= 14 && j.attacks() {
                    units.push((ji, i, j.cost(), 1));
                    units.push((ji, i, j.cost(), 2));
                } else {
                    units.push((ji, i, j.cost(), 0));
                }
            }
        }
    }
    units.sort_by_key(|u| (std::cmp::Reverse(u.2), u.0, u.1));
    // circuit sizes first: the largest circuits (k >= 18: gigabytes per MockProver) run in a
    // second phase on a small pool so that memory stays bounded
    let done = std::sync::atomic::AtomicUsize::new(0);
    let total_units = units.len();
    let t_run = std::time::Instant::now();
    let run_units = |us: &[(usize, usize, u64, u8)]| -> Vec<(Report, (String, OpStats, AtkStats, u32), f64)> {
        us.par_iter()
            .map(|(ji, i, _, phase)| {
                let mut part = rep.fork();
                let t0 = thread_cpu();
                // a panic that escapes the stages is a harness problem: inconclusive, never a verdict
                let r = match catch_any(|| jobs[*ji].run(thorough, seed, &atk, ks[*ji], Some(*i), *phase, &mut part)) {
                    Ok(r) => r,
                    Err(p) => {
                        let name = jobs[*ji].name();
                        part.inconclusive(&format!("{name} input {i}: harness panic at {}: {}", p.location, p.message));
                        (name, OpStats::default(), AtkStats::default(), ks[*ji])
                    }
                };
                let d = done.fetch_add(1, std::sync::atomic::Ordering::SeqCst) + 1;
                if d % 50 == 0 || d == total_units {
                    eprintln!("[c06] {d}/{total_units} units done after {:.0}s", t_run.elapsed().as_secs_f64());
                }
                (part, r, thread_cpu() - t0)
            })
            .collect()
    };
    if ctx.extra.contains_key("list-structure") {
        // builds the C09 catalogues (their admissibility assertions run) and prints them
        for th in [false, true] {
            let a = structure::catalogue_for_structure_jubjub(th);
            let b = structure::catalogue_for_structure_secp256k1(th);
            let c = structure::catalogue_for_structure_bls12_381(th);
            println!("thorough={th}: jubjub {} entries, secp256k1 {}, bls12_381 {}", a.len(), b.len(), c.len());
            for (e, ins) in &a {
                println!("  {:60} inputs={}", e.name(), ins.len());
            }
            for (e, ins) in &b {
                println!("  {:60} inputs={}", e.name(), ins.len());
            }
        }
        std::process::exit(0);
    }
    if ctx.extra.contains_key("list") {
        for (j, k) in jobs.iter().zip(&ks) {
            println!("{:60} k={:2} inputs={}", j.name(), k, j.n_inputs());
        }
        std::process::exit(0);
    }
    let (huge, normal): (Vec<_>, Vec<_>) = units.iter().cloned().partition(|u| ks[u.0] >= 18);
    let mut parts = run_units(&normal);
    if !huge.is_empty() {
        parts.extend(with_pool(4, || run_units(&huge)));
    }
    let mut per_op: BTreeMap<String, serde_json::Value> = BTreeMap::new();
    let mut per_curve: BTreeMap<String, (u64, u64, u64, u64)> = BTreeMap::new();
    let mut total_atk = AtkStats::default();
    for (part, (name, st, a, k), secs) in parts {
        rep.merge(part);
        total_atk.add(&a);
        let curve = name.split('/').next().unwrap_or("").to_string();
        let e = per_curve.entry(curve).or_insert((0, 0, 0, 0));
        if !per_op.contains_key(&name) {
            e.0 += 1;
        }
        e.1 += st.honest_runs;
        e.2 += st.edits;
        e.3 += a.targets + st.ars_targets;
        let prev = per_op.get(&name).cloned();
        let merged = |key: &str, v: u64| v + prev.as_ref().and_then(|p| p.get(key)).and_then(|x| x.as_u64()).unwrap_or(0);
        per_op.insert(
            name.clone(),
            json!({"k": k, "inputs": merged("inputs", st.honest_runs), "edits": merged("edits", st.edits), "out_of_domain": merged("out_of_domain", st.out_of_domain),
                   "driver_ars_targets": merged("driver_ars_targets", st.ars_targets), "driver_ars_nodes": merged("driver_ars_nodes", st.ars_nodes),
                   "attack_targets": merged("attack_targets", a.targets), "attack_nodes": merged("attack_nodes", a.nodes),
                   "candidates_consistent": merged("candidates_consistent", a.cand_consistent), "candidates_bad": merged("candidates_bad", a.cand_bad),
                   "hint_cells": merged("hint_cells", a.hint_cells),
                   "thread_cpu_seconds": ((secs + prev.as_ref().and_then(|p| p.get("thread_cpu_seconds")).and_then(|x| x.as_f64()).unwrap_or(0.0)) * 10.0).round() / 10.0}),
        );
    }
    rep.set("per_operation", json!(per_op));
    rep.set(
        "per_curve",
        json!(per_curve.iter().map(|(c, v)| (c.clone(), json!({"entries": v.0, "honest_runs": v.1, "output_edits": v.2, "attack_targets": v.3}))).collect::<BTreeMap<_, _>>()),
    );
    rep.set(
        "malicious_prover",
        json!({"inputs": total_atk.inputs, "targets": total_atk.targets, "nodes": total_atk.nodes, "candidates_consistent(non-uniqueness or other valid statement)": total_atk.cand_consistent,
               "of_which_noncanonical_encoding_of_same_statement": total_atk.cand_noncanonical_identity, "candidates_bad": total_atk.cand_bad, "hint_cells_moved": total_atk.hint_cells}),
    );
    // planned classes that ended empty make the run inconclusive
    if only.is_none() && !ctx.extra.contains_key("only") {
        for c in ["jubjub", "secp256k1", "bls12_381"] {
            if per_curve.get(c).map(|v| v.1).unwrap_or(0) == 0 {
                rep.inconclusive(&format!("no honest run on {c}"));
            }
        }
        // about half of what a full run registers (each (entry, input) is registered by this file
        // and, when in domain, by the driver: 623 quick / ~2 500 thorough at the time of writing)
        rep.min_nontrivial = if thorough { 1200 } else { 300 };
    }
    rep.finish();
}
