//! Malicious-prover stage of C06: instance-target and seed-move attacks (E4) whose candidates
//! are judged *semantically* (decode what the circuit binds, recompute the reference result for
//! the decoded inputs) and confirmed by MockProver on the very same table (H2, whole-table
//! overlay because the foreign msm draws fresh randomness at every synthesis) and, for small
//! deterministic circuits, by the real prover under the fault plan (H1) + real verifier.

use std::collections::{BTreeMap, BTreeSet};

use ff::Field;
use midnight_curves::Fq as F;
use midnight_proofs::{
    circuit::Value,
    dev::{CellValue, MockProver},
    plonk::Expression,
};
use midnight_zk_stdlib::MidnightCircuit;
use mzv::{
    common::{catch_any, repo_file, Report},
    engines::{
        ars::{attack, ArsBudget},
        catalogue::{bound_instance, OpRel, OpSpec},
        plonk_util::params_for,
        ref_eval::{collect, CellRef, CollectOpts, Tables},
    },
    refs::curve::{Big, Pt},
};
use num_traits::One;
use rand::{seq::SliceRandom, SeedableRng};
use rand_chacha::ChaCha8Rng;
use serde_json::json;

use super::{cv::*, ops::*};

#[derive(Clone, Debug)]
pub struct AtkOpts {
    pub small: ArsBudget,
    /// foreign chips: their multi-select lookup reads advice columns, so every ARS node rescans
    /// the whole lookup (tens of ms per node already at k = 9)
    pub foreign_small: ArsBudget,
    /// budget for circuits with k >= 14 (seconds per node)
    pub big: ArsBudget,
    pub real_k_max: u32,
    pub max_targets: usize,
    pub max_targets_foreign: usize,
    pub max_targets_big: usize,
    pub hint_cells: usize,
}

#[derive(Default, Clone, Debug)]
pub struct AtkStats {
    pub inputs: u64,
    pub targets: u64,
    pub nodes: u64,
    pub cand_consistent: u64,
    pub cand_noncanonical_identity: u64,
    pub cand_bad: u64,
    pub hint_cells: u64,
}

impl AtkStats {
    pub fn add(&mut self, o: &AtkStats) {
        self.inputs += o.inputs;
        self.targets += o.targets;
        self.nodes += o.nodes;
        self.cand_consistent += o.cand_consistent;
        self.cand_noncanonical_identity += o.cand_noncanonical_identity;
        self.cand_bad += o.cand_bad;
        self.hint_cells += o.hint_cells;
    }
}

fn hexf(f: &F) -> String {
    hex::encode(midnight_circuits::CircuitField::to_bytes_le(f))
}

pub fn chip_file<V: Cv>() -> &'static str {
    if V::FOREIGN {
        "circuits/src/ecc/foreign/ecc_chip.rs"
    } else {
        "circuits/src/ecc/native/edwards_chip.rs"
    }
}

fn mock_overlay<O: OpSpec>(k: u32, rel: &OpRel<O>, input: &O::In, pi: &[F], t: &Tables<F>) -> Result<bool, String> {
    let circuit = MidnightCircuit::new(rel, Value::known(pi.to_vec()), Value::known(input.clone()), Some(8));
    match catch_any(|| {
        let mut mp = MockProver::<F>::run(k, &circuit, vec![vec![], pi.to_vec()]).map_err(|e| format!("{e:?}"))?;
        let adv = mp.advice_mut();
        for c in 0..t.advice.len() {
            for r in 0..t.n {
                if t.advice_assigned[c][r] || t.advice[c][r] != F::ZERO {
                    adv[c][r] = CellValue::Assigned(t.advice[c][r]);
                }
            }
        }
        Ok::<bool, String>(mp.verify().is_ok())
    }) {
        Ok(r) => r,
        Err(p) => Err(format!("panic@{}: {}", repo_file(&p.file), p.message)),
    }
}

fn real_accepts<O: OpSpec>(k: u32, rel: &OpRel<O>, input: &O::In, pi: &[F], changed: &BTreeMap<(usize, usize), F>) -> Result<bool, String> {
    let params = params_for(k);
    let r = catch_any(|| {
        let vk = midnight_zk_stdlib::setup_vk(params, rel);
        let pk = midnight_zk_stdlib::setup_pk(rel, &vk);
        midnight_proofs::verif_hooks::set_fault_plan::<F>(changed.clone());
        let proof = midnight_zk_stdlib::prove::<OpRel<O>, blake2b_simd::State>(params, &pk, rel, &pi.to_vec(), input.clone(), ChaCha8Rng::seed_from_u64(7));
        let (hits, _) = midnight_proofs::verif_hooks::clear_fault_plan();
        let proof = match proof {
            Ok(p) => p,
            Err(_) => return Ok(false),
        };
        if hits.len() < changed.len() {
            return Err(format!("fault plan hit {} of {} cells", hits.len(), changed.len()));
        }
        Ok(midnight_zk_stdlib::verify::<OpRel<O>, blake2b_simd::State>(&params.verifier_params(), &vk, &pi.to_vec(), None, &proof).is_ok())
    });
    let _ = midnight_proofs::verif_hooks::clear_fault_plan();
    match r {
        Ok(x) => x,
        Err(p) => Err(format!("panic@{}: {}", repo_file(&p.file), p.message)),
    }
}

fn adv_queries(e: &Expression<F>) -> Vec<(usize, i32)> {
    let out = std::cell::RefCell::new(BTreeSet::new());
    e.evaluate(
        &|_| (),
        &|_| (),
        &|_| (),
        &|q| {
            out.borrow_mut().insert((q.column_index(), q.rotation().0));
        },
        &|_| (),
        &|_| (),
        &|_| (),
        &|_, _| (),
        &|_, _| (),
        &|_, _| (),
    );
    out.into_inner().into_iter().collect()
}

/// Advice cells within `depth` constraint steps of the given start cells (through copy classes
/// and through gate polynomials that actually depend on the cell on that row). Used to locate the
/// decomposition / GLV hint cells next to a scalar input without any knowledge of the layout.
fn neighbourhood(t: &mut Tables<F>, start: &[(usize, usize)], depth: usize, cap: usize) -> Vec<(usize, usize)> {
    let classes = t.copy_classes();
    let mut class_of: BTreeMap<CellRef, Vec<CellRef>> = BTreeMap::new();
    for (_, members) in classes {
        for m in &members {
            class_of.insert(m.clone(), members.clone());
        }
    }
    let polys: Vec<(Expression<F>, Vec<(usize, i32)>)> =
        t.cs.gates().iter().flat_map(|g| g.polynomials().iter().map(|p| (p.clone(), adv_queries(p))).collect::<Vec<_>>()).collect();
    let n = t.n as i64;
    let mut seen: BTreeSet<(usize, usize)> = start.iter().copied().collect();
    let mut frontier: Vec<(usize, usize)> = start.to_vec();
    let mut out = vec![];
    for _ in 0..depth {
        let mut next = vec![];
        for cell in frontier {
            let mut group = vec![cell];
            if let Some(ms) = class_of.get(&CellRef::Advice(cell.0, cell.1)) {
                for m in ms {
                    if let CellRef::Advice(c, r) = m {
                        group.push((*c, *r));
                    }
                }
            }
            for (c, r) in group {
                for (expr, qs) in &polys {
                    for (qc, rot) in qs {
                        if *qc != c {
                            continue;
                        }
                        let row = (r as i64 - *rot as i64).rem_euclid(n) as usize;
                        if row >= t.usable_rows {
                            continue;
                        }
                        // dependence test
                        let old = t.advice[c][r];
                        let y0 = t.eval(expr, row);
                        t.advice[c][r] = old + F::ONE;
                        let y1 = t.eval(expr, row);
                        t.advice[c][r] = old;
                        if y0 == y1 {
                            continue;
                        }
                        for (oc, orot) in qs {
                            let cell2 = (*oc, (row as i64 + *orot as i64).rem_euclid(n) as usize);
                            if seen.insert(cell2) {
                                next.push(cell2);
                                out.push(cell2);
                                if out.len() >= cap {
                                    return out;
                                }
                            }
                        }
                    }
                }
            }
        }
        frontier = next;
    }
    out
}

struct Target {
    label: String,
    inst: Vec<(usize, usize, F)>,
    seeds: Vec<((usize, usize), F)>,
    /// the copy constraints tying the *output* positions to the instance are lifted during the
    /// search: the prover may end at any output, the pair (inputs, outputs) the final table binds
    /// is judged afterwards
    free_outputs: bool,
}

fn slot_targets<V: Cv>(e: &Entry<V>, vals: &[Val], pi: &[F]) -> Vec<Target> {
    let c = V::cref();
    let mut out = vec![];
    let set = |pos: usize, new: &[F]| -> Vec<(usize, usize, F)> { new.iter().enumerate().filter(|(i, v)| pi[pos + i] != **v).map(|(i, v)| (1usize, pos + i, *v)).collect() };
    for ((pos, k, is_in), v) in e.slots().into_iter().zip(vals.iter()) {
        let side = if is_in { "in" } else { "out" };
        let w = V::width(k);
        match (k, v) {
            (Kind::H, _) => {}
            (Kind::P, Val::P(p)) => {
                let half = w / 2;
                out.push(Target { label: format!("{side}@{pos}:x+1"), inst: vec![(1, pos, pi[pos] + F::ONE)], seeds: vec![], free_outputs: false });
                out.push(Target { label: format!("{side}@{pos}:y+1"), inst: vec![(1, pos + half, pi[pos + half] + F::ONE)], seeds: vec![], free_outputs: false });
                if !c.is_id(p) {
                    let np = c.neg(p);
                    if np != *p {
                        out.push(Target { label: format!("{side}@{pos}:negated"), inst: set(pos, &V::enc(&Val::P(np))), seeds: vec![], free_outputs: false });
                    }
                    // both coordinates swapped: (y, x) — off the curve in general
                    if let Pt::Aff(x, y) = p {
                        if x != y {
                            let sw: Vec<F> = [V::enc(&Val::C(y.clone())), V::enc(&Val::C(x.clone()))].concat();
                            if sw.len() == w {
                                out.push(Target { label: format!("{side}@{pos}:swapped-coordinates"), inst: set(pos, &sw), seeds: vec![], free_outputs: false });
                            }
                        }
                    }
                }
                let q = c.add(p, &c.gen);
                out.push(Target { label: format!("{side}@{pos}:plus-generator"), inst: set(pos, &V::enc(&Val::P(q))), seeds: vec![], free_outputs: false });
                if V::FOREIGN {
                    // identity flag flipped (the flag lives on top of x's first limb)
                    let flag = bigf(&(Big::one() << (if V::NAME == "secp256k1" { 64u32 } else { 56u32 })));
                    let nv = if c.is_id(p) { pi[pos] - flag } else { pi[pos] + flag };
                    out.push(Target { label: format!("{side}@{pos}:identity-flag-flipped"), inst: vec![(1, pos, nv)], seeds: vec![], free_outputs: false });
                    if !c.is_id(p) {
                        out.push(Target { label: format!("{side}@{pos}:to-identity"), inst: set(pos, &V::enc(&Val::P(Pt::Inf))), seeds: vec![], free_outputs: false });
                    }
                } else {
                    // Jubjub: points outside the prime-order subgroup / of low order
                    let tors = mzv::refs::curve::edwards_torsion8(&mzv::refs::curve::jubjub());
                    for (name, t) in [("order8", &tors[0]), ("order4", &tors[1]), ("order2", &tors[3])] {
                        let q = c.add(p, t);
                        out.push(Target { label: format!("{side}@{pos}:plus-{name}-torsion"), inst: set(pos, &V::enc(&Val::P(q))), seeds: vec![], free_outputs: false });
                    }
                    out.push(Target { label: format!("{side}@{pos}:low-order-point"), inst: set(pos, &V::enc(&Val::P(tors[0].clone()))), seeds: vec![], free_outputs: false });
                }
            }
            (Kind::B, _) => out.push(Target { label: format!("{side}@{pos}:bit-complement"), inst: vec![(1, pos, F::ONE - pi[pos])], seeds: vec![], free_outputs: false }),
            _ => {
                out.push(Target { label: format!("{side}@{pos}:+1"), inst: vec![(1, pos, pi[pos] + F::ONE)], seeds: vec![], free_outputs: false });
                if w > 1 {
                    out.push(Target { label: format!("{side}@{pos}:top-limb+1"), inst: vec![(1, pos + w - 1, pi[pos + w - 1] + F::ONE)], seeds: vec![], free_outputs: false });
                }
            }
        }
    }
    // k_out_of_n_points: every returned point re-targeted to every table entry (another entry with
    // the honest index cell / the same entry twice must be refused; a different admissible
    // selection is simply another valid statement)
    if let Op::KOutOfN { n, k } = &e.op {
        let w = V::width(Kind::P);
        for j in 0..*k {
            let pos = (*n + j) * w;
            for i in 0..*n {
                let inst = set(pos, &pi[i * w..(i + 1) * w]);
                out.push(Target { label: format!("out@{pos}:other-table-entry:{i}"), inst, seeds: vec![], free_outputs: false });
            }
        }
    }
    out.retain(|t| !t.inst.is_empty());
    if !e.op.out_schema().is_empty() {
        let twins: Vec<Target> = out
            .iter()
            .filter(|t| t.label.starts_with("in@"))
            .filter(|t| {
                let kind = t.label.split(':').nth(1).unwrap_or("");
                matches!(kind, "+1" | "bit-complement" | "x+1" | "negated" | "top-limb+1")
            })
            .map(|t| Target { label: format!("free-outputs|{}", t.label), inst: t.inst.clone(), seeds: vec![], free_outputs: true })
            .collect();
        out.extend(twins);
    }
    out
}

#[allow(clippy::too_many_arguments)]
pub fn attack_stage<V: Cv>(e: &Entry<V>, input: &Vec<Val>, input_index: usize, k: u32, opts: &AtkOpts, seed: u64, with_hints: bool, rep: &mut Report) -> AtkStats {
    let mut st = AtkStats::default();
    let name = e.name();
    let timing = std::env::var("MZV_C06_TIMING").is_ok();
    let t_start = std::time::Instant::now();
    let Some(outs) = e.op.eval::<V>(input) else { return st };
    let mut vals = input.clone();
    vals.extend(outs);
    let pi = Entry::<V>::encode(&vals);
    let rel = OpRel(e.clone());
    let circuit = MidnightCircuit::new(&rel, Value::known(pi.clone()), Value::known(input.clone()), Some(8));
    let mut tables = match catch_any(|| collect::<F, _>(k, &circuit, &[vec![], pi.clone()], CollectOpts::default())) {
        Ok(Ok(t)) => t,
        _ => return st, // completeness problems are reported by the driver stage
    };
    if !tables.violations(1).is_empty() {
        return st;
    }
    st.inputs += 1;
    let honest_adv = tables.advice.clone();
    let honest_inst = tables.instance.clone();
    // deterministic synthesis? (needed for the fault-plan confirmation with the real prover)
    let deterministic = k <= opts.real_k_max
        && match catch_any(|| collect::<F, _>(k, &circuit, &[vec![], pi.clone()], CollectOpts::default())) {
            Ok(Ok(t2)) => t2.advice == honest_adv,
            _ => false,
        };
    let n_in_pos = e.n_input_positions(input);
    let (budget, mut max_targets) = if k >= 14 {
        (&opts.big, opts.max_targets_big)
    } else if V::FOREIGN {
        (&opts.foreign_small, opts.max_targets_foreign)
    } else {
        (&opts.small, opts.max_targets)
    };
    if matches!(e.op, Op::KOutOfN { .. }) {
        max_targets = max_targets.max(24);
    }
    let mut rng = mzv::common::rng_for(seed, &format!("atk-{name}-{input_index}"));
    let mut targets = slot_targets::<V>(e, &vals, &pi);
    // k_out_of_n_points: the witnessed index cells (found next to the limbs of the returned points:
    // same row as a cell copy-tied to the second x-limb of the exposed point, value = honest index)
    // moved by +-1 with free outputs
    if let Op::KOutOfN { n, k: kk } = &e.op {
        let w = V::width(Kind::P);
        let classes = tables.copy_classes();
        let table_pts: Vec<&RP> = vals[..*n].iter().map(|v| v.p()).collect();
        let mut seen = BTreeSet::new();
        for j in 0..*kk {
            let pos = (*n + j) * w + 1;
            let idx = table_pts.iter().position(|t| *t == vals[*n + *kk + j].p()).unwrap_or(0);
            let idx_f = F::from(idx as u64);
            let Some((_, members)) = classes.iter().find(|(_, ms)| ms.contains(&CellRef::Instance(1, pos))) else { continue };
            let rows: BTreeSet<usize> = members.iter().filter_map(|m| if let CellRef::Advice(_, r) = m { Some(*r) } else { None }).collect();
            let mut found = 0;
            for r in rows {
                for c in 0..tables.advice.len() {
                    if found < 6 && tables.advice_assigned[c][r] && tables.advice[c][r] == idx_f && !members.contains(&CellRef::Advice(c, r)) && seen.insert((c, r)) {
                        found += 1;
                        for (lbl, nv) in [("+1", idx_f + F::ONE), ("-1", idx_f - F::ONE)] {
                            targets.push(Target { label: format!("free-outputs|idx@({c},{r}):{lbl}"), inst: vec![], seeds: vec![((c, r), nv)], free_outputs: true });
                        }
                    }
                }
            }
        }
    }
    if targets.len() > max_targets {
        // fixed priority of attack kinds (outputs before inputs within a kind), then a seeded
        // choice among the rest
        const PRIO: [(&str, &str); 18] = [
            ("ou", "other-table-entry"),
            ("ou", "x+1"),
            ("in", "+1"),
            ("fr", "+1"),
            ("in", "x+1"),
            ("fr", "bit-complement"),
            ("fr", "x+1"),
            ("ou", "identity-flag-flipped"),
            ("in", "identity-flag-flipped"),
            ("ou", "negated"),
            ("in", "bit-complement"),
            ("ou", "plus-generator"),
            ("ou", "+1"),
            ("ou", "bit-complement"),
            ("in", "negated"),
            ("in", "plus-order8-torsion"),
            ("ou", "y+1"),
            ("in", "swapped-coordinates"),
        ];
        let prio_of = |t: &Target| {
            let kind = t.label.split(':').nth(1).unwrap_or("");
            PRIO.iter().position(|(s, k)| *s == &t.label[..2] && *k == kind)
        };
        let mut keep: Vec<Target> = vec![];
        let mut rest: Vec<Target> = vec![];
        let mut taken: BTreeSet<usize> = BTreeSet::new();
        for t in targets {
            match prio_of(&t) {
                Some(p) if taken.insert(p) => keep.push(t),
                _ => rest.push(t),
            }
        }
        keep.sort_by_key(|t| prio_of(t).unwrap_or(99));
        keep.truncate(max_targets);
        rest.shuffle(&mut rng);
        while keep.len() < max_targets {
            match rest.pop() {
                Some(t) => keep.push(t),
                None => break,
            }
        }
        targets = keep;
    }
    // hint cells next to the scalar inputs, attacked together with an edited output
    if with_hints {
        let mut start = vec![];
        for (pos, kind, is_in) in e.slots() {
            if is_in && matches!(kind, Kind::S | Kind::B | Kind::N | Kind::Y) {
                for i in 0..V::width(kind) {
                    for (a, b) in &tables.copies {
                        match (a, b) {
                            (CellRef::Instance(1, r), CellRef::Advice(c, rr)) | (CellRef::Advice(c, rr), CellRef::Instance(1, r)) if *r == pos + i => start.push((*c, *rr)),
                            _ => {}
                        }
                    }
                }
            }
        }
        let cells = neighbourhood(&mut tables, &start, 4, 4 * opts.hint_cells.max(1));
        let mut cells: Vec<(usize, usize)> = cells.into_iter().filter(|c| !start.contains(c)).collect();
        cells.shuffle(&mut rng);
        cells.truncate(opts.hint_cells);
        let out_pos = e.n_input_positions(input);
        for cell in cells {
            st.hint_cells += 1;
            let v = tables.advice[cell.0][cell.1];
            let nv = if v == F::ZERO || v == F::ONE { F::ONE - v } else { v + F::ONE };
            let mut inst = vec![];
            if out_pos < pi.len() {
                inst.push((1usize, out_pos, pi[out_pos] + F::ONE));
            }
            targets.push(Target { label: format!("hint-cell@({},{}) with edited output", cell.0, cell.1), inst: inst.clone(), seeds: vec![(cell, nv)], free_outputs: false });
            targets.push(Target { label: format!("hint-cell@({},{})", cell.0, cell.1), inst: vec![], seeds: vec![(cell, nv)], free_outputs: false });
        }
    }
    if timing {
        eprintln!("[c06-timing] {name} k={k}: set-up {:.1}s, {} targets", t_start.elapsed().as_secs_f64(), targets.len());
    }
    for t in targets {
        st.targets += 1;
        rep.eval();
        let t_a = std::time::Instant::now();
        let saved_copies = if t.free_outputs {
            let saved = tables.copies.clone();
            let is_out = |c: &CellRef| matches!(c, CellRef::Instance(1, r) if *r >= n_in_pos);
            tables.copies.retain(|(a, b)| !is_out(a) && !is_out(b));
            Some(saved)
        } else {
            None
        };
        let (att, stats) = attack(&mut tables, &t.inst, &t.seeds, budget, &mut rng);
        if let Some(saved) = saved_copies {
            tables.copies = saved;
        }
        if timing {
            eprintln!("[c06-timing] {name} target {}: {:.1}s, {} nodes, found={}", t.label, t_a.elapsed().as_secs_f64(), stats.nodes, att.is_some());
        }
        st.nodes += stats.nodes;
        let Some(_att) = att else { continue };
        let bound = bound_instance(&tables, 1, &pi);
        if t.free_outputs {
            // the instance the final table binds; it must satisfy the complete circuit again
            for (i, v) in bound.iter().enumerate() {
                tables.instance[1][i] = *v;
            }
            if !tables.violations(1).is_empty() {
                rep.count(&format!("{}.free_output_candidate_not_closed", V::NAME));
                tables.advice = honest_adv.clone();
                tables.instance = honest_inst.clone();
                continue;
            }
        }
        let verdict = judge::<V>(e, &bound);
        match &verdict {
            Verdict::Consistent => {
                st.cand_consistent += 1;
                if bound != pi && judge_same_statement::<V>(e, &bound, &pi) {
                    st.cand_noncanonical_identity += 1;
                }
            }
            Verdict::Unjudged => {
                rep.count(&format!("{}.candidate_with_unenforced_precondition_violated", V::NAME));
            }
            bad => {
                st.cand_bad += 1;
                let mock = mock_overlay(k, &rel, input, &bound, &tables);
                let mut changed = BTreeMap::new();
                for (c, col) in tables.advice.iter().enumerate() {
                    for (r, v) in col.iter().enumerate() {
                        if *v != honest_adv[c][r] {
                            changed.insert((c, r), *v);
                        }
                    }
                }
                let real = if deterministic { Some(real_accepts(k, &rel, input, &bound, &changed)) } else { None };
                let confirmed = matches!(mock, Ok(true)) && real.as_ref().map(|r| matches!(r, Ok(true))).unwrap_or(true);
                let (kind, what) = match bad {
                    Verdict::InvalidInput(w) => ("accepts-invalid-input", format!("the circuit accepts a public input that is not a value of the assigned type ({w})")),
                    Verdict::OutsideDomain => ("accepts-outside-domain", "the circuit accepts operands outside the operation's documented domain".to_string()),
                    Verdict::WrongOutput(w) => ("forged-output", format!("the circuit accepts a result different from the group operation ({w})")),
                    Verdict::Consistent | Verdict::Unjudged => unreachable!(),
                };
                let w = json!({"entry": name, "input_index": input_index, "input": format!("{input:?}"), "k": k, "attack": t.label,
                    "honest_instance": pi.iter().map(hexf).collect::<Vec<_>>(), "bound_instance": bound.iter().map(hexf).collect::<Vec<_>>(),
                    "changed_cells": changed.iter().take(64).map(|((c, r), v)| json!([c, r, hexf(v)])).collect::<Vec<_>>(), "n_changed": changed.len(),
                    "mock": format!("{mock:?}"), "real": format!("{real:?}"), "nodes": stats.nodes});
                if confirmed {
                    rep.violation(
                        &format!("C06/{}/{}@{}", name, kind, chip_file::<V>()),
                        &format!("{what}; adversarial assignment with {} changed cells, attack `{}` (MockProver accepts; real verifier: {:?})", changed.len(), t.label, real),
                        w,
                    );
                } else {
                    rep.inconclusive(&format!("{name}: ARS candidate ({}) not confirmed: mock={mock:?} real={real:?}", t.label));
                }
            }
        }
        tables.advice = honest_adv.clone();
        tables.instance = honest_inst.clone();
    }
    st
}

/// same decoded statement, different raw encoding (non-canonical identity coordinates / limb forms)
fn judge_same_statement<V: Cv>(e: &Entry<V>, a: &[F], b: &[F]) -> bool {
    for (pos, k, _) in e.slots() {
        let w = V::width(k);
        if pos + w > a.len() || pos + w > b.len() {
            return false;
        }
        match (V::dec(k, &a[pos..pos + w]), V::dec(k, &b[pos..pos + w])) {
            (Ok(x), Ok(y)) if x == y => {}
            _ => return false,
        }
    }
    true
}
