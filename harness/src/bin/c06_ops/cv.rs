//! Curve bindings for C06: reference curve (refs::curve), value conversions, the documented
//! public-input layouts (written here independently and cross-checked against the library's
//! `Instantiable::as_public_input`), and the glue that calls the chips of `ZkStdLib`.

use std::sync::OnceLock;

use ff::PrimeField;
use group::Group;
use midnight_circuits::{
    ecc::{
        curves::CircuitCurve,
        foreign::ForeignEccChip,
        native::EccChip,
    },
    field::{
        decomposition::chip::P2RDecompositionChip, foreign::params::MultiEmulationParams as MEP, foreign::FieldChip, NativeChip, NativeGadget,
    },
    instructions::*,
    types::{AssignedBit, AssignedByte, AssignedField, AssignedForeignPoint, AssignedNative, AssignedNativePoint, AssignedScalarOfNativeCurve, Instantiable},
    CircuitField,
};
use midnight_curves::{k256::K256, Fq as F, G1Projective, JubjubExtended, JubjubSubgroup};
use midnight_proofs::{
    circuit::{Layouter, Value},
    plonk::Error,
};
use midnight_zk_stdlib::{ZkStdLib, ZkStdLibArch};
use mzv::refs::curve::{self as rc, Big, PrimeF, Pt, RCurve, RField};
use num_traits::{One, Zero};

use super::ops::Op;

pub type RP = Pt<Big>;
#[allow(dead_code)]
type NG = NativeGadget<F, P2RDecompositionChip<F>, NativeChip<F>>;
#[allow(dead_code)]
type SecpScalarChip = FieldChip<F, midnight_curves::k256::Fq, MEP, NG>;
#[allow(dead_code)]
pub type SecpChip = ForeignEccChip<F, K256, MEP, SecpScalarChip, NG>;
#[allow(dead_code)]
pub type BlsChip = ForeignEccChip<F, G1Projective, MEP, NG, NG>;
#[allow(dead_code)]
pub type JubChip = EccChip<JubjubExtended>;

#[derive(Clone, Copy, Debug, PartialEq, Eq, Hash)]
pub enum Kind {
    P,
    S,
    C,
    B,
    N,
    Y,
    /// witness-only point: handed to the gadget as an unassigned `Value`, never exposed
    H,
}

/// Off-circuit (reference) values. Points are affine reference points (`Pt::Inf` = Weierstrass
/// identity; the Edwards identity is `(0, 1)`), scalars and coordinates are integers.
#[derive(Clone, PartialEq, Eq, Hash)]
pub enum Val {
    P(RP),
    S(Big),
    C(Big),
    B(bool),
    N(F),
    Y(u8),
    H(RP),
}

impl std::fmt::Debug for Val {
    fn fmt(&self, f: &mut std::fmt::Formatter<'_>) -> std::fmt::Result {
        match self {
            Val::P(Pt::Inf) => write!(f, "P(inf)"),
            Val::P(Pt::Aff(x, y)) => write!(f, "P({:x},{:x})", x, y),
            Val::S(s) => write!(f, "S({:x})", s),
            Val::C(s) => write!(f, "C({:x})", s),
            Val::B(b) => write!(f, "B({})", *b as u8),
            Val::N(n) => write!(f, "N({:x})", fbig(n)),
            Val::Y(b) => write!(f, "Y({b})"),
            Val::H(Pt::Inf) => write!(f, "H(inf)"),
            Val::H(Pt::Aff(x, y)) => write!(f, "H({:x},{:x})", x, y),
        }
    }
}

impl Val {
    pub fn kind(&self) -> Kind {
        match self {
            Val::P(_) => Kind::P,
            Val::S(_) => Kind::S,
            Val::C(_) => Kind::C,
            Val::B(_) => Kind::B,
            Val::N(_) => Kind::N,
            Val::Y(_) => Kind::Y,
            Val::H(_) => Kind::H,
        }
    }
    pub fn p(&self) -> &RP {
        match self {
            Val::P(p) | Val::H(p) => p,
            _ => panic!("harness: expected a point"),
        }
    }
    pub fn big(&self) -> Big {
        match self {
            Val::S(s) | Val::C(s) => s.clone(),
            Val::N(n) => fbig(n),
            Val::B(b) => Big::from(*b as u8),
            Val::Y(b) => Big::from(*b),
            _ => panic!("harness: expected an integer"),
        }
    }
    pub fn b(&self) -> bool {
        match self {
            Val::B(b) => *b,
            _ => panic!("harness: expected a bit"),
        }
    }
}

pub fn fbig(f: &F) -> Big {
    Big::from_bytes_le(f.to_repr().as_ref())
}
pub fn bigf(b: &Big) -> F {
    <F as CircuitField>::from_biguint(&(b % <F as CircuitField>::modulus())).expect("reduced")
}
pub fn fe<K: CircuitField>(b: &Big) -> K {
    K::from_biguint(b).expect("harness: value not reduced modulo the field")
}

/// Reference curve with the handful of operations the catalogue needs.
pub struct CRef {
    pub name: &'static str,
    pub curve: Box<dyn RCurve<F = PrimeF>>,
    pub gen: RP,
    pub r: Big,
    pub h: Big,
    pub p: Big,
}

impl CRef {
    pub fn id(&self) -> RP {
        self.curve.identity()
    }
    pub fn is_id(&self, p: &RP) -> bool {
        self.curve.is_identity(p)
    }
    /// valid point of the curve group (identity included)
    pub fn valid(&self, p: &RP) -> bool {
        self.is_id(p) || self.curve.on_curve(p)
    }
    pub fn add(&self, p: &RP, q: &RP) -> RP {
        self.curve.add(p, q).expect("reference add on valid points")
    }
    pub fn neg(&self, p: &RP) -> RP {
        self.curve.neg(p)
    }
    pub fn mul(&self, p: &RP, k: &Big) -> RP {
        self.curve.mul(p, k).expect("reference mul on valid points")
    }
    pub fn in_subgroup(&self, p: &RP) -> bool {
        self.valid(p) && self.is_id(&self.mul(p, &self.r))
    }
    pub fn fneg(&self, x: &Big) -> Big {
        if x.is_zero() {
            Big::zero()
        } else {
            &self.p - x
        }
    }
}

fn mk<C: RCurve<F = PrimeF> + 'static>(s: rc::Spec<C>) -> CRef {
    let p = s.curve.f().p().clone();
    CRef {
        name: s.name,
        curve: Box::new(s.curve),
        gen: s.gen,
        r: s.r,
        h: s.h,
        p,
    }
}

/// little-endian limbs in base 2^lb of `(v - 1) mod m` (the documented unique-zero shift)
fn limbs_enc(v: &Big, m: &Big, lb: u32, n: u32) -> Vec<F> {
    let mut x = (v + m - Big::one()) % m;
    let base = Big::one() << lb;
    (0..n)
        .map(|_| {
            let l = &x % &base;
            x >>= lb;
            bigf(&l)
        })
        .collect()
}

/// inverse of `limbs_enc`; every limb must be `< 2^lb`; returns the value modulo `m`
fn limbs_dec(raw: &[F], m: &Big, lb: u32) -> Result<Big, String> {
    let base = Big::one() << lb;
    let mut acc = Big::one();
    for (i, l) in raw.iter().enumerate() {
        let l = fbig(l);
        if l >= base {
            return Err(format!("limb {i} not below 2^{lb}"));
        }
        acc += l << (lb as usize * i);
    }
    Ok(acc % m)
}

#[derive(Clone)]
pub enum Asg<V: Cv> {
    P(V::Pt),
    S(V::Sc),
    C(V::Co),
    B(AssignedBit<F>),
    N(AssignedNative<F>),
    Y(AssignedByte<F>),
    H(Value<RP>),
}

impl<V: Cv> Asg<V> {
    pub fn h(&self) -> Value<RP> {
        match self {
            Asg::H(p) => p.clone(),
            _ => panic!("harness: expected a witness-only point"),
        }
    }
    pub fn p(&self) -> &V::Pt {
        match self {
            Asg::P(p) => p,
            _ => panic!("harness: expected an assigned point"),
        }
    }
    pub fn s(&self) -> &V::Sc {
        match self {
            Asg::S(p) => p,
            _ => panic!("harness: expected an assigned scalar"),
        }
    }
    pub fn c(&self) -> &V::Co {
        match self {
            Asg::C(p) => p,
            _ => panic!("harness: expected an assigned coordinate"),
        }
    }
    pub fn b(&self) -> &AssignedBit<F> {
        match self {
            Asg::B(p) => p,
            _ => panic!("harness: expected an assigned bit"),
        }
    }
    pub fn n(&self) -> &AssignedNative<F> {
        match self {
            Asg::N(p) => p,
            _ => panic!("harness: expected an assigned native"),
        }
    }
    pub fn y(&self) -> &AssignedByte<F> {
        match self {
            Asg::Y(p) => p,
            _ => panic!("harness: expected an assigned byte"),
        }
    }
}

pub type L<'a, LL> = &'a mut LL;

pub trait Cv: Clone + Send + Sync + 'static {
    const NAME: &'static str;
    const FOREIGN: bool;
    /// the assigned point type promises membership in the prime-order subgroup
    const PROMISES_SUBGROUP: bool;
    type Pt: Clone + std::fmt::Debug;
    type Sc: Clone;
    type Co: Clone;

    fn cref() -> &'static CRef;
    fn arch() -> ZkStdLibArch;
    fn scalar_bits() -> usize;

    /// documented public-input layout, written independently of the library
    fn enc(v: &Val) -> Vec<F>;
    /// the library's `Instantiable::as_public_input` (None where no such impl applies)
    fn lib_enc(v: &Val) -> Option<Vec<F>>;
    fn width(k: Kind) -> usize;
    /// decodes one slot of a bound public-input vector (semantic value, or why it is not one)
    fn dec(k: Kind, raw: &[F]) -> Result<Val, String>;

    fn assign_pt(s: &ZkStdLib, l: &mut impl Layouter<F>, v: Value<RP>) -> Result<Self::Pt, Error>;
    fn assign_pt_as_pi(s: &ZkStdLib, l: &mut impl Layouter<F>, v: Value<RP>) -> Result<Self::Pt, Error>;
    fn assign_fixed_pt(s: &ZkStdLib, l: &mut impl Layouter<F>, p: &RP) -> Result<Self::Pt, Error>;
    fn expose_pt(s: &ZkStdLib, l: &mut impl Layouter<F>, p: &Self::Pt) -> Result<(), Error>;
    fn assign_sc(s: &ZkStdLib, l: &mut impl Layouter<F>, v: Value<Big>) -> Result<Self::Sc, Error>;
    fn assign_fixed_sc(s: &ZkStdLib, l: &mut impl Layouter<F>, v: &Big) -> Result<Self::Sc, Error>;
    fn expose_sc(s: &ZkStdLib, l: &mut impl Layouter<F>, p: &Self::Sc) -> Result<(), Error>;
    fn assign_co(s: &ZkStdLib, l: &mut impl Layouter<F>, v: Value<Big>) -> Result<Self::Co, Error>;
    fn expose_co(s: &ZkStdLib, l: &mut impl Layouter<F>, p: &Self::Co) -> Result<(), Error>;

    fn add(s: &ZkStdLib, l: &mut impl Layouter<F>, p: &Self::Pt, q: &Self::Pt) -> Result<Self::Pt, Error>;
    fn double(s: &ZkStdLib, l: &mut impl Layouter<F>, p: &Self::Pt) -> Result<Self::Pt, Error>;
    fn negate(s: &ZkStdLib, l: &mut impl Layouter<F>, p: &Self::Pt) -> Result<Self::Pt, Error>;
    fn msm(s: &ZkStdLib, l: &mut impl Layouter<F>, sc: &[Self::Sc], b: &[Self::Pt]) -> Result<Self::Pt, Error>;
    fn msm_bounded(s: &ZkStdLib, l: &mut impl Layouter<F>, sc: &[(Self::Sc, usize)], b: &[Self::Pt]) -> Result<Self::Pt, Error>;
    fn mul_const(s: &ZkStdLib, l: &mut impl Layouter<F>, k: &Big, b: &Self::Pt) -> Result<Self::Pt, Error>;
    fn from_coords(s: &ZkStdLib, l: &mut impl Layouter<F>, x: &Self::Co, y: &Self::Co) -> Result<Self::Pt, Error>;
    fn x(s: &ZkStdLib, p: &Self::Pt) -> Self::Co;
    fn y(s: &ZkStdLib, p: &Self::Pt) -> Self::Co;
    fn is_equal(s: &ZkStdLib, l: &mut impl Layouter<F>, p: &Self::Pt, q: &Self::Pt) -> Result<AssignedBit<F>, Error>;
    fn is_equal_fixed(s: &ZkStdLib, l: &mut impl Layouter<F>, p: &Self::Pt, q: &RP) -> Result<AssignedBit<F>, Error>;
    fn assert_equal(s: &ZkStdLib, l: &mut impl Layouter<F>, p: &Self::Pt, q: &Self::Pt) -> Result<(), Error>;
    fn assert_not_equal(s: &ZkStdLib, l: &mut impl Layouter<F>, p: &Self::Pt, q: &Self::Pt) -> Result<(), Error>;
    fn assert_equal_fixed(s: &ZkStdLib, l: &mut impl Layouter<F>, p: &Self::Pt, q: &RP) -> Result<(), Error>;
    fn is_zero(s: &ZkStdLib, l: &mut impl Layouter<F>, p: &Self::Pt) -> Result<AssignedBit<F>, Error>;
    fn select(s: &ZkStdLib, l: &mut impl Layouter<F>, c: &AssignedBit<F>, p: &Self::Pt, q: &Self::Pt) -> Result<Self::Pt, Error>;
    fn cond_swap(s: &ZkStdLib, l: &mut impl Layouter<F>, c: &AssignedBit<F>, p: &Self::Pt, q: &Self::Pt) -> Result<(Self::Pt, Self::Pt), Error>;
    /// chip-specific public extras
    fn extra(s: &ZkStdLib, l: &mut impl Layouter<F>, op: &Op, ins: &[Asg<Self>]) -> Result<Vec<Asg<Self>>, Error>;
}

macro_rules! common_ecc {
    ($chip:ident, $G:ty) => {
        fn assign_pt(s: &ZkStdLib, l: &mut impl Layouter<F>, v: Value<RP>) -> Result<Self::Pt, Error> {
            AssignmentInstructions::<F, Self::Pt>::assign(s.$chip(), l, v.map(|p| Self::to_lib(&p)))
        }
        fn assign_pt_as_pi(s: &ZkStdLib, l: &mut impl Layouter<F>, v: Value<RP>) -> Result<Self::Pt, Error> {
            PublicInputInstructions::<F, Self::Pt>::assign_as_public_input(s.$chip(), l, v.map(|p| Self::to_lib(&p)))
        }
        fn assign_fixed_pt(s: &ZkStdLib, l: &mut impl Layouter<F>, p: &RP) -> Result<Self::Pt, Error> {
            AssignmentInstructions::<F, Self::Pt>::assign_fixed(s.$chip(), l, Self::to_lib(p))
        }
        fn expose_pt(s: &ZkStdLib, l: &mut impl Layouter<F>, p: &Self::Pt) -> Result<(), Error> {
            PublicInputInstructions::<F, Self::Pt>::constrain_as_public_input(s.$chip(), l, p)
        }
        fn add(s: &ZkStdLib, l: &mut impl Layouter<F>, p: &Self::Pt, q: &Self::Pt) -> Result<Self::Pt, Error> {
            s.$chip().add(l, p, q)
        }
        fn double(s: &ZkStdLib, l: &mut impl Layouter<F>, p: &Self::Pt) -> Result<Self::Pt, Error> {
            s.$chip().double(l, p)
        }
        fn negate(s: &ZkStdLib, l: &mut impl Layouter<F>, p: &Self::Pt) -> Result<Self::Pt, Error> {
            s.$chip().negate(l, p)
        }
        fn msm(s: &ZkStdLib, l: &mut impl Layouter<F>, sc: &[Self::Sc], b: &[Self::Pt]) -> Result<Self::Pt, Error> {
            s.$chip().msm(l, sc, b)
        }
        fn msm_bounded(s: &ZkStdLib, l: &mut impl Layouter<F>, sc: &[(Self::Sc, usize)], b: &[Self::Pt]) -> Result<Self::Pt, Error> {
            s.$chip().msm_by_bounded_scalars(l, sc, b)
        }
        fn mul_const(s: &ZkStdLib, l: &mut impl Layouter<F>, k: &Big, b: &Self::Pt) -> Result<Self::Pt, Error> {
            s.$chip().mul_by_constant(l, fe(k), b)
        }
        fn from_coords(s: &ZkStdLib, l: &mut impl Layouter<F>, x: &Self::Co, y: &Self::Co) -> Result<Self::Pt, Error> {
            s.$chip().point_from_coordinates(l, x, y)
        }
        fn x(s: &ZkStdLib, p: &Self::Pt) -> Self::Co {
            s.$chip().x_coordinate(p)
        }
        fn y(s: &ZkStdLib, p: &Self::Pt) -> Self::Co {
            s.$chip().y_coordinate(p)
        }
        fn is_equal(s: &ZkStdLib, l: &mut impl Layouter<F>, p: &Self::Pt, q: &Self::Pt) -> Result<AssignedBit<F>, Error> {
            EqualityInstructions::<F, Self::Pt>::is_equal(s.$chip(), l, p, q)
        }
        fn is_equal_fixed(s: &ZkStdLib, l: &mut impl Layouter<F>, p: &Self::Pt, q: &RP) -> Result<AssignedBit<F>, Error> {
            EqualityInstructions::<F, Self::Pt>::is_equal_to_fixed(s.$chip(), l, p, Self::to_lib(q))
        }
        fn assert_equal(s: &ZkStdLib, l: &mut impl Layouter<F>, p: &Self::Pt, q: &Self::Pt) -> Result<(), Error> {
            AssertionInstructions::<F, Self::Pt>::assert_equal(s.$chip(), l, p, q)
        }
        fn assert_not_equal(s: &ZkStdLib, l: &mut impl Layouter<F>, p: &Self::Pt, q: &Self::Pt) -> Result<(), Error> {
            AssertionInstructions::<F, Self::Pt>::assert_not_equal(s.$chip(), l, p, q)
        }
        fn assert_equal_fixed(s: &ZkStdLib, l: &mut impl Layouter<F>, p: &Self::Pt, q: &RP) -> Result<(), Error> {
            AssertionInstructions::<F, Self::Pt>::assert_equal_to_fixed(s.$chip(), l, p, Self::to_lib(q))
        }
        fn is_zero(s: &ZkStdLib, l: &mut impl Layouter<F>, p: &Self::Pt) -> Result<AssignedBit<F>, Error> {
            ZeroInstructions::<F, Self::Pt>::is_zero(s.$chip(), l, p)
        }
        fn select(s: &ZkStdLib, l: &mut impl Layouter<F>, c: &AssignedBit<F>, p: &Self::Pt, q: &Self::Pt) -> Result<Self::Pt, Error> {
            ControlFlowInstructions::<F, Self::Pt>::select(s.$chip(), l, c, p, q)
        }
        fn cond_swap(s: &ZkStdLib, l: &mut impl Layouter<F>, c: &AssignedBit<F>, p: &Self::Pt, q: &Self::Pt) -> Result<(Self::Pt, Self::Pt), Error> {
            ControlFlowInstructions::<F, Self::Pt>::cond_swap(s.$chip(), l, c, p, q)
        }
    };
}

// ------------------------------------------------------------------------------------------
// Jubjub (native chip)
// ------------------------------------------------------------------------------------------

#[derive(Clone)]
pub struct Jub;

impl Jub {
    pub fn to_lib(p: &RP) -> JubjubSubgroup {
        let (x, y) = p.xy().expect("harness: Edwards points are affine");
        JubjubSubgroup::from_raw_unchecked(fe::<F>(x), fe::<F>(y))
    }
    pub fn from_lib(p: &JubjubSubgroup) -> RP {
        let e: JubjubExtended = (*p).into();
        let (x, y) = e.coordinates().unwrap();
        Pt::Aff(fbig(&x), fbig(&y))
    }
}

impl Cv for Jub {
    const NAME: &'static str = "jubjub";
    const FOREIGN: bool = false;
    const PROMISES_SUBGROUP: bool = true;
    type Pt = AssignedNativePoint<JubjubExtended>;
    type Sc = AssignedScalarOfNativeCurve<JubjubExtended>;
    type Co = AssignedNative<F>;

    fn cref() -> &'static CRef {
        static C: OnceLock<CRef> = OnceLock::new();
        C.get_or_init(|| mk(rc::jubjub()))
    }
    fn arch() -> ZkStdLibArch {
        ZkStdLibArch {
            jubjub: true,
            poseidon: true,
            ..ZkStdLibArch::default()
        }
    }
    fn scalar_bits() -> usize {
        midnight_curves::Fr::NUM_BITS as usize
    }
    fn enc(v: &Val) -> Vec<F> {
        match v {
            // affine (u, v); the identity is the ordinary point (0, 1)
            Val::P(p) => {
                let (x, y) = p.xy().expect("edwards affine");
                vec![bigf(x), bigf(y)]
            }
            // little-endian bits packed into one native element (252 bits fit)
            Val::S(s) => vec![bigf(s)],
            Val::C(c) => vec![bigf(c)],
            Val::B(b) => vec![F::from(*b as u64)],
            Val::N(n) => vec![*n],
            Val::Y(b) => vec![F::from(*b as u64)],
            Val::H(_) => vec![],
        }
    }
    fn lib_enc(v: &Val) -> Option<Vec<F>> {
        match v {
            Val::P(p) => Some(<Self::Pt as Instantiable<F>>::as_public_input(&Self::to_lib(p))),
            Val::S(s) => Some(<Self::Sc as Instantiable<F>>::as_public_input(&fe::<midnight_curves::Fr>(s))),
            Val::C(c) => Some(<AssignedNative<F> as Instantiable<F>>::as_public_input(&fe::<F>(c))),
            Val::B(b) => Some(<AssignedBit<F> as Instantiable<F>>::as_public_input(b)),
            Val::N(n) => Some(<AssignedNative<F> as Instantiable<F>>::as_public_input(n)),
            Val::Y(b) => Some(<AssignedByte<F> as Instantiable<F>>::as_public_input(b)),
            Val::H(_) => None,
        }
    }
    fn width(k: Kind) -> usize {
        match k {
            Kind::P => 2,
            Kind::H => 0,
            _ => 1,
        }
    }
    fn dec(k: Kind, raw: &[F]) -> Result<Val, String> {
        let c = Self::cref();
        match k {
            Kind::P => {
                let p = Pt::Aff(fbig(&raw[0]), fbig(&raw[1]));
                if !c.curve.on_curve(&p) {
                    return Err("point not on the curve".into());
                }
                if !c.in_subgroup(&p) {
                    return Err("point outside the prime-order subgroup".into());
                }
                Ok(Val::P(p))
            }
            Kind::S => {
                let s = fbig(&raw[0]);
                if s.bits() > 252 {
                    return Err("scalar wider than 252 bits".into());
                }
                Ok(Val::S(s))
            }
            Kind::C => Ok(Val::C(fbig(&raw[0]))),
            Kind::B => match fbig(&raw[0]) {
                x if x.is_zero() => Ok(Val::B(false)),
                x if x.is_one() => Ok(Val::B(true)),
                _ => Err("not a bit".into()),
            },
            Kind::N => Ok(Val::N(raw[0])),
            Kind::Y => {
                let x = fbig(&raw[0]);
                if x.bits() > 8 {
                    return Err("not a byte".into());
                }
                Ok(Val::Y(x.to_u64_digits().first().copied().unwrap_or(0) as u8))
            }
            Kind::H => Err("witness-only value".into()),
        }
    }
    common_ecc!(jubjub, JubjubSubgroup);

    fn assign_sc(s: &ZkStdLib, l: &mut impl Layouter<F>, v: Value<Big>) -> Result<Self::Sc, Error> {
        AssignmentInstructions::<F, Self::Sc>::assign(s.jubjub(), l, v.map(|b| fe::<midnight_curves::Fr>(&b)))
    }
    fn assign_fixed_sc(s: &ZkStdLib, l: &mut impl Layouter<F>, v: &Big) -> Result<Self::Sc, Error> {
        AssignmentInstructions::<F, Self::Sc>::assign_fixed(s.jubjub(), l, fe::<midnight_curves::Fr>(v))
    }
    fn expose_sc(s: &ZkStdLib, l: &mut impl Layouter<F>, p: &Self::Sc) -> Result<(), Error> {
        PublicInputInstructions::<F, Self::Sc>::constrain_as_public_input(s.jubjub(), l, p)
    }
    fn assign_co(s: &ZkStdLib, l: &mut impl Layouter<F>, v: Value<Big>) -> Result<Self::Co, Error> {
        s.assign(l, v.map(|b| fe::<F>(&b)))
    }
    fn expose_co(s: &ZkStdLib, l: &mut impl Layouter<F>, p: &Self::Co) -> Result<(), Error> {
        s.constrain_as_public_input(l, p)
    }
    fn extra(s: &ZkStdLib, l: &mut impl Layouter<F>, op: &Op, ins: &[Asg<Self>]) -> Result<Vec<Asg<Self>>, Error> {
        match op {
            Op::JubMul => Ok(vec![Asg::P(s.jubjub().mul(l, ins[0].s(), ins[1].p())?)]),
            Op::JubMulNative => {
                let sc: Self::Sc = ConversionInstructions::<F, AssignedNative<F>, Self::Sc>::convert(s.jubjub(), l, ins[0].n())?;
                Ok(vec![Asg::P(s.jubjub().msm(l, &[sc], &[ins[1].p().clone()])?)])
            }
            Op::JubMulBytes(n) => {
                let bytes: Vec<AssignedByte<F>> = ins[..*n].iter().map(|a| a.y().clone()).collect();
                let sc = s.jubjub().scalar_from_le_bytes(l, &bytes)?;
                Ok(vec![Asg::P(s.jubjub().msm(l, &[sc], &[ins[*n].p().clone()])?)])
            }
            Op::HashToCurve(_) => {
                let xs: Vec<AssignedNative<F>> = ins.iter().map(|a| a.n().clone()).collect();
                Ok(vec![Asg::P(s.hash_to_curve(l, &xs)?)])
            }
            _ => Err(Error::Synthesis(format!("harness: {op:?} not available on jubjub"))),
        }
    }
}

// ------------------------------------------------------------------------------------------
// foreign curves
// ------------------------------------------------------------------------------------------

fn foreign_enc_pt(c: &CRef, p: &RP, lb: u32, n: u32) -> Vec<F> {
    // limbs of x then limbs of y; the identity is (0, 0) with the flag 2^lb added to x's first limb
    let (x, y, id) = match p {
        Pt::Inf => (Big::zero(), Big::zero(), true),
        Pt::Aff(x, y) => (x.clone(), y.clone(), false),
    };
    let mut v = limbs_enc(&x, &c.p, lb, n);
    v.extend(limbs_enc(&y, &c.p, lb, n));
    if id {
        v[0] += bigf(&(Big::one() << lb));
    }
    v
}

/// Decodes a foreign point. Per the documentation of `AssignedForeignPoint`, when the identity
/// flag is set the coordinates are irrelevant.
fn foreign_dec_pt(c: &CRef, raw: &[F], lb: u32, n: u32) -> Result<RP, String> {
    let n = n as usize;
    let mut xs = raw[..n].to_vec();
    let l0 = fbig(&xs[0]);
    let flag = &l0 >> lb;
    if flag > Big::one() {
        return Err("first limb of x above 2^(LOG2_BASE+1)".into());
    }
    xs[0] = bigf(&(&l0 - (&flag << lb)));
    let x = limbs_dec(&xs, &c.p, lb)?;
    let y = limbs_dec(&raw[n..2 * n], &c.p, lb)?;
    if flag.is_one() {
        return Ok(Pt::Inf);
    }
    let p = Pt::Aff(x, y);
    if !c.curve.on_curve(&p) {
        return Err("point not on the curve".into());
    }
    Ok(p)
}

fn bit_dec(raw: &F) -> Result<Val, String> {
    match fbig(raw) {
        x if x.is_zero() => Ok(Val::B(false)),
        x if x.is_one() => Ok(Val::B(true)),
        _ => Err("not a bit".into()),
    }
}

#[derive(Clone)]
pub struct Secp;

impl Secp {
    const LB: u32 = 64;
    const NL: u32 = 4;
    pub fn to_lib(p: &RP) -> K256 {
        match p {
            Pt::Inf => K256::identity(),
            Pt::Aff(x, y) => <K256 as CircuitCurve>::from_xy(fe(x), fe(y)).expect("harness: secp256k1 point not on the curve"),
        }
    }
    pub fn from_lib(p: &K256) -> RP {
        if bool::from(p.is_identity()) {
            return Pt::Inf;
        }
        let (x, y) = p.coordinates().unwrap();
        Pt::Aff(x.to_biguint(), y.to_biguint())
    }
}

impl Cv for Secp {
    const NAME: &'static str = "secp256k1";
    const FOREIGN: bool = true;
    const PROMISES_SUBGROUP: bool = false; // prime order: nothing to promise
    type Pt = AssignedForeignPoint<F, K256, MEP>;
    type Sc = AssignedField<F, midnight_curves::k256::Fq, MEP>;
    type Co = AssignedField<F, midnight_curves::k256::Fp, MEP>;

    fn cref() -> &'static CRef {
        static C: OnceLock<CRef> = OnceLock::new();
        C.get_or_init(|| mk(rc::secp256k1()))
    }
    fn arch() -> ZkStdLibArch {
        ZkStdLibArch {
            secp256k1: true,
            ..ZkStdLibArch::default()
        }
    }
    fn scalar_bits() -> usize {
        256
    }
    fn enc(v: &Val) -> Vec<F> {
        let c = Self::cref();
        match v {
            Val::P(p) => foreign_enc_pt(c, p, Self::LB, Self::NL),
            Val::S(s) => limbs_enc(s, &c.r, Self::LB, Self::NL),
            Val::C(x) => limbs_enc(x, &c.p, Self::LB, Self::NL),
            Val::B(b) => vec![F::from(*b as u64)],
            Val::N(n) => vec![*n],
            Val::Y(b) => vec![F::from(*b as u64)],
            Val::H(_) => vec![],
        }
    }
    fn lib_enc(v: &Val) -> Option<Vec<F>> {
        match v {
            Val::P(p) => Some(<Self::Pt as Instantiable<F>>::as_public_input(&Self::to_lib(p))),
            Val::S(s) => Some(<Self::Sc as Instantiable<F>>::as_public_input(&fe(s))),
            Val::C(s) => Some(<Self::Co as Instantiable<F>>::as_public_input(&fe(s))),
            Val::B(b) => Some(<AssignedBit<F> as Instantiable<F>>::as_public_input(b)),
            Val::N(n) => Some(vec![*n]),
            Val::Y(b) => Some(<AssignedByte<F> as Instantiable<F>>::as_public_input(b)),
            Val::H(_) => None,
        }
    }
    fn width(k: Kind) -> usize {
        match k {
            Kind::P => 8,
            Kind::S | Kind::C => 4,
            Kind::H => 0,
            _ => 1,
        }
    }
    fn dec(k: Kind, raw: &[F]) -> Result<Val, String> {
        let c = Self::cref();
        match k {
            Kind::P => foreign_dec_pt(c, raw, Self::LB, Self::NL).map(Val::P),
            Kind::S => limbs_dec(raw, &c.r, Self::LB).map(Val::S),
            Kind::C => limbs_dec(raw, &c.p, Self::LB).map(Val::C),
            Kind::B => bit_dec(&raw[0]),
            Kind::N => Ok(Val::N(raw[0])),
            Kind::Y => Ok(Val::Y(fbig(&raw[0]).to_u64_digits().first().copied().unwrap_or(0) as u8)),
            Kind::H => Err("witness-only value".into()),
        }
    }
    common_ecc!(secp256k1_curve, K256);

    fn assign_sc(s: &ZkStdLib, l: &mut impl Layouter<F>, v: Value<Big>) -> Result<Self::Sc, Error> {
        AssignmentInstructions::<F, Self::Sc>::assign(s.secp256k1_curve(), l, v.map(|b| fe(&b)))
    }
    fn assign_fixed_sc(s: &ZkStdLib, l: &mut impl Layouter<F>, v: &Big) -> Result<Self::Sc, Error> {
        AssignmentInstructions::<F, Self::Sc>::assign_fixed(s.secp256k1_curve(), l, fe(v))
    }
    fn expose_sc(s: &ZkStdLib, l: &mut impl Layouter<F>, p: &Self::Sc) -> Result<(), Error> {
        s.secp256k1_scalar().constrain_as_public_input(l, p)
    }
    fn assign_co(s: &ZkStdLib, l: &mut impl Layouter<F>, v: Value<Big>) -> Result<Self::Co, Error> {
        s.secp256k1_curve().base_field_chip().assign(l, v.map(|b| fe(&b)))
    }
    fn expose_co(s: &ZkStdLib, l: &mut impl Layouter<F>, p: &Self::Co) -> Result<(), Error> {
        s.secp256k1_curve().base_field_chip().constrain_as_public_input(l, p)
    }
    fn extra(s: &ZkStdLib, l: &mut impl Layouter<F>, op: &Op, ins: &[Asg<Self>]) -> Result<Vec<Asg<Self>>, Error> {
        match op {
            Op::MsmLeBits(n) => {
                let bits: Vec<AssignedBit<F>> = ins[..*n].iter().map(|a| a.b().clone()).collect();
                Ok(vec![Asg::P(s.secp256k1_curve().msm_by_le_bits(l, &[bits], &[ins[*n].p().clone()])?)])
            }
            Op::KOutOfN { n, k } => {
                let table: Vec<Self::Pt> = ins[..*n].iter().map(|a| a.p().clone()).collect();
                let sel: Vec<Value<K256>> = ins[*n..*n + *k].iter().map(|a| a.h().map(|p| Self::to_lib(&p))).collect();
                Ok(s.secp256k1_curve().k_out_of_n_points(l, &table, &sel)?.into_iter().map(Asg::P).collect())
            }
            _ => Err(Error::Synthesis(format!("harness: {op:?} not available on secp256k1"))),
        }
    }
}

#[derive(Clone)]
pub struct Bls;

impl Bls {
    const LB: u32 = 56;
    const NL: u32 = 7;
    pub fn to_lib(p: &RP) -> G1Projective {
        match p {
            Pt::Inf => G1Projective::identity(),
            Pt::Aff(x, y) => <G1Projective as CircuitCurve>::from_xy(fe(x), fe(y)).expect("harness: BLS12-381 point not on the curve"),
        }
    }
    pub fn from_lib(p: &G1Projective) -> RP {
        if bool::from(p.is_identity()) {
            return Pt::Inf;
        }
        let (x, y) = p.coordinates().unwrap();
        Pt::Aff(x.to_biguint(), y.to_biguint())
    }
}

impl Cv for Bls {
    const NAME: &'static str = "bls12_381";
    const FOREIGN: bool = true;
    const PROMISES_SUBGROUP: bool = false; // "this is the whole BLS curve" (ZkStdLib::bls12_381_curve docs)
    type Pt = AssignedForeignPoint<F, G1Projective, MEP>;
    type Sc = AssignedNative<F>;
    type Co = AssignedField<F, midnight_curves::Fp, MEP>;

    fn cref() -> &'static CRef {
        static C: OnceLock<CRef> = OnceLock::new();
        C.get_or_init(|| mk(rc::bls12_381_g1()))
    }
    fn arch() -> ZkStdLibArch {
        ZkStdLibArch {
            bls12_381: true,
            ..ZkStdLibArch::default()
        }
    }
    fn scalar_bits() -> usize {
        255
    }
    fn enc(v: &Val) -> Vec<F> {
        let c = Self::cref();
        match v {
            Val::P(p) => foreign_enc_pt(c, p, Self::LB, Self::NL),
            Val::S(s) => vec![bigf(s)],
            Val::C(x) => limbs_enc(x, &c.p, Self::LB, Self::NL),
            Val::B(b) => vec![F::from(*b as u64)],
            Val::N(n) => vec![*n],
            Val::Y(b) => vec![F::from(*b as u64)],
            Val::H(_) => vec![],
        }
    }
    fn lib_enc(v: &Val) -> Option<Vec<F>> {
        match v {
            Val::P(p) => Some(<Self::Pt as Instantiable<F>>::as_public_input(&Self::to_lib(p))),
            Val::S(s) => Some(<AssignedNative<F> as Instantiable<F>>::as_public_input(&fe::<F>(s))),
            Val::C(s) => Some(<Self::Co as Instantiable<F>>::as_public_input(&fe(s))),
            Val::B(b) => Some(<AssignedBit<F> as Instantiable<F>>::as_public_input(b)),
            Val::N(n) => Some(vec![*n]),
            Val::Y(b) => Some(<AssignedByte<F> as Instantiable<F>>::as_public_input(b)),
            Val::H(_) => None,
        }
    }
    fn width(k: Kind) -> usize {
        match k {
            Kind::P => 14,
            Kind::C => 7,
            Kind::H => 0,
            _ => 1,
        }
    }
    fn dec(k: Kind, raw: &[F]) -> Result<Val, String> {
        let c = Self::cref();
        match k {
            Kind::P => foreign_dec_pt(c, raw, Self::LB, Self::NL).map(Val::P),
            Kind::S => Ok(Val::S(fbig(&raw[0]))),
            Kind::C => limbs_dec(raw, &c.p, Self::LB).map(Val::C),
            Kind::B => bit_dec(&raw[0]),
            Kind::N => Ok(Val::N(raw[0])),
            Kind::Y => Ok(Val::Y(fbig(&raw[0]).to_u64_digits().first().copied().unwrap_or(0) as u8)),
            Kind::H => Err("witness-only value".into()),
        }
    }
    common_ecc!(bls12_381_curve, G1Projective);

    fn assign_sc(s: &ZkStdLib, l: &mut impl Layouter<F>, v: Value<Big>) -> Result<Self::Sc, Error> {
        s.assign(l, v.map(|b| fe::<F>(&b)))
    }
    fn assign_fixed_sc(s: &ZkStdLib, l: &mut impl Layouter<F>, v: &Big) -> Result<Self::Sc, Error> {
        s.assign_fixed(l, fe::<F>(v))
    }
    fn expose_sc(s: &ZkStdLib, l: &mut impl Layouter<F>, p: &Self::Sc) -> Result<(), Error> {
        s.constrain_as_public_input(l, p)
    }
    fn assign_co(s: &ZkStdLib, l: &mut impl Layouter<F>, v: Value<Big>) -> Result<Self::Co, Error> {
        s.bls12_381_curve().base_field_chip().assign(l, v.map(|b| fe(&b)))
    }
    fn expose_co(s: &ZkStdLib, l: &mut impl Layouter<F>, p: &Self::Co) -> Result<(), Error> {
        s.bls12_381_curve().base_field_chip().constrain_as_public_input(l, p)
    }
    fn extra(s: &ZkStdLib, l: &mut impl Layouter<F>, op: &Op, ins: &[Asg<Self>]) -> Result<Vec<Asg<Self>>, Error> {
        match op {
            Op::MsmLeBits(n) => {
                let bits: Vec<AssignedBit<F>> = ins[..*n].iter().map(|a| a.b().clone()).collect();
                Ok(vec![Asg::P(s.bls12_381_curve().msm_by_le_bits(l, &[bits], &[ins[*n].p().clone()])?)])
            }
            Op::KOutOfN { n, k } => {
                let table: Vec<Self::Pt> = ins[..*n].iter().map(|a| a.p().clone()).collect();
                let sel: Vec<Value<G1Projective>> = ins[*n..*n + *k].iter().map(|a| a.h().map(|p| Self::to_lib(&p))).collect();
                Ok(s.bls12_381_curve().k_out_of_n_points(l, &table, &sel)?.into_iter().map(Asg::P).collect())
            }
            Op::BlsSubgroup => {
                s.bls12_381_curve().assert_in_bls12_381_subgroup(l, ins[0].p())?;
                Ok(vec![])
            }
            _ => Err(Error::Synthesis(format!("harness: {op:?} not available on bls12_381"))),
        }
    }
}

/// hash-to-curve reference: the library's CPU Poseidon sponge (checked by C07), the CPU
/// map-to-curve of `mtc_cpu.rs` (the reference DESIGN names) for each squeezed element, then
/// the *reference* Edwards addition.
pub fn htc_reference(inputs: &[F]) -> RP {
    use midnight_circuits::{ecc::hash_to_curve::MapToCurveCPU, hash::poseidon::PoseidonChip};
    type PC = PoseidonChip<F>;
    let mut st = <PC as SpongeCPU<F, F>>::init(None);
    <PC as SpongeCPU<F, F>>::absorb(&mut st, inputs);
    let x1 = <PC as SpongeCPU<F, F>>::squeeze(&mut st);
    let x2 = <PC as SpongeCPU<F, F>>::squeeze(&mut st);
    let p1 = Jub::from_lib(&<JubjubExtended as MapToCurveCPU<JubjubExtended>>::map_to_curve(&x1));
    let p2 = Jub::from_lib(&<JubjubExtended as MapToCurveCPU<JubjubExtended>>::map_to_curve(&x2));
    Jub::cref().add(&p1, &p2)
}
