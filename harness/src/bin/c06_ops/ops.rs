//! Catalogue entries of C06: one `Op` = one gadget call with its reference semantics.

use std::marker::PhantomData;

use midnight_circuits::instructions::*;
use midnight_curves::Fq as F;
use midnight_proofs::{
    circuit::{Layouter, Value},
    plonk::Error,
};
use midnight_zk_stdlib::{ZkStdLib, ZkStdLibArch};
use mzv::engines::catalogue::OpSpec;
use mzv::refs::curve::{Big, Pt};
use num_traits::{One, Zero};

use super::cv::*;

#[derive(Clone, Debug, PartialEq)]
pub enum Op {
    /// in: P (assign, exposed)                                  out: —
    Assign,
    /// in: P (assign_as_public_input)                           out: —
    AssignAsPi,
    /// in: —                                                    out: P (assign_fixed)
    AssignFixed(RP),
    Add,
    /// add(p, p) on the same assigned variable
    AddSelf,
    Double,
    Negate,
    /// in: S×n, P×n                                             out: P
    Msm(usize),
    /// msm with the given bit bounds (inputs respect them)
    MsmBounded(Vec<usize>),
    /// msm([a, b, a], [P, P, Q]): repeated assigned scalar and repeated assigned base
    MsmShared,
    /// msm([a, a], [P, Q]): repeated assigned scalar (bases get added first on foreign chips)
    MsmSameScalar,
    /// msm([1 (assign_fixed), s], [P, Q])
    MsmFixedOne,
    /// msm([s], [assign_fixed(B)])
    MsmFixedBase(RP),
    MulConst(Big),
    /// in: C, C                                                 out: P
    FromCoords,
    /// in: P                                                    out: C, C
    Coords,
    IsEqual,
    IsEqualFixed(RP),
    AssertEqual,
    AssertNotEqual,
    AssertEqualFixed(RP),
    IsZero,
    /// in: B, P, Q                                              out: P
    Select,
    /// in: B, P, Q                                              out: P, P
    CondSwap,
    // ---- chip-specific extras
    /// Jubjub `EccChip::mul`
    JubMul,
    /// Jubjub: native element -> scalar bits (`convert`) -> msm; the scalar is wider than r
    JubMulNative,
    /// Jubjub: `scalar_from_le_bytes` (n bytes) -> msm
    JubMulBytes(usize),
    /// Jubjub: `ZkStdLib::hash_to_curve` on n native inputs
    HashToCurve(usize),
    /// foreign: `msm_by_le_bits` with one scalar of n bits
    MsmLeBits(usize),
    /// BLS12-381: `assert_in_bls12_381_subgroup`
    BlsSubgroup,
    /// foreign: `k_out_of_n_points`. in: P×n (the table, assigned and exposed), H×k (the selected
    /// points, witness only)                                     out: P×k
    KOutOfN { n: usize, k: usize },
}

impl Op {
    pub fn in_schema(&self) -> Vec<Kind> {
        use Kind::*;
        match self {
            Op::Assign | Op::AssignAsPi | Op::Double | Op::Negate | Op::AddSelf | Op::MulConst(_) | Op::Coords | Op::IsEqualFixed(_) | Op::AssertEqualFixed(_) | Op::IsZero | Op::BlsSubgroup => vec![P],
            Op::AssignFixed(_) => vec![],
            Op::Add | Op::IsEqual | Op::AssertEqual | Op::AssertNotEqual => vec![P, P],
            Op::Msm(n) => [vec![S; *n], vec![P; *n]].concat(),
            Op::MsmBounded(b) => [vec![S; b.len()], vec![P; b.len()]].concat(),
            Op::MsmShared => vec![S, S, P, P],
            Op::MsmSameScalar => vec![S, P, P],
            Op::MsmFixedOne => vec![S, P, P],
            Op::MsmFixedBase(_) => vec![S],
            Op::FromCoords => vec![C, C],
            Op::Select | Op::CondSwap => vec![B, P, P],
            Op::JubMul => vec![S, P],
            Op::JubMulNative => vec![N, P],
            Op::JubMulBytes(n) => [vec![Y; *n], vec![P]].concat(),
            Op::HashToCurve(n) => vec![N; *n],
            Op::MsmLeBits(n) => [vec![B; *n], vec![P]].concat(),
            Op::KOutOfN { n, k } => [vec![P; *n], vec![H; *k]].concat(),
        }
    }

    pub fn out_schema(&self) -> Vec<Kind> {
        use Kind::*;
        match self {
            Op::Assign | Op::AssignAsPi | Op::AssertEqual | Op::AssertNotEqual | Op::AssertEqualFixed(_) | Op::BlsSubgroup => vec![],
            Op::Coords => vec![C, C],
            Op::IsEqual | Op::IsEqualFixed(_) | Op::IsZero => vec![B],
            Op::CondSwap => vec![P, P],
            Op::KOutOfN { k, .. } => vec![P; *k],
            _ => vec![P],
        }
    }

    /// `false` where the documentation says the precondition is the caller's responsibility and
    /// is *not* enforced by constraints (then an accepted out-of-domain statement proves nothing)
    pub fn domain_enforced(&self) -> bool {
        // (x/y_coordinate of the foreign identity: unspecified, nothing is promised either way)
        !matches!(self, Op::MsmBounded(_) | Op::Coords)
    }

    /// Reference semantics. `None` = the input is outside the documented domain of the operation
    /// (the circuit must then be unsatisfiable or synthesis must refuse).
    pub fn eval<V: Cv>(&self, ins: &[Val]) -> Option<Vec<Val>> {
        let c = V::cref();
        // every point operand must be a point of the group the assigned type stands for
        for v in ins {
            if let Val::P(p) = v {
                if !c.valid(p) || (V::PROMISES_SUBGROUP && !c.in_subgroup(p)) {
                    return None;
                }
            }
        }
        let msm = |sc: &[Big], ps: &[&RP]| {
            let mut acc = c.id();
            for (s, p) in sc.iter().zip(ps) {
                acc = c.add(&acc, &c.mul(p, s));
            }
            acc
        };
        let p = |i: usize| ins[i].p();
        Some(match self {
            Op::Assign | Op::AssignAsPi => vec![],
            Op::AssignFixed(q) => vec![Val::P(q.clone())],
            Op::Add => vec![Val::P(c.add(p(0), p(1)))],
            Op::AddSelf | Op::Double => vec![Val::P(c.add(p(0), p(0)))],
            Op::Negate => vec![Val::P(c.neg(p(0)))],
            Op::Msm(n) => {
                let sc: Vec<Big> = ins[..*n].iter().map(|v| v.big()).collect();
                let ps: Vec<&RP> = ins[*n..].iter().map(|v| v.p()).collect();
                vec![Val::P(msm(&sc, &ps))]
            }
            Op::MsmBounded(b) => {
                let n = b.len();
                let sc: Vec<Big> = ins[..n].iter().map(|v| v.big()).collect();
                // precondition of msm_by_bounded_scalars; the documentation says it is *not*
                // enforced, so inputs violating it are never generated (harness bug otherwise)
                for (s, bound) in sc.iter().zip(b) {
                    if s.bits() as usize > *bound {
                        return None;
                    }
                }
                let ps: Vec<&RP> = ins[n..].iter().map(|v| v.p()).collect();
                vec![Val::P(msm(&sc, &ps))]
            }
            Op::MsmShared => vec![Val::P(msm(&[ins[0].big(), ins[1].big(), ins[0].big()], &[p(2), p(2), p(3)]))],
            Op::MsmSameScalar => vec![Val::P(msm(&[ins[0].big(), ins[0].big()], &[p(1), p(2)]))],
            Op::MsmFixedOne => vec![Val::P(msm(&[Big::one(), ins[0].big()], &[p(1), p(2)]))],
            Op::MsmFixedBase(b) => vec![Val::P(c.mul(b, &ins[0].big()))],
            Op::MulConst(k) => vec![Val::P(c.mul(p(0), k))],
            Op::FromCoords => {
                let q = Pt::Aff(ins[0].big(), ins[1].big());
                // "asserting that they satisfy the curve equation. If the curve has non-prime
                // order, the point is guaranteed to be in the prime order subgroup. (The identity
                // cannot be constructed through this function.)" — the Edwards identity (0, 1)
                // is an ordinary affine point satisfying the equation (tested as valid upstream).
                if !c.curve.on_curve(&q) || !c.in_subgroup(&q) {
                    return None;
                }
                vec![Val::P(q)]
            }
            Op::Coords => match p(0) {
                Pt::Inf => return None, // coordinates of the foreign identity are unspecified
                Pt::Aff(x, y) => vec![Val::C(x.clone()), Val::C(y.clone())],
            },
            Op::IsEqual => vec![Val::B(p(0) == p(1))],
            Op::IsEqualFixed(q) => vec![Val::B(p(0) == q)],
            Op::AssertEqual => {
                if p(0) != p(1) {
                    return None;
                }
                vec![]
            }
            Op::AssertNotEqual => {
                if p(0) == p(1) {
                    return None;
                }
                vec![]
            }
            Op::AssertEqualFixed(q) => {
                if p(0) != q {
                    return None;
                }
                vec![]
            }
            Op::IsZero => vec![Val::B(c.is_id(p(0)))],
            Op::Select => vec![Val::P(if ins[0].b() { p(1).clone() } else { p(2).clone() })],
            Op::CondSwap => {
                if ins[0].b() {
                    vec![Val::P(p(2).clone()), Val::P(p(1).clone())]
                } else {
                    vec![Val::P(p(1).clone()), Val::P(p(2).clone())]
                }
            }
            Op::JubMul => vec![Val::P(c.mul(p(1), &ins[0].big()))],
            Op::JubMulNative => vec![Val::P(c.mul(p(1), &ins[0].big()))],
            Op::JubMulBytes(n) => {
                let mut k = Big::zero();
                for (i, b) in ins[..*n].iter().enumerate() {
                    k += b.big() << (8 * i);
                }
                vec![Val::P(c.mul(p(*n), &k))]
            }
            Op::HashToCurve(_) => {
                let xs: Vec<F> = ins
                    .iter()
                    .map(|v| match v {
                        Val::N(n) => *n,
                        _ => panic!("harness: native expected"),
                    })
                    .collect();
                vec![Val::P(htc_reference(&xs))]
            }
            Op::MsmLeBits(n) => {
                // documented precondition: base != identity, "unsatisfiable if violated"
                if c.is_id(p(*n)) {
                    return None;
                }
                let mut k = Big::zero();
                for (i, b) in ins[..*n].iter().enumerate() {
                    if b.b() {
                        k += Big::one() << i;
                    }
                }
                vec![Val::P(c.mul(p(*n), &k))]
            }
            Op::BlsSubgroup => {
                if !c.in_subgroup(p(0)) {
                    return None;
                }
                vec![]
            }
            Op::KOutOfN { n, k } => {
                // contract (doc comment of k_out_of_n_points): the table points cannot be the
                // identity (else unsatisfiable); the selected points must be given in order of
                // occurrence in the table (else a synthesis error); the returned points are on the
                // table and correspond to different table entries.
                let table: Vec<&RP> = ins[..*n].iter().map(|v| v.p()).collect();
                if table.iter().any(|t| c.is_id(t)) {
                    return None;
                }
                let mut last: Option<usize> = None;
                for s in &ins[*n..*n + *k] {
                    let idx = table.iter().position(|t| *t == s.p())?;
                    if last.map(|l| idx <= l).unwrap_or(false) {
                        return None;
                    }
                    last = Some(idx);
                }
                ins[*n..*n + *k].iter().map(|s| Val::P(s.p().clone())).collect()
            }
        })
    }
}

#[derive(Clone)]
pub struct Entry<V: Cv> {
    pub op: Op,
    /// stable label (no random values)
    pub tag: String,
    _v: PhantomData<V>,
}

impl<V: Cv> Entry<V> {
    pub fn new(op: Op, tag: &str) -> Self {
        Entry {
            op,
            tag: tag.to_string(),
            _v: PhantomData,
        }
    }
    pub fn encode(vals: &[Val]) -> Vec<F> {
        vals.iter().flat_map(|v| V::enc(v)).collect()
    }
    /// position ranges (start, kind) of every slot of the public-input vector
    pub fn slots(&self) -> Vec<(usize, Kind, bool)> {
        let mut out = vec![];
        let mut pos = 0;
        for k in self.op.in_schema() {
            out.push((pos, k, true));
            pos += V::width(k);
        }
        for k in self.op.out_schema() {
            out.push((pos, k, false));
            pos += V::width(k);
        }
        out
    }
}

fn assign_kind<V: Cv>(s: &ZkStdLib, l: &mut impl Layouter<F>, k: Kind, v: Value<Val>, as_pi: bool) -> Result<Asg<V>, Error> {
    Ok(match k {
        Kind::P => {
            let pv = v.map(|v| v.p().clone());
            if as_pi {
                Asg::P(V::assign_pt_as_pi(s, l, pv)?)
            } else {
                Asg::P(V::assign_pt(s, l, pv)?)
            }
        }
        Kind::S => Asg::S(V::assign_sc(s, l, v.map(|v| v.big()))?),
        Kind::C => Asg::C(V::assign_co(s, l, v.map(|v| v.big()))?),
        Kind::B => Asg::B(s.assign(l, v.map(|v| v.b()))?),
        Kind::N => Asg::N(s.assign(
            l,
            v.map(|v| match v {
                Val::N(n) => n,
                _ => panic!("harness: native expected"),
            }),
        )?),
        Kind::Y => Asg::Y(s.assign(
            l,
            v.map(|v| match v {
                Val::Y(n) => n,
                _ => panic!("harness: byte expected"),
            }),
        )?),
        Kind::H => Asg::H(v.map(|v| v.p().clone())),
    })
}

fn expose<V: Cv>(s: &ZkStdLib, l: &mut impl Layouter<F>, a: &Asg<V>) -> Result<(), Error> {
    match a {
        Asg::P(p) => V::expose_pt(s, l, p),
        Asg::S(x) => V::expose_sc(s, l, x),
        Asg::C(x) => V::expose_co(s, l, x),
        Asg::B(x) => s.constrain_as_public_input(l, x),
        Asg::N(x) => s.constrain_as_public_input(l, x),
        Asg::Y(x) => s.constrain_as_public_input(l, x),
        Asg::H(_) => Ok(()),
    }
}

impl<V: Cv> OpSpec for Entry<V> {
    type In = Vec<Val>;

    fn name(&self) -> String {
        format!("{}/{}", V::NAME, self.tag)
    }

    fn arch(&self) -> ZkStdLibArch {
        V::arch()
    }

    fn synth(&self, s: &ZkStdLib, l: &mut impl Layouter<F>, input: Value<Vec<Val>>) -> Result<(), Error> {
        let kinds = self.op.in_schema();
        let as_pi = self.op == Op::AssignAsPi;
        let mut a: Vec<Asg<V>> = vec![];
        for (i, k) in kinds.iter().enumerate() {
            let v = input.as_ref().map(|x| x[i].clone());
            a.push(assign_kind::<V>(s, l, *k, v, as_pi)?);
        }
        if !as_pi {
            for x in &a {
                expose::<V>(s, l, x)?;
            }
        }
        let outs: Vec<Asg<V>> = match &self.op {
            Op::Assign | Op::AssignAsPi => vec![],
            Op::AssignFixed(q) => vec![Asg::P(V::assign_fixed_pt(s, l, q)?)],
            Op::Add => vec![Asg::P(V::add(s, l, a[0].p(), a[1].p())?)],
            Op::AddSelf => vec![Asg::P(V::add(s, l, a[0].p(), a[0].p())?)],
            Op::Double => vec![Asg::P(V::double(s, l, a[0].p())?)],
            Op::Negate => vec![Asg::P(V::negate(s, l, a[0].p())?)],
            Op::Msm(n) => {
                let sc: Vec<V::Sc> = a[..*n].iter().map(|x| x.s().clone()).collect();
                let ps: Vec<V::Pt> = a[*n..].iter().map(|x| x.p().clone()).collect();
                vec![Asg::P(V::msm(s, l, &sc, &ps)?)]
            }
            Op::MsmBounded(b) => {
                let n = b.len();
                let sc: Vec<(V::Sc, usize)> = a[..n].iter().zip(b).map(|(x, b)| (x.s().clone(), *b)).collect();
                let ps: Vec<V::Pt> = a[n..].iter().map(|x| x.p().clone()).collect();
                vec![Asg::P(V::msm_bounded(s, l, &sc, &ps)?)]
            }
            Op::MsmShared => {
                let sc = vec![a[0].s().clone(), a[1].s().clone(), a[0].s().clone()];
                let ps = vec![a[2].p().clone(), a[2].p().clone(), a[3].p().clone()];
                vec![Asg::P(V::msm(s, l, &sc, &ps)?)]
            }
            Op::MsmSameScalar => {
                let sc = vec![a[0].s().clone(), a[0].s().clone()];
                let ps = vec![a[1].p().clone(), a[2].p().clone()];
                vec![Asg::P(V::msm(s, l, &sc, &ps)?)]
            }
            Op::MsmFixedOne => {
                let one = V::assign_fixed_sc(s, l, &Big::one())?;
                let sc = vec![one, a[0].s().clone()];
                let ps = vec![a[1].p().clone(), a[2].p().clone()];
                vec![Asg::P(V::msm(s, l, &sc, &ps)?)]
            }
            Op::MsmFixedBase(b) => {
                let base = V::assign_fixed_pt(s, l, b)?;
                vec![Asg::P(V::msm(s, l, &[a[0].s().clone()], &[base])?)]
            }
            Op::MulConst(k) => vec![Asg::P(V::mul_const(s, l, k, a[0].p())?)],
            Op::FromCoords => vec![Asg::P(V::from_coords(s, l, a[0].c(), a[1].c())?)],
            Op::Coords => vec![Asg::C(V::x(s, a[0].p())), Asg::C(V::y(s, a[0].p()))],
            Op::IsEqual => vec![Asg::B(V::is_equal(s, l, a[0].p(), a[1].p())?)],
            Op::IsEqualFixed(q) => vec![Asg::B(V::is_equal_fixed(s, l, a[0].p(), q)?)],
            Op::AssertEqual => {
                V::assert_equal(s, l, a[0].p(), a[1].p())?;
                vec![]
            }
            Op::AssertNotEqual => {
                V::assert_not_equal(s, l, a[0].p(), a[1].p())?;
                vec![]
            }
            Op::AssertEqualFixed(q) => {
                V::assert_equal_fixed(s, l, a[0].p(), q)?;
                vec![]
            }
            Op::IsZero => vec![Asg::B(V::is_zero(s, l, a[0].p())?)],
            Op::Select => vec![Asg::P(V::select(s, l, a[0].b(), a[1].p(), a[2].p())?)],
            Op::CondSwap => {
                let (x, y) = V::cond_swap(s, l, a[0].b(), a[1].p(), a[2].p())?;
                vec![Asg::P(x), Asg::P(y)]
            }
            op => V::extra(s, l, op, &a)?,
        };
        for o in &outs {
            expose::<V>(s, l, o)?;
        }
        Ok(())
    }

    fn reference(&self, input: &Vec<Val>) -> Option<Vec<F>> {
        let outs = self.op.eval::<V>(input)?;
        let mut v = Self::encode(input);
        v.extend(Self::encode(&outs));
        Some(v)
    }

    fn n_input_positions(&self, _input: &Vec<Val>) -> usize {
        self.op.in_schema().iter().map(|k| V::width(*k)).sum()
    }
}

/// What a bound public-input vector means.
#[derive(Debug, Clone, PartialEq)]
pub enum Verdict {
    /// inputs valid and outputs equal the reference result for those inputs
    Consistent,
    /// an input slot does not decode to a value of its type (off-curve point, …)
    InvalidInput(String),
    /// inputs decode to values outside the operation's documented domain
    OutsideDomain,
    /// inputs valid, in domain, and some output differs from the reference result
    WrongOutput(String),
    /// a caller-side precondition (documented as not enforced) does not hold: nothing to judge
    Unjudged,
}

/// `k_out_of_n_points`: the selection is not public, so the bound statement is judged against
/// what the documentation promises: every returned point is on the table and the returned points
/// correspond to different table entries.
fn judge_k_out_of_n<V: Cv>(n: usize, k: usize, pi: &[F]) -> Verdict {
    let c = V::cref();
    let w = V::width(Kind::P);
    if pi.len() < (n + k) * w {
        return Verdict::WrongOutput("public-input vector too short".into());
    }
    let mut table = vec![];
    for i in 0..n {
        match V::dec(Kind::P, &pi[i * w..(i + 1) * w]) {
            Ok(Val::P(p)) => table.push(p),
            Ok(_) => unreachable!(),
            Err(why) => return Verdict::InvalidInput(format!("table entry {i}: {why}")),
        }
    }
    if table.iter().any(|t| c.is_id(t)) {
        return Verdict::OutsideDomain;
    }
    let mut outs = vec![];
    for j in 0..k {
        match V::dec(Kind::P, &pi[(n + j) * w..(n + j + 1) * w]) {
            Ok(Val::P(p)) => outs.push(p),
            Ok(_) => unreachable!(),
            Err(why) => return Verdict::WrongOutput(format!("returned point {j} is not a value of its type: {why}")),
        }
    }
    for (j, o) in outs.iter().enumerate() {
        if !table.contains(o) {
            return Verdict::WrongOutput(format!("returned point {j} is not on the table"));
        }
    }
    // injective assignment of returned points to table entries (tables may hold duplicates)
    fn matching(j: usize, outs: &[RP], table: &[RP], used: &mut Vec<bool>) -> bool {
        if j == outs.len() {
            return true;
        }
        for i in 0..table.len() {
            if !used[i] && table[i] == outs[j] {
                used[i] = true;
                if matching(j + 1, outs, table, used) {
                    return true;
                }
                used[i] = false;
            }
        }
        false
    }
    if !matching(0, &outs, &table, &mut vec![false; n]) {
        return Verdict::WrongOutput("the returned points do not correspond to different table entries".into());
    }
    Verdict::Consistent
}

pub fn judge<V: Cv>(e: &Entry<V>, pi: &[F]) -> Verdict {
    if let Op::KOutOfN { n, k } = &e.op {
        return judge_k_out_of_n::<V>(*n, *k, pi);
    }
    let mut ins = vec![];
    let mut outs = vec![];
    for (pos, k, is_in) in e.slots() {
        let w = V::width(k);
        if pos + w > pi.len() {
            return Verdict::WrongOutput("public-input vector too short".into());
        }
        let d = V::dec(k, &pi[pos..pos + w]);
        if is_in {
            match d {
                Ok(v) => ins.push(v),
                Err(why) => return Verdict::InvalidInput(format!("input slot at {pos}: {why}")),
            }
        } else {
            outs.push((pos, d));
        }
    }
    let Some(exp) = e.op.eval::<V>(&ins) else {
        return if e.op.domain_enforced() { Verdict::OutsideDomain } else { Verdict::Unjudged };
    };
    for ((pos, got), want) in outs.iter().zip(exp.iter()) {
        match got {
            Err(why) => return Verdict::WrongOutput(format!("output slot at {pos} is not a value of its type: {why}")),
            Ok(g) if g != want => return Verdict::WrongOutput(format!("output slot at {pos}: circuit binds {g:?}, reference result {want:?}")),
            _ => {}
        }
    }
    Verdict::Consistent
}
