//! Entries and ADMISSIBLE inputs of the C06 catalogue for structure-independence checks (C09).
//! Deterministic (no rng): the "random" points are fixed multiples of the reference generator,
//! the "random" scalars fixed constants reduced modulo the group order. Every entry comes with at
//! least six inputs chosen to steer data-dependent branches of the gadgets (identity / generator /
//! generic operands, P = Q, P = -Q, scalars 0, 1, r-1, all-ones windows, generic).
//!
//! Include from another binary with
//!   #[path = "c06_ops/cv.rs"] mod cv;  #[path = "c06_ops/ops.rs"] mod ops;
//!   #[path = "c06_ops/structure.rs"] mod structure;
//! (the three modules refer to each other through `super::`, so the names must be these).

#![allow(dead_code)]

use mzv::refs::curve::{Big, Pt};
use num_traits::{One, Zero};

use super::{cv::*, ops::*};

pub type StructureCase<V> = (Entry<V>, Vec<Vec<Val>>);

pub fn catalogue_for_structure_jubjub(thorough: bool) -> Vec<StructureCase<Jub>> {
    catalogue_for_structure::<Jub>(thorough)
}
pub fn catalogue_for_structure_secp256k1(thorough: bool) -> Vec<StructureCase<Secp>> {
    catalogue_for_structure::<Secp>(thorough)
}
pub fn catalogue_for_structure_bls12_381(thorough: bool) -> Vec<StructureCase<Bls>> {
    catalogue_for_structure::<Bls>(thorough)
}

fn pv(p: &RP) -> Val {
    Val::P(p.clone())
}

/// Every entry with >= 6 admissible inputs. `thorough = false` leaves out the circuits with
/// k >= 14 (foreign scalar multiplications).
pub fn catalogue_for_structure<V: Cv>(thorough: bool) -> Vec<StructureCase<V>> {
    let c = V::cref();
    let foreign = V::FOREIGN;
    let r = c.r.clone();
    let (id, g) = (c.id(), c.gen.clone());
    let r1 = c.mul(&g, &Big::from(0x1234567u64));
    let r2 = c.mul(&g, &Big::from(0xdeadbeefu64));
    let nr1 = c.neg(&r1);
    let d1 = c.add(&r1, &r1);
    let s12 = c.add(&r1, &r2);
    let k1 = (Big::from(0x9e37_79b9_7f4a_7c15u64) << 190usize | Big::from(0xf39c_c060_5ced_c834u64)) % &r;
    let k2 = (Big::from(0xc2b2_ae3d_27d4_eb4fu64) << 185usize | Big::from(0x1656_67b1_9e37_79f9u64) << 64usize | Big::from(7u8)) % &r;
    // every 4-bit window equal to 15 below the top one
    let ones = (Big::one() << (r.bits() - 1)) - Big::one();
    let mut out: Vec<StructureCase<V>> = vec![];
    let mut push = |op: Op, tag: &str, ins: Vec<Vec<Val>>| {
        assert!(ins.len() >= 6, "harness: fewer than six structure inputs for {tag}");
        for i in &ins {
            assert!(op.eval::<V>(i).is_some(), "harness: inadmissible structure input for {tag}");
        }
        out.push((Entry::<V>::new(op, tag), ins));
    };

    let singles: Vec<RP> = vec![id.clone(), g.clone(), r1.clone(), r2.clone(), nr1.clone(), d1.clone(), s12.clone()];
    let non_id: Vec<RP> = singles[1..].to_vec();
    let singles_v: Vec<Vec<Val>> = singles.iter().map(|p| vec![pv(p)]).collect();
    let non_id_v: Vec<Vec<Val>> = non_id.iter().map(|p| vec![pv(p)]).collect();
    let pairs: Vec<(RP, RP)> = vec![
        (id.clone(), id.clone()),
        (id.clone(), g.clone()),
        (g.clone(), id.clone()),
        (g.clone(), g.clone()),
        (r1.clone(), r1.clone()),
        (r1.clone(), nr1.clone()),
        (r1.clone(), r2.clone()),
        (d1.clone(), nr1.clone()),
    ];
    let pairs_v: Vec<Vec<Val>> = pairs.iter().map(|(p, q)| vec![pv(p), pv(q)]).collect();
    let equal_pairs: Vec<Vec<Val>> = singles.iter().map(|p| vec![pv(p), pv(p)]).collect();
    let unequal_pairs: Vec<Vec<Val>> = pairs_v.iter().filter(|v| v[0] != v[1]).cloned().chain([vec![pv(&r2), pv(&r1)], vec![pv(&nr1), pv(&r1)]]).collect();
    let mut sel: Vec<Vec<Val>> = vec![];
    for b in [false, true] {
        for (p, q) in [(&r1, &r2), (&id, &g), (&g, &id), (&r1, &r1)] {
            sel.push(vec![Val::B(b), pv(p), pv(q)]);
        }
    }

    push(Op::Assign, "assign", singles_v.clone());
    push(Op::AssignAsPi, "assign_as_public_input", singles_v.clone());
    push(Op::Add, "add", pairs_v.clone());
    push(Op::AddSelf, "add[same variable]", singles_v.clone());
    push(Op::Double, "double", singles_v.clone());
    push(Op::Negate, "negate", singles_v.clone());
    push(Op::Select, "select", sel.clone());
    push(Op::CondSwap, "cond_swap", sel.clone());
    push(Op::IsEqual, "is_equal", pairs_v.clone());
    push(Op::IsEqualFixed(g.clone()), "is_equal_to_fixed[generator]", singles_v.clone());
    push(Op::IsEqualFixed(id.clone()), "is_equal_to_fixed[identity]", singles_v.clone());
    push(Op::IsZero, "is_zero", singles_v.clone());
    push(Op::AssertEqual, "assert_equal", equal_pairs);
    push(Op::AssertNotEqual, "assert_not_equal", unequal_pairs);
    push(Op::Coords, "x_coordinate,y_coordinate", if foreign { non_id_v.clone() } else { singles_v.clone() });
    let coords: Vec<Vec<Val>> = (if foreign { &non_id } else { &singles })
        .iter()
        .map(|p| match p {
            Pt::Aff(x, y) => vec![Val::C(x.clone()), Val::C(y.clone())],
            Pt::Inf => unreachable!(),
        })
        .collect();
    push(Op::FromCoords, "point_from_coordinates", coords);

    // multiplication by constants (the wide-constant path of the foreign chips does not admit the
    // identity base on the pinned tree: C06 finding)
    let small_consts: Vec<Big> = vec![Big::zero(), Big::one(), Big::from(5u8), (Big::one() << 64usize) - 1u8, (Big::one() << 100usize) + 5u8];
    for k in small_consts {
        if !thorough && foreign && k.bits() > 64 {
            continue;
        }
        push(Op::MulConst(k.clone()), &format!("mul_by_constant[{} bits]", k.bits()), singles_v.clone());
    }
    if thorough || !foreign {
        push(Op::MulConst(&r - 1u8), "mul_by_constant[r-1]", if foreign { non_id_v.clone() } else { singles_v.clone() });
    }

    // variable-base multiplications
    let scalars: Vec<Big> = vec![Big::zero(), Big::one(), Big::from(2u8), &r - 1u8, ones.clone(), k1.clone(), k2.clone()];
    let mut m1: Vec<Vec<Val>> = scalars.iter().map(|s| vec![Val::S(s.clone()), pv(&r1)]).collect();
    m1.push(vec![Val::S(k1.clone()), pv(&id)]);
    m1.push(vec![Val::S(Big::zero()), pv(&id)]);
    m1.push(vec![Val::S(&r - 1u8), pv(&g)]);
    let m2: Vec<Vec<Val>> = vec![
        vec![Val::S(Big::from(5u8)), Val::S(&r - 5u8), pv(&r1), pv(&r1)],
        vec![Val::S(Big::from(3u8)), Val::S(Big::from(3u8)), pv(&r2), pv(&c.neg(&r2))],
        vec![Val::S(Big::zero()), Val::S(k1.clone()), pv(&g), pv(&id)],
        vec![Val::S(Big::one()), Val::S(Big::one()), pv(&id), pv(&id)],
        vec![Val::S(k1.clone()), Val::S(k2.clone()), pv(&r1), pv(&r2)],
        vec![Val::S(ones.clone()), Val::S(&r - 1u8), pv(&g), pv(&r1)],
        vec![Val::S(k2.clone()), Val::S(Big::zero()), pv(&r2), pv(&r1)],
    ];
    let nb = V::scalar_bits();
    let half = nb / 2 + 2;
    let hmask = Big::one() << half;
    let mb: Vec<Vec<Val>> = vec![
        vec![Val::S(Big::zero()), pv(&r1)],
        vec![Val::S(Big::one()), pv(&g)],
        vec![Val::S(&hmask - 1u8), pv(&r1)],
        vec![Val::S(&k1 % &hmask), pv(&r2)],
        vec![Val::S(&k2 % &hmask), pv(&id)],
        vec![Val::S(Big::from(2u8)), pv(&nr1)],
    ];
    if thorough || !foreign {
        push(Op::Msm(1), "msm[1]", m1.clone());
        push(Op::Msm(2), "msm[2]", m2.clone());
        push(Op::MsmBounded(vec![half]), "msm_by_bounded_scalars[half]", mb);
        let shared: Vec<Vec<Val>> = vec![
            vec![Val::S(k1.clone()), Val::S(k2.clone()), pv(&r1), pv(&r2)],
            vec![Val::S(Big::from(7u8)), Val::S(&r - 7u8), pv(&r1), pv(&r2)],
            vec![Val::S(Big::zero()), Val::S(Big::zero()), pv(&g), pv(&id)],
            vec![Val::S(Big::one()), Val::S(k1.clone()), pv(&r1), pv(&nr1)],
            vec![Val::S(&r - 1u8), Val::S(Big::one()), pv(&id), pv(&g)],
            vec![Val::S(ones.clone()), Val::S(k2.clone()), pv(&r2), pv(&r2)],
        ];
        push(Op::MsmShared, "msm[shared scalar and base variables]", shared);
        let same: Vec<Vec<Val>> = vec![
            vec![Val::S(k1.clone()), pv(&r1), pv(&nr1)],
            vec![Val::S(k2.clone()), pv(&r1), pv(&r2)],
            vec![Val::S(Big::zero()), pv(&g), pv(&id)],
            vec![Val::S(Big::one()), pv(&r1), pv(&r1)],
            vec![Val::S(&r - 1u8), pv(&id), pv(&id)],
            vec![Val::S(ones.clone()), pv(&g), pv(&r2)],
        ];
        push(Op::MsmSameScalar, "msm[same scalar variable]", same.clone());
        push(Op::MsmFixedOne, "msm[fixed scalar one]", same);
        let fb: Vec<Vec<Val>> = scalars.iter().map(|s| vec![Val::S(s.clone())]).collect();
        push(Op::MsmFixedBase(g.clone()), "msm[fixed base generator]", fb);
    }

    match V::NAME {
        "jubjub" => {
            push(Op::JubMul, "mul", m1.clone());
            let p_native = <midnight_curves::Fq as midnight_circuits::CircuitField>::modulus();
            let ns: Vec<Big> = vec![Big::zero(), Big::one(), &r - 1u8, r.clone(), &r + 1u8, (Big::one() << 254usize) - 1u8, &p_native - 1u8, k1.clone()];
            push(Op::JubMulNative, "msm[scalar = native element via convert]", ns.iter().map(|n| vec![Val::N(bigf(n)), pv(&r1)]).collect());
            let bs: Vec<Big> = vec![Big::zero(), Big::one(), r.clone(), &r + 1u8, (Big::one() << 256usize) - 1u8, k2.clone()];
            let ins: Vec<Vec<Val>> = bs
                .iter()
                .map(|b| {
                    let mut bytes = b.to_bytes_le();
                    bytes.resize(32, 0);
                    let mut v: Vec<Val> = bytes.iter().map(|x| Val::Y(*x)).collect();
                    v.push(pv(&r2));
                    v
                })
                .collect();
            push(Op::JubMulBytes(32), "msm[scalar_from_le_bytes(32)]", ins);
            let f = |x: u64| Val::N(midnight_curves::Fq::from(x));
            let neg1 = Val::N(-midnight_curves::Fq::from(1u64));
            let ins: Vec<Vec<Val>> = vec![vec![f(0), f(0)], vec![f(1), f(0)], vec![f(0), f(1)], vec![neg1.clone(), neg1.clone()], vec![f(0x1234), f(0xabcdef)], vec![Val::N(bigf(&k1)), Val::N(bigf(&k2))], vec![f(2), neg1]];
            push(Op::HashToCurve(2), "hash_to_curve[2]", ins);
        }
        _ => {
            // k_out_of_n_points: the same circuit with selections at DIFFERENT table positions
            // (first / middle / last entries; k = 1 selecting entry 0, 1, n-1; a second table)
            let pool: Vec<RP> = vec![r1.clone(), r2.clone(), d1.clone(), g.clone(), s12.clone(), nr1.clone()];
            let pool2: Vec<RP> = vec![g.clone(), c.neg(&r2), s12.clone(), r1.clone(), d1.clone(), r2.clone()];
            let sizes: Vec<(usize, usize)> = if thorough { vec![(2, 1), (3, 1), (3, 2), (4, 2), (5, 3)] } else { vec![(3, 1), (4, 2)] };
            for (n, k) in sizes {
                let mk = |table: &[RP], sel: &[usize]| -> Vec<Val> { table.iter().map(pv).chain(sel.iter().map(|i| Val::H(table[*i].clone()))).collect() };
                let mut subsets: Vec<Vec<usize>> = vec![];
                let mut cur: Vec<usize> = (0..k).collect();
                loop {
                    subsets.push(cur.clone());
                    let mut i = k;
                    while i > 0 && cur[i - 1] == n - k + i - 1 {
                        i -= 1;
                    }
                    if i == 0 {
                        break;
                    }
                    cur[i - 1] += 1;
                    for j in i..k {
                        cur[j] = cur[j - 1] + 1;
                    }
                }
                let mut ins: Vec<Vec<Val>> = subsets.iter().map(|s| mk(&pool[..n], s)).collect();
                // the same selections on a second table (and, if still short, on rotations of it)
                let mut rot = 0;
                while ins.len() < 6 {
                    let t: Vec<RP> = (0..n).map(|i| pool2[(i + rot) % pool2.len()].clone()).collect();
                    for s in subsets.iter().rev() {
                        ins.push(mk(&t, s));
                    }
                    rot += 1;
                }
                push(Op::KOutOfN { n, k }, &format!("k_out_of_n_points[{k} of {n}]"), ins);
            }
            if thorough {
                let n = nb + 2;
                let ks: Vec<Big> = vec![Big::zero(), Big::one(), &r - 1u8, r.clone(), &r + 1u8, (Big::one() << n) - 1u8, k1.clone()];
                let ins: Vec<Vec<Val>> = ks
                    .iter()
                    .map(|k| {
                        let mut v: Vec<Val> = (0..n).map(|i| Val::B(k.bit(i as u64))).collect();
                        v.push(pv(&r1));
                        v
                    })
                    .collect();
                push(Op::MsmLeBits(n), &format!("msm_by_le_bits[{n}]"), ins);
            }
        }
    }
    out
}
