//! C07 — hash gadgets equal their reference functions on every message.
//!
//! Part A (c07_ops/offcircuit.rs): off-circuit Poseidon (round-skipping `permutation_cpu`,
//!   `HashCPU`/`SpongeCPU`, `TranscriptHash for PoseidonState`) against `refs::poseidon`
//!   (textbook permutation, constants regenerated from the Grain LFSR).
//! Part B: in-circuit hashes.
//!   * façade (`ZkStdLib`): sha2_256, sha2_512, sha3_256, keccak_256, blake2b_256/512, poseidon as
//!     `OpSpec`s through `engines::catalogue::check_op` (+ a seeded ARS pass, c07_ops/raw.rs);
//!   * not exposed by the façade, reached through the public `FromScratch` constructors
//!     (c07_ops/raw_ops.rs): RIPEMD-160, `VarLenSha256Gadget`, `VarLenPoseidonGadget`, the
//!     in-circuit Poseidon sponge (absorb/squeeze interleavings).
//! References: sha2, sha3, ripemd, blake2b_simd crates; refs::poseidon.

#[path = "c07_ops/offcircuit.rs"]
mod offcircuit;
#[path = "c07_ops/raw.rs"]
mod raw;
#[path = "c07_ops/raw_ops.rs"]
mod raw_ops;

use std::collections::{BTreeMap, BTreeSet};

use ff::Field;
use midnight_circuits::{
    instructions::{AssignmentInstructions, PublicInputInstructions},
    types::{AssignedByte, AssignedNative},
};
use midnight_curves::Fq as F;
use midnight_proofs::{
    circuit::{Layouter, Value},
    plonk::Error,
};
use midnight_zk_stdlib::{MidnightCircuit, ZkStdLib, ZkStdLibArch};
use mzv::{
    common::*,
    engines::{
        ars::ArsBudget,
        catalogue::*,
        ref_eval::{collect, CollectOpts},
    },
    refs::poseidon as rp,
};
use rand::{Rng, RngCore};
use rand_chacha::ChaCha8Rng;
use raw::{check_raw, soundness_stage, SoundOpts, SoundStats};
use raw_ops::{Ripemd, SpongeScript, Step, VarPoseidon, VarSha256};
use rayon::prelude::*;
use serde_json::{json, Value as Json};
use sha2::Digest;

// ---------------------------------------------------------------------------------------------
// façade operations
// ---------------------------------------------------------------------------------------------

#[derive(Clone, Copy, Debug, PartialEq, Eq, PartialOrd, Ord)]
enum Alg {
    Sha256,
    Sha512,
    Sha3_256,
    Keccak256,
    Blake2b256,
    Blake2b512,
}

impl Alg {
    fn name(&self) -> &'static str {
        match self {
            Alg::Sha256 => "sha2_256",
            Alg::Sha512 => "sha2_512",
            Alg::Sha3_256 => "sha3_256",
            Alg::Keccak256 => "keccak_256",
            Alg::Blake2b256 => "blake2b_256",
            Alg::Blake2b512 => "blake2b_512",
        }
    }
    fn from_name(s: &str) -> Option<Alg> {
        [Alg::Sha256, Alg::Sha512, Alg::Sha3_256, Alg::Keccak256, Alg::Blake2b256, Alg::Blake2b512].into_iter().find(|a| a.name() == s)
    }
    fn digest(&self, m: &[u8]) -> Vec<u8> {
        match self {
            Alg::Sha256 => sha2::Sha256::digest(m).to_vec(),
            Alg::Sha512 => sha2::Sha512::digest(m).to_vec(),
            Alg::Sha3_256 => sha3::Sha3_256::digest(m).to_vec(),
            Alg::Keccak256 => sha3::Keccak256::digest(m).to_vec(),
            Alg::Blake2b256 => blake2b_simd::Params::new().hash_length(32).hash(m).as_bytes().to_vec(),
            Alg::Blake2b512 => blake2b_simd::Params::new().hash_length(64).hash(m).as_bytes().to_vec(),
        }
    }
}

fn fb(b: u8) -> F {
    F::from(b as u64)
}

/// One byte hash of the façade on a message of fixed length `len`; public inputs: message bytes,
/// then digest bytes (one field element per byte).
#[derive(Clone)]
struct StdHash {
    alg: Alg,
    len: usize,
}

impl OpSpec for StdHash {
    type In = Vec<u8>;
    fn name(&self) -> String {
        self.alg.name().to_string()
    }
    fn arch(&self) -> ZkStdLibArch {
        let mut a = ZkStdLibArch::default();
        match self.alg {
            Alg::Sha256 => a.sha2_256 = true,
            Alg::Sha512 => a.sha2_512 = true,
            Alg::Sha3_256 => a.sha3_256 = true,
            Alg::Keccak256 => a.keccak_256 = true,
            Alg::Blake2b256 | Alg::Blake2b512 => a.blake2b = true,
        }
        a
    }
    fn synth(&self, s: &ZkStdLib, l: &mut impl Layouter<F>, m: Value<Vec<u8>>) -> Result<(), Error> {
        let bytes: Vec<AssignedByte<F>> = s.assign_many(l, &m.transpose_vec(self.len))?;
        for b in &bytes {
            s.constrain_as_public_input(l, b)?;
        }
        let out: Vec<AssignedByte<F>> = match self.alg {
            Alg::Sha256 => s.sha2_256(l, &bytes)?.to_vec(),
            Alg::Sha512 => s.sha2_512(l, &bytes)?.to_vec(),
            Alg::Sha3_256 => s.sha3_256(l, &bytes)?.to_vec(),
            Alg::Keccak256 => s.keccak_256(l, &bytes)?.to_vec(),
            Alg::Blake2b256 => s.blake2b_256(l, &bytes)?.to_vec(),
            Alg::Blake2b512 => s.blake2b_512(l, &bytes)?.to_vec(),
        };
        for b in &out {
            s.constrain_as_public_input(l, b)?;
        }
        Ok(())
    }
    fn reference(&self, m: &Vec<u8>) -> Option<Vec<F>> {
        if m.len() != self.len {
            return None;
        }
        Some(m.iter().copied().map(fb).chain(self.alg.digest(m).into_iter().map(fb)).collect())
    }
    fn n_input_positions(&self, m: &Vec<u8>) -> usize {
        m.len()
    }
    fn extra_targets(&self, _pos: usize, honest: F) -> Vec<F> {
        // another byte value, and a value that is no byte
        vec![F::from(255u64) - honest, honest + F::from(256u64)]
    }
}

/// `ZkStdLib::poseidon` on `len` field elements; public inputs: the elements, then the digest.
#[derive(Clone)]
struct StdPoseidon {
    len: usize,
}

impl OpSpec for StdPoseidon {
    type In = Vec<F>;
    fn name(&self) -> String {
        "poseidon".into()
    }
    fn arch(&self) -> ZkStdLibArch {
        ZkStdLibArch {
            poseidon: true,
            ..ZkStdLibArch::default()
        }
    }
    fn synth(&self, s: &ZkStdLib, l: &mut impl Layouter<F>, m: Value<Vec<F>>) -> Result<(), Error> {
        let xs: Vec<AssignedNative<F>> = s.assign_many(l, &m.transpose_vec(self.len))?;
        for x in &xs {
            s.constrain_as_public_input(l, x)?;
        }
        let out = s.poseidon(l, &xs)?;
        s.constrain_as_public_input(l, &out)
    }
    fn reference(&self, m: &Vec<F>) -> Option<Vec<F>> {
        if m.len() != self.len {
            return None;
        }
        let mut v = m.clone();
        v.push(rp::hash_fixed(&rp::params_repo_stated(), m));
        Some(v)
    }
    fn n_input_positions(&self, m: &Vec<F>) -> usize {
        m.len()
    }
    fn extra_targets(&self, _pos: usize, honest: F) -> Vec<F> {
        vec![-honest]
    }
}

// ---------------------------------------------------------------------------------------------
// workload
// ---------------------------------------------------------------------------------------------

fn rand_bytes(rng: &mut ChaCha8Rng, n: usize) -> Vec<u8> {
    let mut v = vec![0u8; n];
    rng.fill_bytes(&mut v);
    v
}

/// message that looks like a padded block: data, 0x80, zeros, a big-endian bit length
fn padding_like(rng: &mut ChaCha8Rng, n: usize) -> Vec<u8> {
    let mut v = rand_bytes(rng, n);
    if n >= 10 {
        let cut = rng.gen_range(0..n - 9);
        v[cut] = 0x80;
        for b in v[cut + 1..n - 2].iter_mut() {
            *b = 0;
        }
        let bits = (cut as u16) * 8;
        v[n - 2] = (bits >> 8) as u8;
        v[n - 1] = bits as u8;
    } else if n >= 1 {
        v[0] = 0x80;
    }
    v
}

fn md_lengths(thorough: bool, max_thorough: usize, extra_boundaries: &[usize], rng: &mut ChaCha8Rng) -> Vec<usize> {
    let mut s: BTreeSet<usize> = BTreeSet::new();
    if thorough {
        s.extend(0..=max_thorough);
    } else {
        s.extend([0, 1]);
        for c in [55, 64, 112, 120, 128] {
            // 54–57, 63–65, 111–113, 119–121, 127–129
            if c == 55 {
                s.extend(54..=57);
            } else {
                s.extend(c - 1..=c + 1);
            }
        }
        s.extend(extra_boundaries.iter().copied());
        let mut n = 0;
        while n < 6 {
            if s.insert(rng.gen_range(2..=130)) {
                n += 1;
            }
        }
    }
    s.into_iter().collect()
}

type Job = Box<dyn FnOnce(&Report) -> (Report, String, SoundStats) + Send>;

fn big_budget(thorough: bool) -> ArsBudget {
    // large circuits (k >= 13): every ARS restart re-indexes the whole table, keep it short
    if thorough {
        ArsBudget {
            restarts: 4,
            nodes_per_restart: 400,
            max_changed: 12,
        }
    } else {
        ArsBudget {
            restarts: 2,
            nodes_per_restart: 200,
            max_changed: 8,
        }
    }
}

/// façade job: `check_op` on the messages, then a seeded ARS pass on the first message.
fn std_job<O: OpSpec>(op: O, inputs: Vec<O::In>, opts: OpOptions, sopts: SoundOpts, seed: u64) -> Job
where
    O::In: 'static,
{
    Box::new(move |parent: &Report| {
        let mut part = parent.fork();
        let name = op.name();
        let cs = check_op(&op, &inputs, &opts, seed, &mut part);
        let mut st = SoundStats {
            honest: cs.honest_runs,
            edits: cs.edits,
            ars_targets: cs.ars_targets,
            ars_nodes: cs.ars_nodes,
            candidates: cs.ars_candidates_wrong_output,
            ..Default::default()
        };
        if sopts.seeded_runs > 0 && part.violations.is_empty() {
            if let Some(input) = inputs.first() {
                if let Some(exp) = op.reference(input) {
                    let rel = OpRel(op.clone());
                    let r = catch_any(|| {
                        let k = MidnightCircuit::new(&rel, Value::unknown(), Value::unknown(), Some(opts.max_bit_len)).min_k();
                        let circuit = MidnightCircuit::new(&rel, Value::known(exp.clone()), Value::known(input.clone()), Some(opts.max_bit_len));
                        let tables = collect::<F, _>(k, &circuit, &[vec![], exp.clone()], CollectOpts::default());
                        (k, tables)
                    });
                    if let Ok((k, Ok(mut tables))) = r {
                        st.k = k;
                        if tables.violations(1).is_empty() {
                            let circuit = MidnightCircuit::new(&rel, Value::known(exp.clone()), Value::known(input.clone()), Some(opts.max_bit_len));
                            let mut rng = rng_for(seed, &format!("c07-seeded-{name}-{}", op.n_input_positions(input)));
                            let only_seeded = SoundOpts {
                                edit_positions: 0,
                                ars_positions: 0,
                                ..sopts.clone()
                            };
                            let desc = json!({"op": name, "input": format!("{input:?}")});
                            soundness_stage(&name, &format!("ZkStdLib::{name}"), &desc, k, &circuit, &mut tables, &exp, op.n_input_positions(input), &only_seeded, &mut rng, &mut part, &mut st);
                        }
                    }
                }
            }
        }
        (part, name, st)
    })
}

fn raw_job<O: raw::RawOp>(cases: Vec<(O, O::In)>, sopts: SoundOpts, seed: u64, label: String) -> Job {
    Box::new(move |parent: &Report| {
        let mut part = parent.fork();
        let name = cases.first().map(|c| c.0.label()).unwrap_or_default();
        let mut rng = rng_for(seed, &format!("c07-raw-{label}"));
        let st = check_raw(&cases, &sopts, &mut rng, &mut part);
        (part, name, st)
    })
}

fn poseidon_inputs(rng: &mut ChaCha8Rng, n: usize, variants: usize) -> Vec<Vec<F>> {
    let b = offcircuit::boundary_values();
    let mut out = vec![(0..n).map(|_| F::random(&mut *rng)).collect::<Vec<F>>()];
    if variants >= 2 {
        out.push(vec![F::ZERO; n]);
    }
    if variants >= 3 {
        out.push(vec![-F::ONE; n]);
    }
    for _ in 3..variants {
        out.push((0..n).map(|_| if rng.gen_bool(0.3) { b[rng.gen_range(0..b.len())] } else { F::random(&mut *rng) }).collect());
    }
    out
}

/// filler classes for the byte vectors: zeros (default), 0xFF, a random byte, 0x80 ("looks like
/// the first padding byte")
fn byte_filler(class: usize, rng: &mut ChaCha8Rng) -> (Option<u8>, &'static str) {
    match class % 4 {
        0 => (None, "zeros"),
        1 => (Some(0xFF), "0xFF"),
        2 => (Some(rng.gen_range(1..=254)), "random"),
        _ => (Some(0x80), "padding-like"),
    }
}

fn field_filler(class: usize, rng: &mut ChaCha8Rng) -> (Option<F>, &'static str) {
    match class % 4 {
        0 => (None, "zeros"),
        1 => (Some(-F::ONE), "all-ones"),
        2 => (Some(F::random(&mut *rng)), "random"),
        _ => (Some(F::ONE), "padding-like"),
    }
}

fn var_sha_cases<const M: usize>(lens: &[usize], fillers: &[usize], trim_every: usize, rng: &mut ChaCha8Rng, cov: &mut BTreeMap<String, u64>) -> Vec<(VarSha256<M>, Vec<u8>)> {
    let mut cases = vec![];
    for (i, &len) in lens.iter().enumerate() {
        for &fc in fillers {
            let class = if fillers.len() == 1 { i } else { fc };
            let (filler, fname) = byte_filler(class, rng);
            let payload = if class % 4 == 3 { padding_like(rng, len) } else { rand_bytes(rng, len) };
            *cov.entry(format!("sha256_varlen[M={M}].filler.{fname}")).or_insert(0) += 1;
            cases.push((
                VarSha256::<M> {
                    filler,
                    trim: 0,
                    pinned: payload.clone(),
                },
                payload,
            ));
        }
        // position-dependent garbage in front of the message (and a shifted buffer) through trim_beginning
        if i % trim_every == 0 && len >= 1 && len < M {
            let trim = rng.gen_range(1..=(M - len).min(70));
            let (filler, _) = byte_filler(i + 1, rng);
            let mut payload = padding_like(rng, trim);
            payload.extend(rand_bytes(rng, len));
            *cov.entry(format!("sha256_varlen[M={M}].filler.trimmed-prefix")).or_insert(0) += 1;
            cases.push((
                VarSha256::<M> {
                    filler,
                    trim,
                    pinned: payload[trim..].to_vec(),
                },
                payload,
            ));
        }
    }
    cases
}

fn var_pos_cases<const M: usize>(lens: &[usize], fillers: &[usize], trim_every: usize, rng: &mut ChaCha8Rng, cov: &mut BTreeMap<String, u64>) -> Vec<(VarPoseidon<M>, Vec<F>)> {
    let mut cases = vec![];
    for (i, &len) in lens.iter().enumerate() {
        for &fc in fillers {
            let class = if fillers.len() == 1 { i } else { fc };
            let (filler, fname) = field_filler(class, rng);
            let payload: Vec<F> = (0..len).map(|_| F::random(&mut *rng)).collect();
            *cov.entry(format!("poseidon_varlen[M={M}].filler.{fname}")).or_insert(0) += 1;
            cases.push((
                VarPoseidon::<M> {
                    filler,
                    trim: 0,
                    pinned: payload.clone(),
                },
                payload,
            ));
        }
        if i % trim_every == 0 && len >= 1 && len < M {
            let trim = rng.gen_range(1..=(M - len).min(9));
            let (filler, _) = field_filler(i + 1, rng);
            let payload: Vec<F> = (0..len + trim).map(|_| F::random(&mut *rng)).collect();
            *cov.entry(format!("poseidon_varlen[M={M}].filler.trimmed-prefix")).or_insert(0) += 1;
            cases.push((
                VarPoseidon::<M> {
                    filler,
                    trim,
                    pinned: payload[trim..].to_vec(),
                },
                payload,
            ));
        }
    }
    cases
}

fn sponge_scripts(thorough: bool, rng: &mut ChaCha8Rng) -> Vec<SpongeScript> {
    use Step::*;
    let mut v = vec![];
    // fixed-length mode: 0..=12 inputs split over one to three absorbs
    for n in 0..=12usize {
        let a = rng.gen_range(0..=n);
        let steps = match n % 3 {
            0 => vec![Absorb(n), Squeeze],
            1 => vec![Absorb(a), Absorb(n - a), Squeeze],
            _ => vec![Absorb(0), Absorb(a), Absorb(n - a), Squeeze],
        };
        v.push(SpongeScript { fixed_len: Some(n), steps });
    }
    // streaming mode
    let fixed: Vec<Vec<Step>> = vec![
        vec![Squeeze],
        vec![Squeeze, Squeeze, Squeeze],
        vec![Absorb(0), Squeeze],
        vec![Absorb(1), Squeeze, Squeeze],
        vec![Absorb(2), Squeeze, Squeeze, Squeeze],
        vec![Absorb(3), Squeeze],
        vec![Absorb(1), Squeeze, Absorb(1), Squeeze],
        vec![Absorb(1), Squeeze, Squeeze, Absorb(2), Squeeze],
        vec![Absorb(2), Squeeze, Absorb(0), Squeeze],
        vec![Absorb(1), Absorb(1), Squeeze, Squeeze, Squeeze, Squeeze],
        vec![Absorb(5), Squeeze, Squeeze, Absorb(4), Squeeze],
        vec![Absorb(12), Squeeze],
    ];
    for steps in fixed {
        v.push(SpongeScript { fixed_len: None, steps });
    }
    for _ in 0..if thorough { 150 } else { 4 } {
        let len = rng.gen_range(2..10);
        let mut steps = vec![];
        let mut total = 0;
        for _ in 0..len {
            if rng.gen_bool(0.5) || total > 14 {
                steps.push(Squeeze);
            } else {
                let n = rng.gen_range(0..5);
                total += n;
                steps.push(Absorb(n));
            }
        }
        if !steps.contains(&Squeeze) {
            steps.push(Squeeze);
        }
        v.push(SpongeScript { fixed_len: None, steps });
    }
    v
}

// ---------------------------------------------------------------------------------------------
// replay
// ---------------------------------------------------------------------------------------------

fn parse_debug_bytes(s: &str) -> Option<Vec<u8>> {
    let inner = s.trim().strip_prefix('[')?.strip_suffix(']')?;
    if inner.trim().is_empty() {
        return Some(vec![]);
    }
    inner.split(',').map(|t| t.trim().parse::<u8>().ok()).collect()
}

fn parse_debug_felts(s: &str) -> Option<Vec<F>> {
    let inner = s.trim().strip_prefix('[')?.strip_suffix(']')?;
    if inner.trim().is_empty() {
        return Some(vec![]);
    }
    inner
        .split(',')
        .map(|t| {
            let t = t.trim();
            if t.starts_with("0x") {
                Some(rp::f_from_hex(t))
            } else {
                None
            }
        })
        .collect()
}

fn parse_hex_felt(s: &str) -> Option<F> {
    let mut bytes = hex::decode(s).ok()?;
    bytes.resize(32, 0);
    let arr: [u8; 32] = bytes.try_into().ok()?;
    Option::from(<F as ff::PrimeField>::from_repr(arr))
}

fn replay_case(ctx: &Ctx, rep: &mut Report, p: &rp::Params, w: &Json) -> bool {
    let thorough = ctx.tier == Tier::Thorough;
    if offcircuit::replay(rep, p, w) {
        return true;
    }
    let sopts = SoundOpts {
        property: "C07".into(),
        edit_positions: 1,
        ars_positions: 1,
        ars: big_budget(thorough),
        seeded_runs: 0,
    };
    let mut rng = ctx.rng("c07-replay");
    if let Some(case) = w.get("case") {
        let op = case.get("op").and_then(|o| o.as_str()).unwrap_or("");
        let m = case.get("M").and_then(|m| m.as_u64()).unwrap_or(0);
        let trim = case.get("trim").and_then(|m| m.as_u64()).unwrap_or(0) as usize;
        match op {
            "ripemd160" => {
                if let Some(msg) = case.get("message").and_then(|m| m.as_str()).and_then(|h| hex::decode(h).ok()) {
                    check_raw(&[(Ripemd { len: msg.len() }, msg)], &sopts, &mut rng, rep);
                    return true;
                }
            }
            "sha256_varlen" => {
                let filler = case.get("filler").and_then(|f| f.as_u64()).map(|f| f as u8);
                if let Some(payload) = case.get("payload").and_then(|m| m.as_str()).and_then(|h| hex::decode(h).ok()) {
                    let pinned = payload[trim.min(payload.len())..].to_vec();
                    match m {
                        64 => {
                            check_raw(&[(VarSha256::<64> { filler, trim, pinned }, payload)], &sopts, &mut rng, rep);
                        }
                        128 => {
                            check_raw(&[(VarSha256::<128> { filler, trim, pinned }, payload)], &sopts, &mut rng, rep);
                        }
                        _ => return false,
                    }
                    return true;
                }
            }
            "poseidon_varlen" => {
                let filler = case.get("filler").and_then(|f| f.as_str()).and_then(parse_hex_felt);
                if let Some(payload) = case.get("payload").and_then(|m| m.as_array()).and_then(|a| a.iter().map(|x| x.as_str().and_then(parse_hex_felt)).collect::<Option<Vec<F>>>()) {
                    let pinned = payload[trim.min(payload.len())..].to_vec();
                    match m {
                        64 => {
                            check_raw(&[(VarPoseidon::<64> { filler, trim, pinned }, payload)], &sopts, &mut rng, rep);
                        }
                        128 => {
                            check_raw(&[(VarPoseidon::<128> { filler, trim, pinned }, payload)], &sopts, &mut rng, rep);
                        }
                        _ => return false,
                    }
                    return true;
                }
            }
            _ => {}
        }
        return false;
    }
    // check_op witnesses: {"op": name, "input": Debug}
    let op = w.get("op").and_then(|o| o.as_str()).unwrap_or("");
    let input = w.get("input").and_then(|o| o.as_str()).unwrap_or("");
    let mut opts = OpOptions::new("C07", thorough);
    opts.max_positions = 1;
    opts.ars = Some(big_budget(thorough));
    if op == "poseidon" {
        if let Some(xs) = parse_debug_felts(input) {
            check_op(&StdPoseidon { len: xs.len() }, &[xs], &opts, ctx.seed, rep);
            return true;
        }
    } else if let Some(alg) = Alg::from_name(op) {
        if let Some(m) = parse_debug_bytes(input) {
            check_op(&StdHash { alg, len: m.len() }, &[m], &opts, ctx.seed, rep);
            return true;
        }
    }
    false
}

// ---------------------------------------------------------------------------------------------
// main
// ---------------------------------------------------------------------------------------------

fn main() {
    let ctx = Ctx::from_args("C07");
    let mut rep = Report::new(
        &ctx,
        "Part A: case = one off-circuit Poseidon call (permutation on a state / fixed-length hash of n elements / transcript absorb-squeeze script) compared with the \
         harness' textbook Poseidon (constants regenerated from the Grain LFSR). Part B: case = (hash gadget, message length, message[, MAX, filler, trimmed prefix]): the \
         honest run must be accepted (reference evaluator and MockProver) with instance = message ‖ reference digest; every edited digest position must be rejected; ARS \
         searches an adversarial assignment towards edited digests (from the digest cell and from forced advice cells). Non-trivial = distinct accepted (gadget, message) \
         pair or distinct off-circuit input.",
    );
    let thorough = ctx.tier == Tier::Thorough;

    // 0. the reference models themselves
    if let Err(e) = rp::selftest() {
        rep.inconclusive(&format!("reference Poseidon fails its published test vector (harness bug): {e}"));
        rep.min_nontrivial = u64::MAX;
        rep.finish();
    }
    let kat: [(&str, Vec<u8>, &str); 6] = [
        ("sha2_256", Alg::Sha256.digest(b"abc"), "ba7816bf8f01cfea414140de5dae2223b00361a396177a9cb410ff61f20015ad"),
        ("sha2_512", Alg::Sha512.digest(b"abc")[..8].to_vec(), "ddaf35a193617aba"),
        ("sha3_256", Alg::Sha3_256.digest(b"abc"), "3a985da74fe225b2045c172d6bd390bd855f086e3e9d525b46bfe24511431532"),
        ("keccak_256", Alg::Keccak256.digest(b""), "c5d2460186f7233c927e7db2dcc703c0e500b653ca82273b7bfad8045d85a470"),
        ("blake2b_512", Alg::Blake2b512.digest(b"abc")[..8].to_vec(), "ba80a53f981c4d0d"),
        ("ripemd160", ripemd::Ripemd160::digest(b"abc").to_vec(), "8eb208f7e05d987a9b044a8e98c6b087f15a0bfc"),
    ];
    for (n, got, want) in kat {
        if hex::encode(&got) != want {
            rep.inconclusive(&format!("reference crate for {n} fails its known-answer vector (harness bug)"));
            rep.min_nontrivial = u64::MAX;
            rep.finish();
        }
    }
    let p = rp::params_repo_stated();
    rep.assume(
        "Poseidon reference: round constants and MDS are regenerated in the harness from the Grain LFSR / Cauchy construction with the parameters quoted in \
         constants/blstrs.rs (1 0 255 3 8 60 p) and reproduce the repository tables; the generator and the permutation are self-tested against the published instance \
         poseidonperm_x5_255_3 (R_P=57) of the reference implementation. The script's three subspace-trail checks on the MDS matrix are not re-run (first Cauchy candidate taken).",
    );
    rep.assume(
        "Conventions not fixed by the paper are taken from the repository's documentation and implemented independently: the partial-round S-box acts on the last cell \
         (the paper does not number the cells; the reference script and most other implementations use cell 0, so digests are not interoperable with those); sponge framing = capacity cell last, initialised \
         with the input length (fixed-length mode; the empty message therefore hashes to 0 without any permutation) or 2^64 (streaming mode, which pads each squeeze with \
         the number of pending elements).",
    );
    rep.assume("References for byte hashes: crates sha2, sha3 (Sha3_256, Keccak256), ripemd, blake2b_simd (unkeyed, digest length 32/64), each checked on a known-answer vector at start-up.");
    rep.assume(
        "AssignedVector buffers can only be built through assign_with_filler (one filler value for every unused cell) and trim_beginning (leaves the trimmed prefix as \
         position-dependent garbage in front of the message); arbitrary per-position filler *behind* the message is not constructible through the public API. The effective \
         message of the variable-length gadgets is pinned with is_equal_to_fixed because buffer cells cannot be exposed as public inputs from outside the crate.",
    );
    rep.assume("ARS is a bounded heuristic search: 'held' = no forged digest within the stated node budget; candidates on circuits with k > 12 are confirmed by reference evaluator ∧ MockProver only.");

    if let Some(path) = &ctx.replay {
        match load_replay(path).and_then(|j| j.get("witness").cloned()) {
            Some(w) => {
                if !replay_case(&ctx, &mut rep, &p, &w) {
                    rep.inconclusive("replay file not understood");
                }
                rep.min_nontrivial = 0;
                // a replay that reproduces prints the VIOLATION line again; one that does not is inconclusive
                if rep.violations.is_empty() {
                    rep.inconclusive("replayed case did not reproduce a violation");
                    rep.nontrivial(&1u8);
                    rep.nontrivial(&2u8);
                }
            }
            None => rep.inconclusive("cannot read replay file"),
        }
        rep.finish();
    }

    // ---------------- Part A ----------------
    let constants_ok = offcircuit::check_constants(&mut rep, &p);
    rep.set("poseidon_constants", json!({"source": p.source, "equal_to_repository_tables": constants_ok, "mds_cauchy_candidate": p.mds_candidate, "partial_round_sbox_cell": p.partial_sbox_index}));
    offcircuit::run(&ctx, &mut rep, &p);

    // ---------------- Part B ----------------
    let mut rng = ctx.rng("c07-workload");
    let mut jobs: Vec<(u32, String, Job)> = vec![]; // (weight for scheduling: heavy first, label, job)
    let mut lens_cov: BTreeMap<String, Json> = BTreeMap::new();
    let mut filler_cov: BTreeMap<String, u64> = BTreeMap::new();
    let big = big_budget(thorough);
    let seed = ctx.seed;

    let sound_big = SoundOpts {
        property: "C07".into(),
        edit_positions: 2,
        ars_positions: 1,
        ars: big.clone(),
        seeded_runs: ctx.tier.pick(2, 3),
    };
    let sound_small = SoundOpts {
        property: "C07".into(),
        edit_positions: 2,
        ars_positions: 2,
        ars: if thorough { ArsBudget::thorough() } else { ArsBudget::quick() },
        seeded_runs: ctx.tier.pick(6, 24),
    };
    let mut opts_big = OpOptions::new("C07", thorough);
    opts_big.max_positions = 1;
    opts_big.ars = Some(big.clone());
    opts_big.real_k_max = 12;
    let mut opts_small = OpOptions::new("C07", thorough);
    opts_small.max_positions = 1; // Poseidon has one output
    opts_small.real_k_max = 12;

    // byte hashes of the façade
    let plans: Vec<(Alg, Vec<usize>)> = vec![
        (Alg::Sha256, md_lengths(thorough, 130, &[], &mut rng)),
        (Alg::Sha512, md_lengths(thorough, 260, if thorough { &[] } else { &[239, 240] }, &mut rng)),
        (Alg::Sha3_256, if thorough { (0..=8).chain(130..=140).chain(270..=274).collect() } else { vec![0, 1, 135, 136, 137, rng.gen_range(2..135), rng.gen_range(138..280)] }),
        (Alg::Keccak256, if thorough { (0..=8).chain(130..=140).chain(270..=274).collect() } else { vec![0, 1, 135, 136, 137, rng.gen_range(2..135), rng.gen_range(138..280)] }),
        (Alg::Blake2b256, if thorough { (0..=3).chain(62..=66).chain(126..=130).chain(254..=258).collect() } else { vec![0, 1, 127, 128, 129] }),
        (Alg::Blake2b512, if thorough { (0..=3).chain(62..=66).chain(126..=130).chain(254..=258).collect() } else { vec![0, 1, 127, 128, 129] }),
    ];
    for (alg, lens) in &plans {
        lens_cov.insert(alg.name().to_string(), json!(lens));
        for (i, &len) in lens.iter().enumerate() {
            let mut inputs = vec![rand_bytes(&mut rng, len)];
            if thorough && len > 0 && (len % 8 == 0 || [55, 56, 63, 111, 112, 119, 120, 127].contains(&(len % 128))) {
                inputs.push(if i % 2 == 0 { padding_like(&mut rng, len) } else { vec![0xFF; len] });
            }
            // the seeded ARS pass is run on a subset of lengths only (it re-collects the tables)
            let mut so = sound_big.clone();
            if !(thorough || i % 6 == 0) {
                so.seeded_runs = 0;
            }
            jobs.push((len as u32 + 200, alg.name().to_string(), std_job(StdHash { alg: *alg, len }, inputs, opts_big.clone(), so, seed)));
        }
    }
    // Poseidon of the façade: 0..=12 inputs
    let plens: Vec<usize> = if thorough { (0..=12).chain([13, 16, 17, 31, 32, 33, 40]).collect() } else { (0..=12).collect() };
    lens_cov.insert("poseidon".into(), json!(plens));
    for &len in &plens {
        let inputs = poseidon_inputs(&mut rng, len, ctx.tier.pick(2, 5));
        jobs.push((len as u32, "poseidon".into(), std_job(StdPoseidon { len }, inputs, opts_small.clone(), sound_small.clone(), seed)));
    }
    // RIPEMD-160 (from scratch)
    let rlens = md_lengths(thorough, 130, &[], &mut rng);
    lens_cov.insert("ripemd160".into(), json!(rlens));
    for (i, &len) in rlens.iter().enumerate() {
        let mut cases = vec![(Ripemd { len }, rand_bytes(&mut rng, len))];
        if thorough && len > 0 && (len % 8 == 0 || [55, 56, 63].contains(&(len % 64))) {
            cases.push((Ripemd { len }, if i % 2 == 0 { padding_like(&mut rng, len) } else { vec![0xFF; len] }));
        }
        let mut so = sound_big.clone();
        if !(thorough || i % 6 == 0) {
            so.seeded_runs = 0;
        }
        jobs.push((len as u32 + 200, "ripemd160".into(), raw_job(cases, so, seed, format!("ripemd-{len}"))));
    }
    // variable-length SHA-256
    let all4 = [0usize, 1, 2, 3];
    let one = [0usize];
    {
        let l64: Vec<usize> = if thorough { (0..=64).collect() } else { vec![0, 1, 55, 56, 63, 64] };
        let l128: Vec<usize> = if thorough { (0..=128).collect() } else { vec![0, 1, 55, 56, 64, 65, 119, 120, 127, 128] };
        lens_cov.insert("sha256_varlen[M=64]".into(), json!(l64));
        lens_cov.insert("sha256_varlen[M=128]".into(), json!(l128));
        let fillers: &[usize] = if thorough { &all4 } else { &one };
        let mut so = sound_big.clone();
        so.seeded_runs = ctx.tier.pick(0, 1);
        so.edit_positions = 1;
        for (i, c) in var_sha_cases::<64>(&l64, fillers, ctx.tier.pick(1, 4), &mut rng, &mut filler_cov).into_iter().enumerate() {
            let mut s = so.clone();
            if i % 4 != 0 {
                s.ars_positions = 0;
            }
            jobs.push((400, "sha256_varlen".into(), raw_job(vec![c], s, seed, format!("vsha64-{i}"))));
        }
        for (i, c) in var_sha_cases::<128>(&l128, fillers, ctx.tier.pick(1, 4), &mut rng, &mut filler_cov).into_iter().enumerate() {
            let mut s = so.clone();
            if i % 4 != 0 {
                s.ars_positions = 0;
            }
            jobs.push((500, "sha256_varlen".into(), raw_job(vec![c], s, seed, format!("vsha128-{i}"))));
        }
    }
    // variable-length Poseidon
    {
        let l64: Vec<usize> = if thorough { (0..=64).collect() } else { vec![0, 1, 2, 3, 31, 32, 63, 64] };
        let l128: Vec<usize> = if thorough { (0..=128).collect() } else { vec![0, 1, 2, 5, 64, 65, 127, 128] };
        lens_cov.insert("poseidon_varlen[M=64]".into(), json!(l64));
        lens_cov.insert("poseidon_varlen[M=128]".into(), json!(l128));
        let fillers: &[usize] = if thorough { &all4 } else { &one };
        let mut so = sound_small.clone();
        so.ars = big.clone();
        so.seeded_runs = ctx.tier.pick(2, 2);
        so.edit_positions = 1;
        so.ars_positions = 1;
        for (i, c) in var_pos_cases::<64>(&l64, fillers, ctx.tier.pick(1, 4), &mut rng, &mut filler_cov).into_iter().enumerate() {
            jobs.push((100, "poseidon_varlen".into(), raw_job(vec![c], so.clone(), seed, format!("vpos64-{i}"))));
        }
        for (i, c) in var_pos_cases::<128>(&l128, fillers, ctx.tier.pick(1, 4), &mut rng, &mut filler_cov).into_iter().enumerate() {
            jobs.push((150, "poseidon_varlen".into(), raw_job(vec![c], so.clone(), seed, format!("vpos128-{i}"))));
        }
    }
    // in-circuit sponge scripts
    {
        let scripts = sponge_scripts(thorough, &mut rng);
        rep.set("sponge_scripts", json!(scripts.iter().map(|s| format!("{:?} {:?}", s.fixed_len, s.steps)).collect::<Vec<_>>()));
        for (i, s) in scripts.into_iter().enumerate() {
            let xs: Vec<F> = (0..s.n_inputs()).map(|_| F::random(&mut rng)).collect();
            let mut so = sound_small.clone();
            so.seeded_runs = ctx.tier.pick(2, 6);
            jobs.push((50, "poseidon_sponge".into(), raw_job(vec![(s, xs)], so, seed, format!("sponge-{i}"))));
        }
    }

    // `--only a,b` (development / mutation runs): keep the jobs whose gadget name is listed; the
    // workload itself is generated as in a full run, so the kept cases are the full run's cases
    let only: Option<Vec<String>> = ctx.extra.get("only").map(|s| s.split(',').map(|x| x.trim().to_string()).collect());
    if let Some(only) = &only {
        jobs.retain(|(_, label, _)| only.iter().any(|o| o == label));
        rep.set("only", json!(only));
    }
    let n_jobs = jobs.len();
    jobs.sort_by_key(|(w, _, _)| std::cmp::Reverse(*w));
    let parent = rep.fork();
    let results: Vec<Result<(Report, String, SoundStats), PanicInfo>> = jobs.into_par_iter().map(|(_, _, job)| catch_any(|| job(&parent))).collect();
    let mut per_op: BTreeMap<String, SoundStats> = BTreeMap::new();
    for r in results {
        match r {
            Ok((part, name, st)) => {
                rep.merge(part);
                per_op.entry(name).or_default().add(&st);
            }
            // a panic that escaped the per-stage capture is a harness problem, never a verdict
            Err(p) => rep.inconclusive(&format!("job panicked outside the monitored calls: {} at {}", p.message, p.location)),
        }
    }
    // every planned gadget must have been exercised
    for name in ["sha2_256", "sha2_512", "sha3_256", "keccak_256", "blake2b_256", "blake2b_512", "poseidon", "ripemd160", "sha256_varlen[M=64]", "sha256_varlen[M=128]",
                 "poseidon_varlen[M=64]", "poseidon_varlen[M=128]", "poseidon_sponge[fixed]", "poseidon_sponge[streaming]"] {
        if only.is_some() {
            break;
        }
        if per_op.get(name).map(|s| s.honest).unwrap_or(0) == 0 {
            rep.inconclusive(&format!("no case executed for {name}"));
        }
    }
    rep.set("per_gadget", json!(per_op.iter().map(|(k, s)| (k.clone(), s.json())).collect::<BTreeMap<_, _>>()));
    rep.set("message_lengths", json!(lens_cov));
    rep.set("varlen_filler_classes", json!(filler_cov));
    rep.set("jobs", json!(n_jobs));
    rep.set("circuits", json!(per_op.values().map(|s| s.honest).sum::<u64>()));
    rep.set(
        "ars_budgets",
        json!({"large_circuits(k>=13)": format!("{big:?}"), "small_circuits": format!("{:?}", sound_small.ars), "real_prover_confirmation_k_max": 12,
               "note": "candidates of from-scratch circuits are confirmed by reference evaluator and MockProver"}),
    );
    rep.set(
        "unreachable",
        json!([
            "per-position filler behind the message of an AssignedVector (only one filler value through assign_with_filler)",
            "PoseidonChip::permutation and partial_round_cpu_for_circuits (pub(crate)): exercised only through hash/sponge/varhash",
            "Sha256Chip/Sha512Chip/RipeMD160Chip word-level entry points (pub(super)): exercised only through HashInstructions::hash",
            "real-prover confirmation for from-scratch circuits (no stdlib relation); SHA-512/Keccak/BLAKE2b/RIPEMD/varlen circuits are k >= 13"
        ]),
    );
    rep.min_nontrivial = if only.is_some() { 2 } else { ctx.tier.pick(300, 3000) };
    rep.finish();
}
