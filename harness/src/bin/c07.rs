use ff::Field;
use midnight_circuits::hash::poseidon::constants::PoseidonField;
use midnight_curves::Fq as F;
use mzv::refs::poseidon as rp;

fn main() {
    println!("selftest: {:?}", rp::selftest());
    let p = rp::params_repo_stated();
    let rc = <F as PoseidonField>::ROUND_CONSTANTS;
    let mds = <F as PoseidonField>::MDS;
    let mut bad = 0;
    for r in 0..68 {
        for i in 0..3 {
            if rc[r][i] != p.round_constants[r][i] {
                bad += 1;
            }
        }
    }
    println!("rc mismatches: {bad}; first gen {} repo {}", rp::hex_of(&p.round_constants[0][0]), rp::hex_of(&rc[0][0]));
    for c in 0..4 {
        let q = rp::generate(8, 60, c, 2);
        println!("mds candidate {c}: equal={}", q.mds == mds);
    }
    let _ = F::ZERO;
}
