//! Part A of C07: the off-circuit Poseidon (`permutation_cpu`, `HashCPU`/`SpongeCPU` of
//! `PoseidonChip`, `TranscriptHash for PoseidonState`) against the harness' textbook Poseidon.

use ff::Field;
use midnight_circuits::{
    hash::poseidon::{constants::PoseidonField, permutation_cpu, round_skips::PreComputedRoundCPU, PoseidonChip, PoseidonState, VarLenPoseidonGadget},
    instructions::{hash::HashCPU, SpongeCPU},
};
use midnight_curves::Fq as F;
use midnight_proofs::transcript::TranscriptHash;
use mzv::{
    common::{catch_any, repo_file, Ctx, Report, Tier},
    refs::poseidon as rp,
};
use num_bigint::BigUint;
use num_traits::One;
use rand::Rng;
use rand_chacha::ChaCha8Rng;
use serde_json::{json, Value as Json};

use super::raw::hexf;

const CPU_FILE: &str = "circuits/src/hash/poseidon/poseidon_cpu.rs";

fn hexv(v: &[F]) -> Vec<String> {
    v.iter().map(hexf).collect()
}

pub fn boundary_values() -> Vec<F> {
    let two = BigUint::from(2u8);
    vec![
        F::ZERO,
        F::ONE,
        F::from(2u64),
        -F::ONE,
        -F::from(2u64),
        rp::f_from_big(&((rp::modulus() - BigUint::one()) / &two)),
        rp::f_from_big(&(BigUint::one() << 64)),
        rp::f_from_big(&((BigUint::one() << 64) - BigUint::one())),
        rp::f_from_big(&(BigUint::one() << 128)),
        rp::f_from_big(&(BigUint::one() << 254)),
    ]
}

/// Constant tables against the regenerated ones. Returns false if they differ.
pub fn check_constants(rep: &mut Report, p: &rp::Params) -> bool {
    let rc = <F as PoseidonField>::ROUND_CONSTANTS;
    let mds = <F as PoseidonField>::MDS;
    let mut ok = true;
    rep.eval();
    if rc.len() != p.round_constants.len() {
        rep.violation(
            "C07/poseidon-constants/round-count@circuits/src/hash/poseidon/constants/mod.rs",
            &format!("the constant table has {} rounds, the stated parameters R_F=8, R_P=60 need {}", rc.len(), p.round_constants.len()),
            json!({"table_rounds": rc.len()}),
        );
        return false;
    }
    let mut first = None;
    let mut n_bad = 0;
    for r in 0..rc.len() {
        for i in 0..rp::T {
            if rc[r][i] != p.round_constants[r][i] {
                n_bad += 1;
                first.get_or_insert((r, i));
            }
        }
    }
    if let Some((r, i)) = first {
        ok = false;
        rep.violation(
            "C07/poseidon-constants/round-constant-differs-from-grain@circuits/src/hash/poseidon/constants/blstrs.rs",
            &format!("{n_bad} round constants differ from the ones the stated Grain-LFSR parameters (1 0 255 3 8 60 p) generate; first at round {r}, cell {i}"),
            json!({"round": r, "cell": i, "table": hexf(&rc[r][i]), "regenerated": hexf(&p.round_constants[r][i]), "differing": n_bad}),
        );
    }
    let mut first = None;
    for i in 0..rp::T {
        for j in 0..rp::T {
            if mds[i][j] != p.mds[i][j] && first.is_none() {
                first = Some((i, j));
            }
        }
    }
    if let Some((i, j)) = first {
        ok = false;
        rep.violation(
            "C07/poseidon-constants/mds-differs-from-grain-cauchy@circuits/src/hash/poseidon/constants/blstrs.rs",
            &format!("the MDS table differs from the Cauchy matrix the stated Grain-LFSR parameters generate (first at [{i}][{j}])"),
            json!({"i": i, "j": j, "table": hexf(&mds[i][j]), "regenerated": hexf(&p.mds[i][j])}),
        );
    }
    rep.nontrivial(&"constants");
    rep.count_n("poseidon.constants.compared", (rc.len() * rp::T + rp::T * rp::T) as u64);
    ok
}

fn repo_permutation(state: [F; 3]) -> Result<[F; 3], String> {
    match catch_any(|| {
        let pre = PreComputedRoundCPU::<F>::init();
        let mut s = state;
        permutation_cpu(&pre, &mut s);
        s
    }) {
        Ok(s) => Ok(s),
        Err(p) => Err(format!("panic@{}: {}", repo_file(&p.file), p.message)),
    }
}

pub fn check_permutation_case(rep: &mut Report, p: &rp::Params, state: [F; 3], class: &str) {
    rep.eval();
    let mut expect = state;
    rp::permute(p, &mut expect);
    match repo_permutation(state) {
        Ok(got) if got == expect => {
            rep.nontrivial(&("perm", hexv(&state)));
            rep.count(&format!("poseidon.permutation.{class}"));
        }
        Ok(got) => {
            // tell a convention difference from a computation error
            let mut alt = state;
            let mut q = p.clone();
            q.partial_sbox_index = 0;
            rp::permute(&q, &mut alt);
            rep.violation(
                &format!("C07/poseidon-cpu/permutation-mismatch@{CPU_FILE}"),
                "permutation_cpu (round-skipping) differs from the textbook permutation with the regenerated constants",
                json!({"kind": "permutation", "state": hexv(&state), "repo": hexv(&got), "reference": hexv(&expect), "equals_reference_with_sbox_on_cell_0": got == alt}),
            );
        }
        Err(e) => rep.violation(&format!("C07/poseidon-cpu/permutation-panic@{CPU_FILE}"), &format!("permutation_cpu panics: {e}"), json!({"kind": "permutation", "state": hexv(&state)})),
    }
}

pub fn check_hash_case(rep: &mut Report, p: &rp::Params, xs: &[F], split: usize, class: &str) {
    rep.eval();
    let expect = rp::hash_fixed(p, xs);
    let v = xs.to_vec();
    let got = catch_any(|| {
        let a = <PoseidonChip<F> as HashCPU<F, F>>::hash(&v);
        let b = <VarLenPoseidonGadget<F> as HashCPU<F, F>>::hash(&v);
        // the same through the sponge interface with the input split in two absorbs
        let mut st = <PoseidonChip<F> as SpongeCPU<F, F>>::init(Some(v.len()));
        let s = split.min(v.len());
        <PoseidonChip<F> as SpongeCPU<F, F>>::absorb(&mut st, &v[..s]);
        <PoseidonChip<F> as SpongeCPU<F, F>>::absorb(&mut st, &v[s..]);
        let c = <PoseidonChip<F> as SpongeCPU<F, F>>::squeeze(&mut st);
        (a, b, c)
    });
    match got {
        Ok((a, b, c)) if a == expect && b == expect && c == expect => {
            rep.nontrivial(&("hash", hexv(xs)));
            rep.count(&format!("poseidon.hash_cpu.len{}.{class}", xs.len()));
        }
        Ok((a, b, c)) => rep.violation(
            "C07/poseidon-cpu/hash-mismatch@circuits/src/hash/poseidon/mod.rs",
            &format!("off-circuit Poseidon hash of {} elements differs from the reference sponge over the textbook permutation", xs.len()),
            json!({"kind": "hash", "inputs": hexv(xs), "split": split, "hash_cpu": hexf(&a), "varlen_hash_cpu": hexf(&b), "sponge_cpu": hexf(&c), "reference": hexf(&expect)}),
        ),
        Err(pn) => rep.violation(
            &format!("C07/poseidon-cpu/hash-panic@{}", repo_file(&pn.file)),
            &format!("off-circuit Poseidon hash panics on {} inputs: {}", xs.len(), pn.message),
            json!({"kind": "hash", "inputs": hexv(xs), "split": split}),
        ),
    }
}

/// `ops`: Some(xs) = absorb(xs), None = squeeze.
pub fn check_transcript_case(rep: &mut Report, p: &rp::Params, ops: &[Option<Vec<F>>], class: &str) {
    rep.eval();
    let mut reference = rp::Sponge::new(p);
    let mut expect = vec![];
    for o in ops {
        match o {
            Some(xs) => reference.absorb(xs),
            None => expect.push(reference.squeeze()),
        }
    }
    let got = catch_any(|| {
        let mut h = <PoseidonState<F> as TranscriptHash>::init();
        let mut out = vec![];
        for o in ops {
            match o {
                Some(xs) => TranscriptHash::absorb(&mut h, xs),
                None => out.push(TranscriptHash::squeeze(&mut h)),
            }
        }
        out
    });
    let script: Vec<Json> = ops.iter().map(|o| o.as_ref().map(|xs| json!(hexv(xs))).unwrap_or(json!("squeeze"))).collect();
    match got {
        Ok(out) if out == expect => {
            rep.nontrivial(&("transcript", script.iter().map(|j| j.to_string()).collect::<Vec<_>>()));
            rep.count(&format!("poseidon.transcript.{class}"));
        }
        Ok(out) => {
            let idx = out.iter().zip(&expect).position(|(a, b)| a != b).unwrap_or(0);
            rep.violation(
                &format!("C07/poseidon-transcript/squeeze-mismatch@{CPU_FILE}"),
                &format!("PoseidonState as TranscriptHash: squeeze #{idx} differs from the reference streaming sponge over the textbook permutation"),
                json!({"kind": "transcript", "script": script, "repo": hexv(&out), "reference": hexv(&expect)}),
            );
        }
        Err(pn) => rep.violation(
            &format!("C07/poseidon-transcript/panic@{}", repo_file(&pn.file)),
            &format!("PoseidonState as TranscriptHash panics: {}", pn.message),
            json!({"kind": "transcript", "script": script}),
        ),
    }
}

fn rand_elems(rng: &mut ChaCha8Rng, n: usize, bvals: &[F]) -> Vec<F> {
    (0..n).map(|_| if rng.gen_range(0..6) == 0 { bvals[rng.gen_range(0..bvals.len())] } else { F::random(&mut *rng) }).collect()
}

pub fn run(ctx: &Ctx, rep: &mut Report, p: &rp::Params) {
    let thorough = ctx.tier == Tier::Thorough;
    let mut rng = ctx.rng("c07-offcircuit");
    let b = boundary_values();
    // --- permutation: every triple of the first five boundary values, every boundary value in every cell, random ---
    for x in &b[..5] {
        for y in &b[..5] {
            for z in &b[..5] {
                check_permutation_case(rep, p, [*x, *y, *z], "boundary");
            }
        }
    }
    for v in &b {
        for pos in 0..3 {
            let mut s = [F::random(&mut rng), F::random(&mut rng), F::random(&mut rng)];
            s[pos] = *v;
            check_permutation_case(rep, p, s, "boundary-one-cell");
        }
    }
    for _ in 0..ctx.tier.pick(300, 20_000) {
        check_permutation_case(rep, p, [F::random(&mut rng), F::random(&mut rng), F::random(&mut rng)], "random");
    }
    // --- fixed-length hash: 0..=12 inputs (thorough: 0..=48) ---
    let max_len = ctx.tier.pick(12, 48);
    for n in 0..=max_len {
        check_hash_case(rep, p, &vec![F::ZERO; n], n / 2, "zeros");
        check_hash_case(rep, p, &vec![-F::ONE; n], 1, "minus-one");
        for _ in 0..ctx.tier.pick(4, 40) {
            let xs = rand_elems(&mut rng, n, &b);
            let split = rng.gen_range(0..=n);
            check_hash_case(rep, p, &xs, split, "random");
        }
    }
    // a second squeeze on a fixed-length sponge is a documented panic: counted, not failed
    let second = catch_any(|| {
        let mut st = <PoseidonChip<F> as SpongeCPU<F, F>>::init(Some(1));
        <PoseidonChip<F> as SpongeCPU<F, F>>::absorb(&mut st, &[F::ONE]);
        let _ = <PoseidonChip<F> as SpongeCPU<F, F>>::squeeze(&mut st);
        <PoseidonChip<F> as SpongeCPU<F, F>>::squeeze(&mut st)
    });
    rep.count(if second.is_err() { "poseidon.sponge_cpu.second_squeeze_on_fixed.documented_panic" } else { "poseidon.sponge_cpu.second_squeeze_on_fixed.returned" });
    // --- transcript hash: fixed interleavings, then random scripts ---
    let e = |n: usize, rng: &mut ChaCha8Rng| Some(rand_elems(rng, n, &b));
    let fixed_scripts: Vec<Vec<Option<Vec<F>>>> = vec![
        vec![None],
        vec![None, None, None, None, None],
        vec![e(0, &mut rng), None],
        vec![e(1, &mut rng), None],
        vec![e(2, &mut rng), None],
        vec![e(3, &mut rng), None, None, None],
        vec![e(1, &mut rng), e(1, &mut rng), None],
        vec![e(1, &mut rng), None, e(1, &mut rng), None],
        vec![e(1, &mut rng), None, None, e(1, &mut rng), None],
        vec![e(2, &mut rng), None, e(0, &mut rng), None],
        vec![e(2, &mut rng), None, None, e(0, &mut rng), None, None, None],
        vec![None, None, None, e(1, &mut rng), None],
        vec![Some(vec![F::ZERO]), None],
        vec![Some(vec![F::ZERO, F::ZERO]), None],
        vec![Some(vec![F::ONE]), None],
        vec![Some(vec![F::from(1u64)]), None, None],
        vec![Some(vec![rp::streaming_tag()]), None],
    ];
    for s in &fixed_scripts {
        check_transcript_case(rep, p, s, "fixed-script");
    }
    for n in 0..=12 {
        check_transcript_case(rep, p, &[e(n, &mut rng), None, None], "absorb-n-squeeze-2");
    }
    for _ in 0..ctx.tier.pick(150, 4000) {
        let len = rng.gen_range(2..ctx.tier.pick(14, 40));
        let mut ops = vec![];
        for _ in 0..len {
            if rng.gen_bool(0.5) {
                ops.push(None);
            } else {
                let n = if thorough { rng.gen_range(0..9) } else { rng.gen_range(0..5) };
                ops.push(e(n, &mut rng));
            }
        }
        check_transcript_case(rep, p, &ops, "random-script");
    }
}

/// `--replay` of a part-A witness.
pub fn replay(rep: &mut Report, p: &rp::Params, w: &Json) -> bool {
    let parse = |s: &Json| -> Option<F> {
        let mut bytes = hex::decode(s.as_str()?).ok()?;
        bytes.resize(32, 0);
        let arr: [u8; 32] = bytes.try_into().ok()?;
        Option::from(<F as ff::PrimeField>::from_repr(arr))
    };
    let parse_vec = |j: &Json| -> Option<Vec<F>> { j.as_array()?.iter().map(parse).collect() };
    match w.get("kind").and_then(|k| k.as_str()) {
        Some("permutation") => {
            if let Some(s) = w.get("state").and_then(parse_vec) {
                if s.len() == 3 {
                    check_permutation_case(rep, p, [s[0], s[1], s[2]], "replay");
                    return true;
                }
            }
            false
        }
        Some("hash") => {
            if let Some(xs) = w.get("inputs").and_then(parse_vec) {
                let split = w.get("split").and_then(|s| s.as_u64()).unwrap_or(0) as usize;
                check_hash_case(rep, p, &xs, split, "replay");
                return true;
            }
            false
        }
        Some("transcript") => {
            if let Some(arr) = w.get("script").and_then(|s| s.as_array()) {
                let mut ops = vec![];
                for o in arr {
                    if o.as_str() == Some("squeeze") {
                        ops.push(None);
                    } else if let Some(xs) = parse_vec(o) {
                        ops.push(Some(xs));
                    } else {
                        return false;
                    }
                }
                check_transcript_case(rep, p, &ops, "replay");
                return true;
            }
            false
        }
        _ => false,
    }
}
