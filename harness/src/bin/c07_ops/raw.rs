//! Driver for hash chips that the `ZkStdLib` façade does not expose (RIPEMD-160, variable-length
//! SHA-256 / Poseidon, the in-circuit Poseidon sponge): they are instantiated through their public
//! `FromScratch` constructors (cargo feature `testing` of midnight-circuits) inside a small
//! harness-side `Circuit`, and go through the same stages as `engines::catalogue::check_op`:
//! completeness against the reference (reference evaluator ∧ MockProver), output edits, ARS.
//! The generic helpers (`mock_with`, `soundness_stage`) work on any `Circuit<F>` and are also used
//! for an additional *seeded* ARS pass on the façade operations.

use std::collections::BTreeMap;

use ff::Field;
use midnight_circuits::{
    field::{
        decomposition::chip::{P2RDecompositionChip, P2RDecompositionConfig},
        NativeChip, NativeGadget,
    },
    testing_utils::FromScratch,
};
use midnight_curves::Fq as F;
use midnight_proofs::{
    circuit::{Layouter, SimpleFloorPlanner, Value},
    dev::{CellValue, MockProver},
    plonk::{k_from_circuit, Circuit, ConstraintSystem, Error},
};
use mzv::{
    common::{catch_any, fnv, repo_file, Report},
    engines::{
        ars::{attack, ArsBudget},
        catalogue::{bound_instance, bound_len},
        ref_eval::{collect, CollectOpts, Tables},
    },
};
use rand::{seq::SliceRandom, Rng};
use rand_chacha::ChaCha8Rng;
use serde_json::{json, Value as Json};

pub type NG = NativeGadget<F, P2RDecompositionChip<F>, NativeChip<F>>;

pub fn hexf(f: &F) -> String {
    hex::encode(f.to_bytes_le())
}

pub trait RawOp: Clone + Send + Sync + 'static {
    type In: Clone + Send + Sync + std::fmt::Debug;
    type Chip: FromScratch<F>;

    /// stable name used in signatures (no lengths, no sizes, no contents)
    fn name(&self) -> String;
    /// public API the case goes through (signature suffix after '@')
    fn api(&self) -> String;
    /// key of the per-gadget statistics (may carry MAX)
    fn label(&self) -> String {
        self.name()
    }
    /// everything the circuit structure depends on (k is cached per shape)
    fn shape(&self) -> String;
    /// self-contained description of the case for witnesses
    fn describe(&self, input: &Self::In) -> Json;
    fn synth(&self, chip: &Self::Chip, ng: &NG, l: &mut impl Layouter<F>, input: Value<Self::In>) -> Result<(), Error>;
    /// expected raw public-input vector (inputs first, then outputs)
    fn reference(&self, input: &Self::In) -> Vec<F>;
    fn n_input_positions(&self, input: &Self::In) -> usize;
}

#[derive(Clone)]
pub struct RawCircuit<O: RawOp> {
    pub op: O,
    pub input: Value<O::In>,
}

impl<O: RawOp> Circuit<F> for RawCircuit<O> {
    type Config = (<O::Chip as FromScratch<F>>::Config, P2RDecompositionConfig);
    type FloorPlanner = SimpleFloorPlanner;
    type Params = ();

    fn without_witnesses(&self) -> Self {
        RawCircuit {
            op: self.op.clone(),
            input: Value::unknown(),
        }
    }

    fn configure(meta: &mut ConstraintSystem<F>) -> Self::Config {
        let committed = meta.instance_column();
        let plain = meta.instance_column();
        let cols = [committed, plain];
        (<O::Chip as FromScratch<F>>::configure_from_scratch(meta, &cols), <NG as FromScratch<F>>::configure_from_scratch(meta, &cols))
    }

    fn synthesize(&self, config: Self::Config, mut layouter: impl Layouter<F>) -> Result<(), Error> {
        let chip = <O::Chip as FromScratch<F>>::new_from_scratch(&config.0);
        let ng = <NG as FromScratch<F>>::new_from_scratch(&config.1);
        self.op.synth(&chip, &ng, &mut layouter, self.input.clone())?;
        chip.load_from_scratch(&mut layouter)?;
        ng.load_from_scratch(&mut layouter)
    }
}

/// MockProver on the circuit with some advice cells overwritten (hook H2).
pub fn mock_with<C: Circuit<F>>(k: u32, circuit: &C, pi: &[F], changed: &BTreeMap<(usize, usize), F>) -> Result<bool, String> {
    match catch_any(|| {
        let mut mp = MockProver::<F>::run(k, circuit, vec![vec![], pi.to_vec()]).map_err(|e| format!("{e:?}"))?;
        for ((c, r), v) in changed {
            mp.advice_mut()[*c][*r] = CellValue::Assigned(*v);
        }
        Ok::<bool, String>(mp.verify().is_ok())
    }) {
        Ok(r) => r,
        Err(p) => Err(format!("panic@{}: {}", repo_file(&p.file), p.message)),
    }
}

#[derive(Clone, Debug)]
pub struct SoundOpts {
    pub property: String,
    /// digest positions whose edits are checked with the honest witness
    pub edit_positions: usize,
    /// of those, how many are also attacked by ARS (digest-cell start)
    pub ars_positions: usize,
    pub ars: ArsBudget,
    /// extra ARS runs that start from a forced advice cell (hint attack) plus an edited digest
    pub seeded_runs: usize,
}

#[derive(Default, Clone, Debug)]
pub struct SoundStats {
    pub honest: u64,
    pub edits: u64,
    pub ars_targets: u64,
    pub ars_seeded: u64,
    pub ars_nodes: u64,
    pub candidates: u64,
    pub k: u32,
}

impl SoundStats {
    pub fn add(&mut self, o: &SoundStats) {
        self.honest += o.honest;
        self.edits += o.edits;
        self.ars_targets += o.ars_targets;
        self.ars_seeded += o.ars_seeded;
        self.ars_nodes += o.ars_nodes;
        self.candidates += o.candidates;
        self.k = self.k.max(o.k);
    }
    pub fn json(&self) -> Json {
        json!({"k": self.k, "honest": self.honest, "edits": self.edits, "ars_targets": self.ars_targets, "ars_seeded": self.ars_seeded,
               "ars_nodes": self.ars_nodes, "ars_wrong_output_candidates": self.candidates})
    }
}

/// Picks `n` of the output positions: first, last, then seeded random ones.
fn pick_positions(n_in: usize, len: usize, n: usize, rng: &mut ChaCha8Rng) -> Vec<usize> {
    let all: Vec<usize> = (n_in..len).collect();
    if n == 0 {
        return vec![];
    }
    if all.len() <= n {
        return all;
    }
    let mut out = vec![];
    if n >= 1 {
        out.push(all[0]);
    }
    if n >= 2 {
        out.push(*all.last().unwrap());
    }
    let mut rest: Vec<usize> = all[1..all.len() - 1].to_vec();
    rest.shuffle(rng);
    out.extend(rest.into_iter().take(n.saturating_sub(2)));
    out
}

/// Output edits with the honest witness + ARS from the digest cells (+ seeded ARS).
/// `tables` must be the honest tables with instance = `exp` (already checked satisfied).
#[allow(clippy::too_many_arguments)]
pub fn soundness_stage<C: Circuit<F>>(
    name: &str,
    api: &str,
    desc: &Json,
    k: u32,
    circuit: &C,
    tables: &mut Tables<F>,
    exp: &[F],
    n_in: usize,
    opts: &SoundOpts,
    rng: &mut ChaCha8Rng,
    rep: &mut Report,
    st: &mut SoundStats,
) {
    let prop = &opts.property;
    let positions = pick_positions(n_in, exp.len(), opts.edit_positions, rng);
    let confirm = |tables: &mut Tables<F>, pos: usize, tv: F, changed: &BTreeMap<(usize, usize), F>, nodes: u64, kind: &str, rep: &mut Report| {
        let mut target_pi = exp.to_vec();
        target_pi[pos] = tv;
        let reference_ok = tables.violations(1).is_empty();
        let mock = mock_with(k, circuit, &target_pi, changed);
        let w = json!({"case": desc, "k": k, "position": pos - n_in, "honest_output": hexf(&exp[pos]), "forged_output": hexf(&tv),
            "changed_cells": changed.iter().map(|((c, r), v)| json!([c, r, hexf(v)])).collect::<Vec<_>>(),
            "reference_evaluator": reference_ok, "mock": format!("{mock:?}"), "nodes": nodes, "start": kind});
        if reference_ok && matches!(mock, Ok(true)) {
            rep.violation(
                &format!("{prop}/{name}/forged-output@{api}"),
                &format!("adversarial assignment ({} changed cells) makes the hash circuit accept a wrong digest at position {} (reference evaluator and MockProver accept)", changed.len(), pos - n_in),
                w,
            );
        } else {
            rep.inconclusive(&format!("{name}: ARS candidate not confirmed: reference={reference_ok} mock={mock:?}"));
        }
    };
    for (pi, &pos) in positions.iter().enumerate() {
        let mut targets = vec![exp[pos] + F::ONE, F::ZERO, exp[pos] + F::from(256u64)];
        targets.retain(|t| *t != exp[pos]);
        targets.dedup();
        for (ti, tv) in targets.into_iter().enumerate() {
            st.edits += 1;
            rep.eval();
            let old = tables.instance[1][pos];
            tables.instance[1][pos] = tv;
            let sat = tables.violations(1).is_empty();
            tables.instance[1][pos] = old;
            if sat {
                rep.violation(
                    &format!("{prop}/{name}/edited-output-accepted@{api}"),
                    &format!("honest witness accepted with digest position {} edited", pos - n_in),
                    json!({"case": desc, "position": pos - n_in, "value": hexf(&tv)}),
                );
            }
            if pi < opts.ars_positions && ti == 0 {
                st.ars_targets += 1;
                let honest_adv = tables.advice.clone();
                let (att, stats) = attack(tables, &[(1, pos, tv)], &[], &opts.ars, rng);
                st.ars_nodes += stats.nodes;
                if let Some(att) = att {
                    st.candidates += 1;
                    confirm(tables, pos, tv, &att.changed, stats.nodes, "digest-cell", rep);
                    tables.advice = honest_adv;
                    tables.instance[1][pos] = old;
                }
            }
        }
    }
    // seeded runs: force one assigned advice cell to a different value and aim at an edited digest
    if opts.seeded_runs > 0 && exp.len() > n_in {
        let cells = tables.assigned_advice_cells();
        if !cells.is_empty() {
            // stratify by column so that narrow chips (Poseidon partial-round columns) are reached
            let mut by_col: BTreeMap<usize, Vec<(usize, usize)>> = BTreeMap::new();
            for c in &cells {
                by_col.entry(c.0).or_default().push(*c);
            }
            let cols: Vec<usize> = by_col.keys().copied().collect();
            for i in 0..opts.seeded_runs {
                let col = cols[(i + rng.gen_range(0..cols.len())) % cols.len()];
                let cell = *by_col[&col].choose(rng).unwrap();
                let pos = rng.gen_range(n_in..exp.len());
                let tv = exp[pos] + F::ONE;
                let v = tables.advice[cell.0][cell.1];
                let nv = match rng.gen_range(0..4) {
                    0 => F::ZERO,
                    1 => v + F::ONE,
                    2 => -v,
                    _ => v + F::from(1u64 << 32),
                };
                if nv == v {
                    continue;
                }
                st.ars_seeded += 1;
                rep.eval();
                let honest_adv = tables.advice.clone();
                let old = tables.instance[1][pos];
                let (att, stats) = attack(tables, &[(1, pos, tv)], &[(cell, nv)], &opts.ars, rng);
                st.ars_nodes += stats.nodes;
                if let Some(att) = att {
                    st.candidates += 1;
                    confirm(tables, pos, tv, &att.changed, stats.nodes, &format!("seed advice[{}][{}]", cell.0, cell.1), rep);
                    tables.advice = honest_adv;
                    tables.instance[1][pos] = old;
                }
            }
        }
    }
}

/// What a failed honest run means: the circuit is satisfiable with a *different* digest (the one
/// its copy constraints bind) → digest mismatch; not satisfiable at all → rejects-honest.
pub fn classify_honest_failure(tables: &mut Tables<F>, exp: &[F]) -> (bool, Vec<F>) {
    let bound = bound_instance(tables, 1, exp);
    let old = tables.instance.clone();
    for (i, v) in bound.iter().enumerate() {
        if i < tables.instance[1].len() {
            tables.instance[1][i] = *v;
        }
    }
    let sat = tables.violations(1).is_empty();
    tables.instance = old;
    (sat, bound)
}

thread_local! {
    static K_CACHE: std::cell::RefCell<BTreeMap<String, u32>> = const { std::cell::RefCell::new(BTreeMap::new()) };
}

pub fn k_of<O: RawOp>(op: &O) -> Result<u32, String> {
    let key = format!("{}|{}", op.name(), op.shape());
    if let Some(k) = K_CACHE.with(|c| c.borrow().get(&key).copied()) {
        return Ok(k);
    }
    let c = RawCircuit {
        op: op.clone(),
        input: Value::unknown(),
    };
    match catch_any(|| k_from_circuit(&c)) {
        Ok(k) => {
            K_CACHE.with(|c| c.borrow_mut().insert(key, k));
            Ok(k)
        }
        Err(p) => Err(format!("panic@{}: {}", repo_file(&p.file), p.message)),
    }
}

/// All stages for a list of cases of from-scratch chips.
pub fn check_raw<O: RawOp>(cases: &[(O, O::In)], opts: &SoundOpts, rng: &mut ChaCha8Rng, rep: &mut Report) -> SoundStats {
    let mut st = SoundStats::default();
    let prop = opts.property.clone();
    for (op, input) in cases {
        let name = op.name();
        let api = op.api();
        let label = op.label();
        let desc = op.describe(input);
        let k = match k_of(op) {
            Ok(k) => k,
            Err(e) => {
                rep.violation(
                    &format!("{prop}/{name}/panic-on-unknown-witness@{api}"),
                    &format!("synthesising the hash circuit with an unknown witness fails: {e}"),
                    json!({"case": desc}),
                );
                continue;
            }
        };
        st.k = st.k.max(k);
        let exp = op.reference(input);
        let n_in = op.n_input_positions(input);
        let circuit = RawCircuit {
            op: op.clone(),
            input: Value::known(input.clone()),
        };
        rep.eval();
        st.honest += 1;
        let collected = catch_any(|| collect::<F, _>(k, &circuit, &[vec![], exp.clone()], CollectOpts::default()));
        let mut tables = match collected {
            Err(p) => {
                rep.violation(
                    &format!("{prop}/{name}/panic-on-admissible-input@{}", repo_file(&p.file)),
                    &format!("synthesis panics on an admissible input: {}", p.message),
                    json!({"case": desc, "panic": format!("{p:?}")}),
                );
                continue;
            }
            Ok(Err(e)) => {
                rep.violation(&format!("{prop}/{name}/synthesis-error-on-admissible-input@{api}"), &format!("synthesis fails on an admissible input: {e}"), json!({"case": desc}));
                continue;
            }
            Ok(Ok(t)) => t,
        };
        if bound_len(&tables, 1) != exp.len() {
            rep.violation(
                &format!("{prop}/{name}/public-input-count@{api}"),
                &format!("the circuit binds {} raw public inputs, the reference encoding has {}", bound_len(&tables, 1), exp.len()),
                json!({"case": desc}),
            );
            continue;
        }
        let fails = tables.violations(4);
        if !fails.is_empty() {
            // re-execute the case once before reporting (BUILDERS.md): a failure that does not
            // reproduce is harness non-determinism, not a verdict
            let again = catch_any(|| collect::<F, _>(k, &circuit, &[vec![], exp.clone()], CollectOpts::default()));
            let reproduced = matches!(&again, Ok(Ok(t2)) if !t2.violations(1).is_empty());
            if !reproduced {
                rep.inconclusive(&format!("{label}: honest-run failure did not reproduce on re-execution"));
                continue;
            }
            let (sat_with_bound, bound) = classify_honest_failure(&mut tables, &exp);
            let w = json!({"case": desc, "k": k, "circuit_binds": bound.iter().map(hexf).collect::<Vec<_>>(), "reference": exp.iter().map(hexf).collect::<Vec<_>>(),
                           "failures": format!("{fails:?}")});
            if sat_with_bound {
                rep.violation(
                    &format!("{prop}/{name}/digest-differs-from-reference@{api}"),
                    "the circuit is satisfied by the honest witness only with a digest different from the reference function on the actual message",
                    w,
                );
            } else {
                rep.violation(&format!("{prop}/{name}/rejects-honest@{api}"), "honest run is unsatisfied even with the instance the circuit binds itself", w);
            }
            continue;
        }
        match mock_with(k, &circuit, &exp, &BTreeMap::new()) {
            Ok(true) => {}
            other => {
                rep.violation(
                    &format!("{prop}/{name}/mock-rejects-honest@{api}"),
                    &format!("MockProver rejects the honest run the reference evaluator accepts: {other:?}"),
                    json!({"case": desc, "k": k}),
                );
                continue;
            }
        }
        rep.nontrivial(&(name.clone(), fnv(desc.to_string().as_bytes())));
        rep.count(&format!("{label}.honest_accepted"));
        if rep.samples.len() < rep.max_samples {
            rep.sample(json!({"op": label, "k": k, "case": desc, "assigned_advice_cells": tables.assigned_advice_cells().len()}));
        }
        soundness_stage(&name, &api, &desc, k, &circuit, &mut tables, &exp, n_in, opts, rng, rep, &mut st);
    }
    st
}
