//! Hash chips reached through their public `FromScratch` constructors.

use ff::Field;
use midnight_circuits::{
    hash::{
        poseidon::{PoseidonChip, VarLenPoseidonGadget},
        ripemd160::RipeMD160Chip,
        sha256::VarLenSha256Gadget,
    },
    instructions::{
        hash::VarHashInstructions, AssertionInstructions, AssignmentInstructions, EqualityInstructions, HashInstructions, PublicInputInstructions,
        SpongeInstructions, VectorInstructions,
    },
    types::{AssignedBit, AssignedByte, AssignedNative, AssignedVector},
    vec::vector_gadget::VectorGadget,
};
use midnight_curves::Fq as F;
use midnight_proofs::{
    circuit::{Layouter, Value},
    plonk::Error,
};
use mzv::refs::poseidon as rp;
use serde_json::{json, Value as Json};
use sha2::Digest;

use super::raw::{hexf, RawOp, NG};

fn fb(b: u8) -> F {
    F::from(b as u64)
}

// ---------------------------------------------------------------------------------------------
// RIPEMD-160, fixed length
// ---------------------------------------------------------------------------------------------

#[derive(Clone)]
pub struct Ripemd {
    pub len: usize,
}

impl RawOp for Ripemd {
    type In = Vec<u8>;
    type Chip = RipeMD160Chip<F>;
    fn name(&self) -> String {
        "ripemd160".into()
    }
    fn api(&self) -> String {
        "RipeMD160Chip::hash".into()
    }
    fn shape(&self) -> String {
        format!("len={}", self.len)
    }
    fn describe(&self, m: &Vec<u8>) -> Json {
        json!({"op": "ripemd160", "len": self.len, "message": hex::encode(m)})
    }
    fn synth(&self, chip: &Self::Chip, ng: &NG, l: &mut impl Layouter<F>, input: Value<Vec<u8>>) -> Result<(), Error> {
        let bytes: Vec<AssignedByte<F>> = ng.assign_many(l, &input.transpose_vec(self.len))?;
        for b in &bytes {
            ng.constrain_as_public_input(l, b)?;
        }
        let out = chip.hash(l, &bytes)?;
        for b in out.iter() {
            ng.constrain_as_public_input(l, b)?;
        }
        Ok(())
    }
    fn reference(&self, m: &Vec<u8>) -> Vec<F> {
        let d = ripemd::Ripemd160::digest(m);
        m.iter().copied().map(fb).chain(d.iter().copied().map(fb)).collect()
    }
    fn n_input_positions(&self, m: &Vec<u8>) -> usize {
        m.len()
    }
}

// ---------------------------------------------------------------------------------------------
// variable-length SHA-256
// ---------------------------------------------------------------------------------------------

/// The vector is assigned with `assign_with_filler(payload, filler)` (one filler value for all
/// unused buffer cells — the only public constructor), optionally followed by
/// `trim_beginning(trim)`, which leaves the first `trim` payload bytes in the buffer as
/// position-dependent garbage in front of the effective message. The effective message is pinned
/// with `is_equal_to_fixed` (the buffer cells are not reachable from outside the crate, so they
/// cannot be exposed as public inputs); the digest bytes are the public inputs.
#[derive(Clone)]
pub struct VarSha256<const M: usize> {
    pub filler: Option<u8>,
    pub trim: usize,
    /// effective message (payload without the trimmed prefix), a circuit constant
    pub pinned: Vec<u8>,
}

impl<const M: usize> RawOp for VarSha256<M> {
    type In = Vec<u8>;
    type Chip = VarLenSha256Gadget<F>;
    fn name(&self) -> String {
        "sha256_varlen".into()
    }
    fn api(&self) -> String {
        "VarLenSha256Gadget::varhash".into()
    }
    fn label(&self) -> String {
        format!("sha256_varlen[M={M}]")
    }
    fn shape(&self) -> String {
        format!("M={M} trim={} pinned_len={}", self.trim, self.pinned.len())
    }
    fn describe(&self, payload: &Vec<u8>) -> Json {
        json!({"op": "sha256_varlen", "M": M, "filler": self.filler, "trim": self.trim, "payload": hex::encode(payload), "effective_message": hex::encode(&self.pinned)})
    }
    fn synth(&self, chip: &Self::Chip, ng: &NG, l: &mut impl Layouter<F>, input: Value<Vec<u8>>) -> Result<(), Error> {
        let vg = VectorGadget::new(ng);
        let mut v: AssignedVector<F, AssignedByte<F>, M, 64> = vg.assign_with_filler(l, input, self.filler)?;
        if self.trim > 0 {
            v = vg.trim_beginning(l, &v, self.trim)?;
        }
        let same: AssignedBit<F> = vg.is_equal_to_fixed(l, &v, self.pinned.clone())?;
        ng.assert_equal_to_fixed(l, &same, true)?;
        let out: [AssignedByte<F>; 32] = chip.varhash(l, &v)?;
        for b in out.iter() {
            ng.constrain_as_public_input(l, b)?;
        }
        Ok(())
    }
    fn reference(&self, payload: &Vec<u8>) -> Vec<F> {
        assert_eq!(&payload[self.trim..], &self.pinned[..]);
        sha2::Sha256::digest(&payload[self.trim..]).iter().copied().map(fb).collect()
    }
    fn n_input_positions(&self, _: &Vec<u8>) -> usize {
        0
    }
}

// ---------------------------------------------------------------------------------------------
// variable-length Poseidon
// ---------------------------------------------------------------------------------------------

#[derive(Clone)]
pub struct VarPoseidon<const M: usize> {
    pub filler: Option<F>,
    pub trim: usize,
    pub pinned: Vec<F>,
}

impl<const M: usize> RawOp for VarPoseidon<M> {
    type In = Vec<F>;
    type Chip = VarLenPoseidonGadget<F>;
    fn name(&self) -> String {
        "poseidon_varlen".into()
    }
    fn api(&self) -> String {
        "VarLenPoseidonGadget::varhash".into()
    }
    fn label(&self) -> String {
        format!("poseidon_varlen[M={M}]")
    }
    fn shape(&self) -> String {
        format!("M={M} trim={} pinned_len={}", self.trim, self.pinned.len())
    }
    fn describe(&self, payload: &Vec<F>) -> Json {
        json!({"op": "poseidon_varlen", "M": M, "filler": self.filler.as_ref().map(hexf), "trim": self.trim,
               "payload": payload.iter().map(hexf).collect::<Vec<_>>(), "effective_len": self.pinned.len()})
    }
    fn synth(&self, chip: &Self::Chip, ng: &NG, l: &mut impl Layouter<F>, input: Value<Vec<F>>) -> Result<(), Error> {
        let vg = VectorGadget::new(ng);
        let mut v: AssignedVector<F, AssignedNative<F>, M, 2> = vg.assign_with_filler(l, input, self.filler)?;
        if self.trim > 0 {
            v = vg.trim_beginning(l, &v, self.trim)?;
        }
        let same: AssignedBit<F> = vg.is_equal_to_fixed(l, &v, self.pinned.clone())?;
        ng.assert_equal_to_fixed(l, &same, true)?;
        let out: AssignedNative<F> = chip.varhash(l, &v)?;
        ng.constrain_as_public_input(l, &out)
    }
    fn reference(&self, payload: &Vec<F>) -> Vec<F> {
        assert_eq!(&payload[self.trim..], &self.pinned[..]);
        vec![rp::hash_fixed(&rp::params_repo_stated(), &payload[self.trim..])]
    }
    fn n_input_positions(&self, _: &Vec<F>) -> usize {
        0
    }
}

// ---------------------------------------------------------------------------------------------
// in-circuit Poseidon sponge (absorb / squeeze interleavings)
// ---------------------------------------------------------------------------------------------

#[derive(Clone, Debug, PartialEq)]
pub enum Step {
    Absorb(usize),
    Squeeze,
}

/// `fixed_len = Some(n)`: `init(Some(n))`, the absorbs must add up to n, one squeeze.
/// `None`: streaming mode, any interleaving.
#[derive(Clone)]
pub struct SpongeScript {
    pub fixed_len: Option<usize>,
    pub steps: Vec<Step>,
}

impl SpongeScript {
    pub fn n_inputs(&self) -> usize {
        self.steps.iter().map(|s| if let Step::Absorb(n) = s { *n } else { 0 }).sum()
    }
}

impl RawOp for SpongeScript {
    type In = Vec<F>;
    type Chip = PoseidonChip<F>;
    fn name(&self) -> String {
        if self.fixed_len.is_some() {
            "poseidon_sponge[fixed]".into()
        } else {
            "poseidon_sponge[streaming]".into()
        }
    }
    fn api(&self) -> String {
        "PoseidonChip::{init,absorb,squeeze}".into()
    }
    fn shape(&self) -> String {
        format!("{:?} {:?}", self.fixed_len, self.steps)
    }
    fn describe(&self, xs: &Vec<F>) -> Json {
        json!({"op": "poseidon_sponge", "fixed_len": self.fixed_len, "steps": format!("{:?}", self.steps), "inputs": xs.iter().map(hexf).collect::<Vec<_>>()})
    }
    fn synth(&self, chip: &Self::Chip, ng: &NG, l: &mut impl Layouter<F>, input: Value<Vec<F>>) -> Result<(), Error> {
        let xs: Vec<AssignedNative<F>> = ng.assign_many(l, &input.transpose_vec(self.n_inputs()))?;
        for x in &xs {
            ng.constrain_as_public_input(l, x)?;
        }
        let mut st = chip.init(l, self.fixed_len)?;
        let mut at = 0;
        let mut outs = vec![];
        for s in &self.steps {
            match s {
                Step::Absorb(n) => {
                    chip.absorb(l, &mut st, &xs[at..at + n])?;
                    at += n;
                }
                Step::Squeeze => outs.push(chip.squeeze(l, &mut st)?),
            }
        }
        for o in &outs {
            ng.constrain_as_public_input(l, o)?;
        }
        Ok(())
    }
    fn reference(&self, xs: &Vec<F>) -> Vec<F> {
        let p = rp::params_repo_stated();
        let mut out = xs.clone();
        match self.fixed_len {
            Some(n) => {
                assert_eq!(n, xs.len());
                out.push(rp::hash_fixed(&p, xs));
            }
            None => {
                let mut sp = rp::Sponge::new(&p);
                let mut at = 0;
                for s in &self.steps {
                    match s {
                        Step::Absorb(n) => {
                            sp.absorb(&xs[at..at + n]);
                            at += n;
                        }
                        Step::Squeeze => out.push(sp.squeeze()),
                    }
                }
            }
        }
        out
    }
    fn n_input_positions(&self, xs: &Vec<F>) -> usize {
        xs.len()
    }
}

#[allow(dead_code)]
pub fn zero() -> F {
    F::ZERO
}
