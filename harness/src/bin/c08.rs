//! C08 — the off-circuit public-input encoding is exactly what the circuit binds.
//!
//! For every value type that can be exposed as a public input, and both exposure paths:
//!   * D: circuit "assign v with the type's own `assign`, expose it" is accepted (reference
//!     evaluator AND MockProver) with instance = the library's off-circuit encoding of v, binds
//!     exactly that many instance cells, and is rejected with every single-position edit of that
//!     vector against the fixed honest witness (`engines::catalogue::check_op` for the plain
//!     column, `c08_ops/driver.rs` for committed columns and non-stdlib circuits);
//!   * adversarial part (constrain path only): with v pinned in circuit by
//!     `assert_equal_to_fixed` the repair search must find no assignment accepted with another
//!     vector; without the pin the search is aimed only at vectors that are NOT the encoding of
//!     any value (a different valid encoding is simply another witness);
//!   * R: injectivity — distinct values have distinct encodings, the encoding decodes by the
//!     documented layout (written independently in c08_ops/val.rs) back to the value;
//!   * order / count: relations exposing 0–40 values of mixed types in random order bind the
//!     concatenation of the encodings in exposure order; `verify` accepts the exact vector and
//!     rejects a vector one shorter / one longer than what key generation recorded (real proofs);
//!   * committed instances end to end (real prover, `commit_to_instances` for the verifier).

use std::{
    collections::{BTreeMap, BTreeSet, HashMap},
    sync::{
        atomic::{AtomicUsize, Ordering},
        Mutex,
    },
};

use ff::Field;
use group::Group;
use midnight_circuits::{
    types::Instantiable,
    verifier::{Accumulator, AssignedAccumulator, AssignedMsm, AssignedVk},
};
use midnight_curves::{Fq as F, G1Affine, G1Projective};
use midnight_proofs::{
    circuit::{Layouter, Value},
    plonk::{commit_to_instances, k_from_circuit, Error},
    poly::kzg::KZGCommitmentScheme,
};
use midnight_zk_stdlib::{MidnightCircuit, Relation, ZkStdLib, ZkStdLibArch};
use mzv::{
    common::*,
    engines::{
        ars::ArsBudget,
        catalogue::*,
        plonk_util::params_for,
        ref_eval::{collect, CellRef, CollectOpts},
    },
};
use rand::{seq::SliceRandom, Rng, SeedableRng};
use rand_chacha::ChaCha8Rng;
use serde_json::{json, Value as Json};

#[path = "c08_ops/driver.rs"]
mod driver;
#[path = "c08_ops/val.rs"]
mod val;
#[path = "c08_ops/verif.rs"]
mod verif;
#[path = "c08_ops/zkir.rs"]
mod zkir;

use driver::{hexv, ExpStats};
use val::{hexf, Kind, Path, Val};

const UNREACHABLE: &[&str] = &[
    "AssignedVector: not Instantiable (no off-circuit encoder, no PublicInputInstructions impl); vectors are exposed element by element as AssignedByte/AssignedNative, which are covered",
    "AssignedBigUint: no Instantiable / PublicInputInstructions impl by design (biguint/types.rs); covered through BigUintGadget::constrain_as_public_input + AssignedBigUint::as_public_input(v, nb_bits) (constrain path only, no assign_as_public_input, no committed form)",
    "AssignedMsm in isolation: AssignedMsm::constrain_as_public_input / in_circuit_as_public_input are pub(crate); reached only as the two sides of an AssignedAccumulator (covered that way)",
    "AssignedVk / AssignedAccumulator: PublicInputInstructions::{constrain_as_public_input (Vk), assign_as_public_input (both)} are unimplemented!() by design; entry points assign_vk_as_public_input and VerifierGadget::constrain_as_public_input / constrain_acc_as_public_input_with_committed_scalars are covered",
    "committed exposure of multi-element types: CommittedInstanceInstructions needs Into<AssignedNative>, i.e. only AssignedBit / AssignedByte / AssignedNative (and accumulator scalars)",
    "real-prover runs of the verifier-type circuits (not ZkStdLib relations): checked with the reference evaluator + MockProver only",
    "BnEmulation (dev-curves) verifier types: BlstrsEmulation only",
];

// ---------------------------------------------------------------------------------------------
// catalogue entry: expose one value
// ---------------------------------------------------------------------------------------------

#[derive(Clone)]
struct Expose {
    kind: Kind,
    path: Path,
    /// value pinned in circuit with `assert_equal_to_fixed`
    pin: Option<Val>,
}

fn arch_of(kinds: impl Iterator<Item = Kind>) -> ZkStdLibArch {
    let mut a = ZkStdLibArch::default();
    for k in kinds {
        k.arch_into(&mut a);
    }
    a
}

impl OpSpec for Expose {
    type In = Val;

    fn name(&self) -> String {
        format!("{}/{}{}", self.kind.type_name(), self.path.name(), if self.pin.is_some() { "+pinned" } else { "" })
    }
    fn arch(&self) -> ZkStdLibArch {
        arch_of(std::iter::once(self.kind))
    }
    fn synth(&self, std: &ZkStdLib, l: &mut impl Layouter<F>, input: Value<Val>) -> Result<(), Error> {
        val::synth_one(std, l, self.kind, &input, self.path, self.pin.as_ref())
    }
    fn reference(&self, v: &Val) -> Option<Vec<F>> {
        if v.admissible() && v.kind() == self.kind {
            Some(v.encode_lib())
        } else {
            None
        }
    }
    fn n_input_positions(&self, _: &Val) -> usize {
        0
    }
    fn extra_targets(&self, _pos: usize, honest: F) -> Vec<F> {
        vec![F::ONE - honest, -honest, honest.double()]
    }
}

/// catalogue entry: expose the result of lazy arithmetic on two emulated-field elements
#[derive(Clone)]
struct ExposeDerived {
    kind: Kind,
    op: usize,
}

impl OpSpec for ExposeDerived {
    type In = (Val, Val);

    fn name(&self) -> String {
        format!("{}/constrain-derived[{}]", self.kind.type_name(), val::DERIVED_OPS[self.op])
    }
    fn arch(&self) -> ZkStdLibArch {
        arch_of(std::iter::once(self.kind))
    }
    fn synth(&self, std: &ZkStdLib, l: &mut impl Layouter<F>, input: Value<(Val, Val)>) -> Result<(), Error> {
        val::synth_derived(std, l, self.kind, self.op, &input)
    }
    fn reference(&self, v: &(Val, Val)) -> Option<Vec<F>> {
        if v.0.admissible() && v.1.admissible() && v.0.kind() == self.kind && v.1.kind() == self.kind {
            val::derived_value(self.op, &v.0, &v.1).map(|z| z.encode_lib())
        } else {
            None
        }
    }
    fn n_input_positions(&self, _: &(Val, Val)) -> usize {
        0
    }
    fn extra_targets(&self, _pos: usize, honest: F) -> Vec<F> {
        vec![F::ONE - honest, -honest, honest.double()]
    }
}

/// Jubjub scalar built in circuit from little-endian bytes (8·n bits) or from a native element
/// (255 bits) and exposed. The off-circuit encoder only knows reduced scalars (and the count
/// mismatch for wide scalars is a known finding of C18), so the oracle here is the in-circuit
/// binding itself: two witnesses that are DIFFERENT scalars modulo the group order must be bound
/// to different raw public inputs, and each circuit must accept its own bound vector and reject
/// the other one.
#[derive(Clone)]
struct WideScalar {
    /// Some(n): `scalar_from_le_bytes` of n bytes; None: `convert` of a native element
    nb_bytes: Option<usize>,
}

impl OpSpec for WideScalar {
    type In = Vec<u8>;

    fn name(&self) -> String {
        match self.nb_bytes {
            Some(n) => format!("AssignedScalarOfNativeCurve<Jubjub>/scalar_from_le_bytes[{n}]+constrain"),
            None => "AssignedScalarOfNativeCurve<Jubjub>/convert(native)+constrain".into(),
        }
    }
    fn arch(&self) -> ZkStdLibArch {
        arch_of(std::iter::once(Kind::JubScalar))
    }
    fn synth(&self, std: &ZkStdLib, l: &mut impl Layouter<F>, input: Value<Vec<u8>>) -> Result<(), Error> {
        use midnight_circuits::{
            instructions::{AssignmentInstructions, ConversionInstructions, PublicInputInstructions},
            types::{AssignedByte, AssignedNative, AssignedScalarOfNativeCurve},
        };
        type T = AssignedScalarOfNativeCurve<midnight_curves::JubjubExtended>;
        let s: T = match self.nb_bytes {
            Some(n) => {
                let vals: Vec<Value<u8>> = (0..n).map(|i| input.clone().map(|b| b[i])).collect();
                let bytes: Vec<AssignedByte<F>> = std.assign_many(l, &vals)?;
                std.jubjub().scalar_from_le_bytes(l, &bytes)?
            }
            None => {
                let x: AssignedNative<F> = std.assign(l, input.clone().map(|b| {
                    let mut r = [0u8; 32];
                    r.copy_from_slice(&b[..32]);
                    Option::<F>::from(F::from_bytes_le(&r)).unwrap_or(F::ZERO)
                }))?;
                std.jubjub().convert(l, &x)?
            }
        };
        PublicInputInstructions::<F, T>::constrain_as_public_input(std.jubjub(), l, &s)
    }
    fn reference(&self, _: &Vec<u8>) -> Option<Vec<F>> {
        None
    }
    fn n_input_positions(&self, _: &Vec<u8>) -> usize {
        0
    }
}

fn run_wide_scalar(nb_bytes: Option<usize>, thorough: bool, seed: u64, part: &mut Report, st: &mut ExpStats) {
    use num_bigint::BigUint;
    let op = WideScalar { nb_bytes };
    let rel = OpRel(op.clone());
    let sig = format!("C08/{}", op.name());
    let mut rng = rng_for(seed, &sig);
    let n = nb_bytes.unwrap_or(32);
    let r_order = val::fbig(&(-midnight_curves::Fr::ONE)) + BigUint::from(1u8);
    let p_native = val::fbig(&(-F::ONE)) + BigUint::from(1u8);
    let Ok(k) = catch_any(|| MidnightCircuit::new(&rel, Value::unknown(), Value::unknown(), Some(8)).min_k()) else {
        part.inconclusive(&format!("{sig}: min_k panicked"));
        return;
    };
    let bound_of = |bytes: &Vec<u8>| -> Result<(Vec<F>, mzv::engines::ref_eval::Tables<F>), String> {
        let circuit = MidnightCircuit::new(&rel, Value::known(vec![]), Value::known(bytes.clone()), Some(8));
        let t = catch_any(|| collect::<F, _>(k, &circuit, &[vec![], vec![F::ZERO; 4]], CollectOpts::default())).map_err(|p| format!("panic: {}", p.message))??;
        let n_bound = mzv::engines::catalogue::bound_len(&t, 1);
        let b = mzv::engines::catalogue::bound_instance(&t, 1, &[]);
        Ok((b[..n_bound.min(b.len())].to_vec(), t))
    };
    let value_of = |bytes: &Vec<u8>| -> BigUint { BigUint::from_bytes_le(&bytes[..n]) % &r_order };
    let rounds = if thorough { 12 } else { 4 };
    for round in 0..rounds {
        // base value and a partner that differs only in high bits (positions >= 250)
        let mut a: Vec<u8> = (0..n).map(|_| rng.gen()).collect();
        if nb_bytes.is_none() {
            // a native element: keep it below the native modulus
            a[31] &= 0x0f;
        }
        let mut b = a.clone();
        let bit = match round % 4 {
            0 => 252,
            1 => 253,
            2 => 8 * n - 1,
            _ => 250,
        }
        .min(8 * n - 1);
        b[bit / 8] ^= 1 << (bit % 8);
        if nb_bytes.is_none() && BigUint::from_bytes_le(&b[..32]) >= p_native {
            continue;
        }
        if value_of(&a) == value_of(&b) {
            continue;
        }
        part.eval();
        let (ia, ta) = match bound_of(&a) {
            Ok(x) => x,
            Err(e) => {
                part.violation(&format!("{sig}/synthesis-fails"), &format!("exposure circuit fails on admissible bytes: {e}"), json!({"bytes": hex::encode(&a)}));
                continue;
            }
        };
        let (ib, _tb) = match bound_of(&b) {
            Ok(x) => x,
            Err(e) => {
                part.violation(&format!("{sig}/synthesis-fails"), &format!("exposure circuit fails on admissible bytes: {e}"), json!({"bytes": hex::encode(&b)}));
                continue;
            }
        };
        part.nontrivial(&("wide-scalar", nb_bytes, round));
        st.honest += 2;
        st.edits += 1;
        let wit = json!({"op": op.name(), "bytes_a": hex::encode(&a), "bytes_b": hex::encode(&b), "flipped_bit": bit,
            "bound_a": hexv(&ia), "bound_b": hexv(&ib)});
        if ia == ib {
            part.violation(
                &format!("{sig}/distinct-values-share-an-encoding"),
                &format!("two different scalars (witness bytes differing in bit {bit}) are bound to the same raw public inputs: the high bits of the scalar are not bound"),
                wit,
            );
            continue;
        }
        // the circuit of a accepts its own vector and rejects b's
        let mut t = ta;
        for (i, v) in ia.iter().enumerate() {
            t.instance[1][i] = *v;
        }
        if !t.violations(1).is_empty() {
            part.violation(&format!("{sig}/rejects-own-binding"), "the exposure circuit is not satisfied by the vector it binds", wit);
            continue;
        }
        if ib.len() <= t.instance[1].len() {
            for i in 0..t.instance[1].len() {
                t.instance[1][i] = ib.get(i).copied().unwrap_or(F::ZERO);
            }
            if t.violations(1).is_empty() {
                part.violation(&format!("{sig}/accepts-other-value"), "the exposure circuit of scalar a is satisfied by the vector bound for a different scalar b", wit);
                continue;
            }
        }
        part.count(&format!("wide-scalar[{}].pairs_distinct", nb_bytes.map(|n| n.to_string()).unwrap_or("convert".into())));
    }
}

/// `assign_biguint(x, assigned_bits)` then `constrain_as_public_input(x, declared_bits)` followed by
/// a native. Either synthesis refuses the mismatch, or the circuit must bind exactly
/// `as_public_input(x, declared_bits) ‖ [y]`.
#[derive(Clone)]
struct BigDeclared {
    assigned_bits: u32,
    declared_bits: u32,
}

impl OpSpec for BigDeclared {
    type In = (num_bigint::BigUint, F);

    fn name(&self) -> String {
        format!("AssignedBigUint/constrain[assigned {} bits, declared {} bits]+native", self.assigned_bits, self.declared_bits)
    }
    fn arch(&self) -> ZkStdLibArch {
        arch_of(std::iter::once(Kind::Big(self.assigned_bits)))
    }
    fn synth(&self, std: &ZkStdLib, l: &mut impl Layouter<F>, input: Value<Self::In>) -> Result<(), Error> {
        use midnight_circuits::{instructions::{AssignmentInstructions, PublicInputInstructions}, types::AssignedNative};
        let g = std.biguint();
        let a = g.assign_biguint(l, input.clone().map(|i| i.0), self.assigned_bits)?;
        g.constrain_as_public_input(l, &a, self.declared_bits)?;
        let y: AssignedNative<F> = std.assign(l, input.map(|i| i.1))?;
        std.constrain_as_public_input(l, &y)
    }
    fn reference(&self, v: &Self::In) -> Option<Vec<F>> {
        let mut e = Val::Big(v.0.clone(), self.declared_bits).encode_lib();
        e.push(v.1);
        Some(e)
    }
    fn n_input_positions(&self, _: &Self::In) -> usize {
        0
    }
}

fn run_big_declared(seed: u64, part: &mut Report, st: &mut ExpStats) {
    use num_bigint::{BigUint, RandBigInt};
    let mut rng = rng_for(seed, "big-declared");
    for (assigned_bits, declared_bits) in [(96u32, 96u32), (96, 128), (64, 97), (100, 200), (1000, 1024), (192, 193), (96, 95)] {
        let op = BigDeclared { assigned_bits, declared_bits };
        let rel = OpRel(op.clone());
        let sig = format!("C08/{}", op.name());
        let x: BigUint = rng.gen_biguint(assigned_bits.min(declared_bits) as u64);
        let y = F::from(42u64 + rng.gen_range(0..1000u64));
        let input = (x.clone(), y);
        let wit = json!({"op": op.name(), "x": format!("{x:x}"), "y": hexf(&y)});
        part.eval();
        st.honest += 1;
        let expected = match catch_any(|| op.reference(&input)) {
            Ok(Some(e)) => e,
            _ => {
                part.count("big-declared.offcircuit-refuses");
                continue;
            }
        };
        let k = match catch_any(|| MidnightCircuit::new(&rel, Value::unknown(), Value::unknown(), Some(8)).min_k()) {
            Ok(k) => k,
            Err(_) => {
                // the mismatch is refused already when the circuit is laid out
                part.count("big-declared.refused-at-layout");
                part.nontrivial(&("big-declared", assigned_bits, declared_bits));
                continue;
            }
        };
        let circuit = MidnightCircuit::new(&rel, Value::known(expected.clone()), Value::known(input.clone()), Some(8));
        match catch_any(|| collect::<F, _>(k, &circuit, &[vec![], expected.clone()], CollectOpts::default())) {
            Err(_) | Ok(Err(_)) => {
                part.count("big-declared.refused-at-synthesis");
                part.nontrivial(&("big-declared", assigned_bits, declared_bits));
                if assigned_bits == declared_bits {
                    part.violation(&format!("{sig}/synthesis-error-on-admissible-input"), "exposure with the derived bound is refused", wit);
                }
            }
            Ok(Ok(t)) => {
                part.nontrivial(&("big-declared", assigned_bits, declared_bits));
                let n_bound = mzv::engines::catalogue::bound_len(&t, 1);
                let bound = mzv::engines::catalogue::bound_instance(&t, 1, &expected);
                if n_bound != expected.len() || bound != expected || !t.violations(1).is_empty() {
                    let mut w = wit.clone();
                    w["circuit_binds"] = json!(hexv(&bound[..n_bound.min(bound.len())]));
                    w["offcircuit_encoding"] = json!(hexv(&expected));
                    part.violation(
                        &format!("{sig}/count-mismatch"),
                        &format!("the circuit accepts the declared bound but binds {n_bound} raw public inputs where AssignedBigUint::as_public_input(x, {declared_bits}) ‖ [y] has {}", expected.len()),
                        w,
                    );
                } else {
                    part.count("big-declared.accepted-and-consistent");
                }
            }
        }
    }
}

fn run_derived(kind: Kind, op: usize, thorough: bool, seed: u64, part: &mut Report, out: &mut JobOut) {
    let mut rng = rng_for(seed, &format!("derived-{kind:?}-{op}"));
    let b = val::boundary(kind);
    let mut inputs: Vec<(Val, Val)> = vec![];
    // boundary pairs that force carries, borrows and reductions, then random pairs
    for (i, j) in [(0usize, 0usize), (1, 1), (2, 1), (1, 2), (3, 3), (0, 2)] {
        if let (Some(x), Some(y)) = (b.get(i % b.len().max(1)), b.get(j % b.len().max(1))) {
            inputs.push((x.clone(), y.clone()));
        }
    }
    for _ in 0..if thorough { 12 } else { 3 } {
        inputs.push((val::random(kind, &mut rng), val::random(kind, &mut rng)));
    }
    if let Some(last) = b.last() {
        inputs.push((last.clone(), val::random(kind, &mut rng)));
    }
    let e = ExposeDerived { kind, op };
    let mut opts = OpOptions::new("C08", thorough);
    opts.ars = None;
    opts.seed_cells = 0;
    opts.max_positions = if thorough { 32 } else { 8 };
    out.op = check_op(&e, &inputs, &opts, seed, part);
}

// ---------------------------------------------------------------------------------------------
// relation exposing several values of mixed types in a given order
// ---------------------------------------------------------------------------------------------

#[derive(Clone)]
struct MixRel {
    items: Vec<(Kind, Path)>,
}

impl Relation for MixRel {
    type Instance = Vec<F>;
    type Witness = Vec<(Val, Path)>;

    fn format_instance(i: &Vec<F>) -> Result<Vec<F>, Error> {
        Ok(i.clone())
    }
    fn format_committed_instances(w: &Self::Witness) -> Vec<F> {
        w.iter().filter(|(_, p)| *p == Path::Committed).flat_map(|(v, _)| v.encode_lib()).collect()
    }
    fn circuit(&self, std: &ZkStdLib, l: &mut impl Layouter<F>, _i: Value<Vec<F>>, w: Value<Self::Witness>) -> Result<(), Error> {
        for (i, (kind, path)) in self.items.iter().enumerate() {
            let v = w.as_ref().map(|w| w[i].0.clone());
            val::synth_one(std, l, *kind, &v, *path, None)?;
        }
        Ok(())
    }
    fn used_chips(&self) -> ZkStdLibArch {
        arch_of(self.items.iter().map(|(k, _)| *k))
    }
    fn write_relation<W: std::io::Write>(&self, _w: &mut W) -> std::io::Result<()> {
        Ok(())
    }
    fn read_relation<R: std::io::Read>(_r: &mut R) -> std::io::Result<Self> {
        Err(std::io::Error::other("MixRel cannot be deserialised"))
    }
}

struct MixCase {
    rel: MixRel,
    witness: Vec<(Val, Path)>,
    label: String,
}

impl MixCase {
    fn new(vals: Vec<(Val, Path)>, label: &str) -> Self {
        MixCase { rel: MixRel { items: vals.iter().map(|(v, p)| (v.kind(), *p)).collect() }, witness: vals, label: label.to_string() }
    }
    fn plain(&self) -> Vec<F> {
        self.witness.iter().filter(|(_, p)| *p != Path::Committed).flat_map(|(v, _)| v.encode_lib()).collect()
    }
    fn committed(&self) -> Vec<F> {
        MixRel::format_committed_instances(&self.witness)
    }
    fn wit(&self) -> Json {
        json!({"mix": self.witness.iter().map(|(v, p)| format!("{}:{:?}", p.name(), v)).collect::<Vec<_>>(), "label": self.label})
    }
    /// type of the item whose encoding covers position `pos` of column `col`
    fn item_at(&self, col: usize, pos: usize) -> Option<(Kind, Path)> {
        let mut off = 0;
        for (v, p) in &self.witness {
            if (*p == Path::Committed) != (col == 0) {
                continue;
            }
            let w = v.encode_lib().len();
            if pos < off + w {
                return Some((v.kind(), *p));
            }
            off += w;
        }
        self.witness.iter().rev().find(|(_, p)| (*p == Path::Committed) == (col == 0)).map(|(v, p)| (v.kind(), *p))
    }
    fn parse(j: &Json) -> Option<MixCase> {
        let items = j.get("mix")?.as_array()?;
        let mut vals = vec![];
        for it in items {
            let (p, v) = it.as_str()?.split_once(':')?;
            let path = match p {
                "constrain" => Path::Constrain,
                "assign" => Path::AssignPi,
                "committed" => Path::Committed,
                _ => return None,
            };
            vals.push((Val::parse(v)?, path));
        }
        Some(MixCase::new(vals, j.get("label").and_then(|l| l.as_str()).unwrap_or("replay")))
    }
}

/// Mock/reference level check of a mixed relation: order, count, edits. For single-item cases the
/// signature names the type and path; for mixed ones the culprit type is located from the first
/// position at which the bound vector differs from the concatenation of encodings.
fn check_mix(case: &MixCase, max_edit_positions: usize, rep: &mut Report, st: &mut ExpStats) -> bool {
    let (committed, plain) = (case.committed(), case.plain());
    let wit = case.wit();
    let single = case.witness.len() == 1;
    let base_sig = |k: Option<(Kind, Path)>| match k {
        Some((k, p)) if single => format!("C08/{}/{}", k.type_name(), p.name()),
        Some((k, _)) => format!("C08/{}/mixed", k.type_name()),
        None => "C08/mixed/order".to_string(),
    };
    let kc = catch_any(|| MidnightCircuit::new(&case.rel, Value::unknown(), Value::unknown(), Some(8)).min_k());
    let k = match kc {
        Ok(k) => k,
        Err(p) => {
            rep.violation(
                &format!("{}/panic-on-admissible-input@{}", base_sig(case.witness.first().map(|(v, p)| (v.kind(), *p))), repo_file(&p.file)),
                &format!("synthesis with an unknown witness panics: {}", p.message),
                wit,
            );
            return false;
        }
    };
    let circuit = MidnightCircuit::new(&case.rel, Value::known(plain.clone()), Value::known(case.witness.clone()), Some(8));
    // locate the culprit before the generic stages so that the signature is stable
    let culprit = match catch_any(|| collect::<F, _>(k, &circuit, &[committed.clone(), plain.clone()], CollectOpts::default())) {
        Ok(Ok(t)) => {
            let mut c = None;
            // (a) the row counter: instance rows must be bound in order 0, 1, 2, ...; the first
            // anomaly is charged to the exposure just before it (it left the counter wrong)
            for col in [0usize, 1] {
                let rows: Vec<usize> = t
                    .copies
                    .iter()
                    .filter_map(|(a, b)| match (a, b) {
                        (CellRef::Instance(cc, r), _) | (_, CellRef::Instance(cc, r)) if *cc == col => Some(*r),
                        _ => None,
                    })
                    .collect();
                if let Some(j) = (0..rows.len()).find(|j| rows[*j] != *j) {
                    c = case.item_at(col, j.saturating_sub(1));
                    break;
                }
            }
            // (b) otherwise the first position whose bound value differs from the encoding
            for (col, exp) in [(0usize, &committed), (1usize, &plain)] {
                if c.is_some() {
                    break;
                }
                let b = bound_instance(&t, col, &[]);
                let n = b.len().max(exp.len());
                if let Some(pos) = (0..n).find(|i| b.get(*i) != exp.get(*i)) {
                    c = case.item_at(col, pos.min(exp.len().saturating_sub(1)));
                    break;
                }
            }
            c
        }
        _ => case.witness.first().map(|(v, p)| (v.kind(), *p)),
    };
    let sig = if single { base_sig(case.witness.first().map(|(v, p)| (v.kind(), *p))) } else { base_sig(culprit) };
    let Some(mut h) = driver::honest(&sig, k, &circuit, &committed, &plain, &wit, rep, st) else { return false };
    let mut pos = driver::pick_positions(0, committed.len(), max_edit_positions);
    pos.extend(driver::pick_positions(1, plain.len(), max_edit_positions));
    // edits are attributed to the type whose encoding covers the edited position
    for p in pos {
        let s = if single { sig.clone() } else { base_sig(case.item_at(p.0, p.1)) };
        driver::edits(&s, k, &circuit, &mut h, &committed, &plain, &[p], &wit, rep, st);
    }
    true
}

#[derive(Default, Clone, Debug)]
struct RealStats {
    proofs: u64,
    verifications: u64,
}

/// End-to-end check of one relation with the real prover / verifier of the stdlib façade.
fn check_real(case: &MixCase, seed: u64, rep: &mut Report, rs: &mut RealStats) {
    type H = blake2b_simd::State;
    let (committed, plain) = (case.committed(), case.plain());
    let wit = case.wit();
    let single = case.witness.len() == 1;
    let sig = match case.witness.first() {
        Some((v, p)) if single => format!("C08/{}/{}", v.kind().type_name(), p.name()),
        _ => "C08/mixed/real".to_string(),
    };
    let r = catch_any(|| -> Result<(), (String, String)> {
        let k = MidnightCircuit::from_relation(&case.rel).min_k();
        let params = params_for(k);
        let vk = midnight_zk_stdlib::setup_vk(params, &case.rel);
        let pk = midnight_zk_stdlib::setup_pk(&case.rel, &vk);
        let prove = |inst: &Vec<F>, s: u64| midnight_zk_stdlib::prove::<MixRel, H>(params, &pk, &case.rel, inst, case.witness.clone(), ChaCha8Rng::seed_from_u64(seed ^ s));
        let commit = |v: &[F]| -> G1Affine { commit_to_instances::<F, KZGCommitmentScheme<midnight_curves::Bls12>>(params, vk.vk().get_domain(), v).into() };
        let com = if committed.is_empty() { None } else { Some(commit(&committed)) };
        let vp = params.verifier_params();
        let mut verify = |inst: &Vec<F>, com: Option<G1Affine>, proof: &[u8]| {
            rs.verifications += 1;
            midnight_zk_stdlib::verify::<MixRel, H>(&vp, &vk, inst, com, proof)
        };
        rs.proofs += 1;
        let proof = prove(&plain, 1).map_err(|e| ("rejects-honest".to_string(), format!("the real prover fails on the honest case: {e:?}")))?;
        // exact vector
        // vectors one shorter / one longer. The verifier absorbs the instance into the transcript, so
        // each variant gets its own proof: at the PLONK level the extra cell is unconstrained and a
        // dropped trailing zero leaves the instance polynomial unchanged — only the recorded count
        // can reject these.
        let mut variants: Vec<(&str, Vec<F>)> = vec![("one longer (trailing zero)", [plain.clone(), vec![F::ZERO]].concat()), ("one longer (trailing one)", [plain.clone(), vec![F::ONE]].concat())];
        if plain.last() == Some(&F::ZERO) {
            variants.push(("one shorter (trailing zero dropped)", plain[..plain.len() - 1].to_vec()));
        }
        if let Err(e) = verify(&plain, com, &proof) {
            // is it the count?
            for (what, inst) in &variants {
                rs.proofs += 1;
                if let Ok(p2) = prove(inst, 3) {
                    if verify(inst, com, &p2).is_ok() {
                        return Err((
                            "count-mismatch".into(),
                            format!("verify rejects the exact off-circuit encoding ({} raw public inputs: {e:?}) but accepts a proof for the vector {what}: the number recorded at key generation is not the number of exposed raw public inputs", plain.len()),
                        ));
                    }
                }
            }
            return Err((
                "rejects-honest".into(),
                format!("verify rejects the honest proof with the off-circuit encoding ({} raw public inputs, {} committed): {e:?}", plain.len(), committed.len()),
            ));
        }
        if !plain.is_empty() {
            variants.push(("one shorter", plain[..plain.len() - 1].to_vec()));
        }
        for (n, (what, inst)) in variants.iter().enumerate() {
            // the honest proof with the other vector
            if verify(inst, com, &proof).is_ok() {
                return Err(("count-mismatch".into(), format!("verify accepts the honest proof with an instance vector {what} than the {} raw public inputs the circuit exposes", plain.len())));
            }
            // a proof made for that vector (a prover error counts as rejection)
            rs.proofs += 1;
            if let Ok(p2) = prove(inst, 4 + n as u64) {
                if verify(inst, com, &p2).is_ok() {
                    return Err((
                        "count-mismatch".into(),
                        format!("a proof made for an instance vector {what} than the {} raw public inputs the circuit exposes verifies with that vector", plain.len()),
                    ));
                }
            }
        }
        // the batch verifier insists on the recorded number PER PROOF (no committed instances there)
        if committed.is_empty() && !plain.is_empty() {
            let vks = [vk.clone(), vk.clone()];
            if let Err(e) = midnight_zk_stdlib::batch_verify::<H>(&vp, &vks, &[plain.clone(), plain.clone()], &[proof.clone(), proof.clone()]) {
                return Err(("rejects-honest".into(), format!("batch_verify rejects a batch of two honest proofs with the off-circuit encoding: {e:?}")));
            }
            let short = plain[..plain.len() - 1].to_vec();
            for (what, long) in [("zero", [plain.clone(), vec![F::ZERO]].concat()), ("arbitrary", [plain.clone(), vec![F::from(0xdead_beefu64)]].concat())] {
                // compensating lengths: one vector one shorter, one vector one longer
                for (sv, lv) in [(&short, &long), (&plain, &long)] {
                    rs.proofs += 2;
                    let (Ok(ps), Ok(pl)) = (prove(sv, 11), prove(lv, 12)) else { continue };
                    for order in 0..2 {
                        let (pis, proofs) = if order == 0 { (vec![sv.clone(), lv.clone()], vec![ps.clone(), pl.clone()]) } else { (vec![lv.clone(), sv.clone()], vec![pl.clone(), ps.clone()]) };
                                    if midnight_zk_stdlib::batch_verify::<H>(&vp, &vks, &pis, &proofs).is_ok() {
                            return Err((
                                "count-mismatch".into(),
                                format!(
                                    "batch_verify accepts a batch whose instance vectors have {} and {} raw public inputs (extra value: {what}) where the circuit exposes {}",
                                    pis[0].len(),
                                    pis[1].len(),
                                    plain.len()
                                ),
                            ));
                        }
                    }
                }
            }
        }
        // edited positions
        for i in driver::pick_positions(1, plain.len(), 3) {
            let mut e = plain.clone();
            e[i.1] += F::ONE;
            if verify(&e, com, &proof).is_ok() {
                return Err(("edited-output-accepted".into(), format!("verify accepts the honest proof with position {} of the instance edited", i.1)));
            }
        }
        if !committed.is_empty() {
            // (an all-zero committed vector commits to the identity, which is what `None` stands for)
            if committed.iter().any(|c| *c != F::ZERO) && verify(&plain, None, &proof).is_ok() {
                return Err(("edited-output-accepted".into(), "verify accepts the proof without the commitment to the committed instances".into()));
            }
            for i in driver::pick_positions(0, committed.len(), 3) {
                let mut e = committed.clone();
                e[i.1] += F::ONE;
                if verify(&plain, Some(commit(&e)), &proof).is_ok() {
                    return Err(("edited-output-accepted".into(), format!("verify accepts the proof with a commitment to the committed instances edited at position {}", i.1)));
                }
            }
            let mut e = committed.clone();
            e.push(F::ONE);
            if verify(&plain, Some(commit(&e)), &proof).is_ok() {
                return Err(("count-mismatch".into(), "verify accepts a commitment to a committed-instance vector one longer".into()));
            }
        }
        Ok(())
    });
    rep.eval();
    match r {
        Ok(Ok(())) => rep.nontrivial(&("real", format!("{:?}", case.witness))),
        Ok(Err((kind, what))) => rep.violation(&format!("{sig}/{kind}"), &format!("[real prover/verifier] {what}"), wit),
        Err(p) => rep.violation(&format!("{sig}/panic-on-admissible-input@{}", repo_file(&p.file)), &format!("[real prover/verifier] panic: {}", p.message), wit),
    }
}

// ---------------------------------------------------------------------------------------------
// jobs
// ---------------------------------------------------------------------------------------------

enum Job {
    /// free exposure circuit through the catalogue driver (+ non-encoding attacks on the constrain path)
    Free { kind: Kind, path: Path, values: Vec<Val>, attack_first: usize },
    /// value pinned in circuit: catalogue driver with the adversarial search on
    Pinned { kind: Kind, value: Val },
    Mix { case: MixCase, edit_positions: usize },
    Real { case: MixCase },
    Verifier { idx: usize },
    Zkir { vals: Vec<zkir::ZVal> },
    /// exposure of the result of lazy arithmetic on emulated-field elements
    Derived { kind: Kind, op: usize },
    /// in-circuit injectivity of wide Jubjub scalars
    WideScalar { nb_bytes: Option<usize> },
    /// BigUint exposed with a declared bound different from the derived one
    BigDeclared,
}

impl Job {
    fn key(&self) -> String {
        match self {
            Job::Free { kind, path, .. } => format!("{}/{}", kind.type_name(), path.name()),
            Job::Pinned { kind, .. } => format!("{}/constrain+pinned", kind.type_name()),
            Job::Mix { case, .. } => {
                if case.witness.len() == 1 {
                    format!("{}/{}", case.witness[0].0.kind().type_name(), case.witness[0].1.name())
                } else {
                    "mixed/order".into()
                }
            }
            Job::Real { case } => {
                if case.witness.len() == 1 {
                    format!("{}/{}+real", case.witness[0].0.kind().type_name(), case.witness[0].1.name())
                } else {
                    "mixed/real".into()
                }
            }
            Job::Verifier { .. } => "verifier-types".into(),
            Job::Zkir { .. } => "zkir/publish".into(),
            Job::Derived { kind, op } => format!("{}/constrain-derived[{}]", kind.type_name(), val::DERIVED_OPS[*op]),
            Job::WideScalar { nb_bytes } => format!("jubjub-scalar/wide[{nb_bytes:?}]"),
            Job::BigDeclared => "biguint/declared-bound".into(),
        }
    }
    fn weight(&self) -> usize {
        let kw = |k: &Kind| match k {
            Kind::BlsPoint => 60,
            Kind::SecpPoint => 40,
            Kind::BlsBase | Kind::SecpBase | Kind::SecpScalar => 6,
            Kind::JubPoint | Kind::JubScalar => 3,
            _ => 1,
        };
        match self {
            Job::Free { kind, values, .. } => kw(kind) * values.len().max(1),
            Job::Pinned { kind, .. } => kw(kind) * 3,
            Job::Mix { case, .. } => case.witness.iter().map(|(v, _)| kw(&v.kind())).sum::<usize>() + 2,
            Job::Real { case } => 30 + 10 * case.witness.iter().map(|(v, _)| kw(&v.kind())).sum::<usize>(),
            Job::Verifier { .. } => 200,
            Job::Zkir { vals } => 2 * vals.len(),
            Job::Derived { kind, .. } => kw(kind) * 10,
            Job::WideScalar { .. } => 12,
            Job::BigDeclared => 12,
        }
    }
}

#[derive(Default)]
struct JobOut {
    idx: usize,
    key: String,
    op: OpStats,
    exp: ExpStats,
    real: RealStats,
    part: Option<Report>,
}

fn run_free(kind: Kind, path: Path, values: &[Val], attack_first: usize, thorough: bool, seed: u64, part: &mut Report, out: &mut JobOut) {
    let op = Expose { kind, path, pin: None };
    let mut opts = OpOptions::new("C08", thorough);
    // every vector in the image of the encoder is accepted with another witness: the generic
    // search towards edited positions would "find" those; attacks are aimed at non-encodings below
    opts.ars = None;
    opts.max_positions = if thorough { 64 } else { 16 };
    out.op = check_op(&op, values, &opts, seed, part);
    if path != Path::Constrain || attack_first == 0 {
        return;
    }
    // adversarial search towards vectors that are not the encoding of any value of the type
    let rel = OpRel(op.clone());
    let Ok(k) = catch_any(|| MidnightCircuit::new(&rel, Value::unknown(), Value::unknown(), Some(opts.max_bit_len)).min_k()) else { return };
    let budget = if thorough { ArsBudget { restarts: 64, nodes_per_restart: 4000, max_changed: 32 } } else { ArsBudget { restarts: 12, nodes_per_restart: 1500, max_changed: 24 } };
    let sig = format!("C08/{}", op.name());
    let mut rng = rng_for(seed, &format!("nonenc-{}", op.name()));
    for v in values.iter().take(attack_first) {
        let exp = v.encode_lib();
        let targets = kind.non_encodings(&exp);
        if targets.is_empty() {
            continue;
        }
        let circuit = MidnightCircuit::new(&rel, Value::known(exp.clone()), Value::known(v.clone()), Some(opts.max_bit_len));
        let wit = json!({"op": op.name(), "input": format!("{v:?}")});
        let Ok(Ok(t)) = catch_any(|| collect::<F, _>(k, &circuit, &[vec![], exp.clone()], CollectOpts::default())) else { continue };
        if !t.violations(1).is_empty() {
            continue; // already reported by the driver
        }
        let mut h = driver::Honest { tables: t };
        let real = |pi: &[F], changed: &BTreeMap<(usize, usize), F>| real_with_plan(&rel, v, pi, changed);
        for tg in targets {
            // the target must really be a non-encoding by the documented layout
            let mut tv = exp.clone();
            for (p, x) in &tg {
                tv[*p] = *x;
            }
            if kind.decode(&tv).is_ok() {
                part.count("nonenc.target_is_an_encoding(skipped)");
                continue;
            }
            let target: Vec<(usize, usize, F)> = tg.iter().map(|(p, x)| (1usize, *p, *x)).collect();
            driver::attack_non_encoding(&sig, k, &circuit, &mut h, &[], &exp, &target, &budget, Some(&real), &wit, &mut rng, part, &mut out.exp);
        }
    }
}

/// real prover under the fault plan + real verifier (same recipe as the catalogue driver)
fn real_with_plan(rel: &OpRel<Expose>, input: &Val, pi: &[F], changed: &BTreeMap<(usize, usize), F>) -> Result<bool, String> {
    let r = catch_any(|| {
        let k = MidnightCircuit::from_relation(rel).min_k();
        let params = params_for(k);
        let vk = midnight_zk_stdlib::setup_vk(params, rel);
        let pk = midnight_zk_stdlib::setup_pk(rel, &vk);
        midnight_proofs::verif_hooks::set_fault_plan::<F>(changed.clone());
        let proof = midnight_zk_stdlib::prove::<OpRel<Expose>, blake2b_simd::State>(params, &pk, rel, &pi.to_vec(), input.clone(), ChaCha8Rng::seed_from_u64(7));
        let (hits, _) = midnight_proofs::verif_hooks::clear_fault_plan();
        let proof = match proof {
            Ok(p) => p,
            Err(_) => return Ok(false),
        };
        if hits.len() < changed.len() {
            return Err(format!("fault plan hit {} of {} cells (table layout differs between max_bit_len 8 and the optimal one)", hits.len(), changed.len()));
        }
        Ok(midnight_zk_stdlib::verify::<OpRel<Expose>, blake2b_simd::State>(&params.verifier_params(), &vk, &pi.to_vec(), None, &proof).is_ok())
    });
    let _ = midnight_proofs::verif_hooks::clear_fault_plan();
    match r {
        Ok(x) => x,
        Err(p) => Err(format!("panic@{}: {}", repo_file(&p.file), p.message)),
    }
}

// ---- verifier types --------------------------------------------------------------------------

fn rand_f(rng: &mut ChaCha8Rng) -> F {
    F::random(rng)
}

fn verifier_cases(idx: usize, seed: u64) -> (String, verif::Shape, Accumulator<verif::S>) {
    use verif::*;
    let mut rng = rng_for(seed, &format!("verifier-{idx}"));
    let g = G1Projective::generator();
    let names = |p: &str, n: usize| (0..n).map(|i| format!("{p}_{i}")).collect::<Vec<_>>();
    let (label, shape, pts, scs, fl, fr): (&str, Shape, Vec<C>, Vec<F>, Vec<F>, Vec<F>) = match idx % 7 {
        // the library's own name list of a verifying key with 11 fixed and 12 permutation
        // commitments: numeric order, which is NOT the lexicographic order of the off-circuit map
        5 => {
            let rhs_names = midnight_circuits::verifier::fixed_base_names::<S>("vk", 11, 12);
            let n = rhs_names.len();
            let sh = Shape { lhs_len: 1, rhs_len: 1, lhs_names: vec![], rhs_names };
            let pts = (0..2).map(|_| g * rand_f(&mut rng)).collect();
            let scs = (0..2).map(|_| rand_f(&mut rng)).collect();
            ("library name list 11+12 (numeric order)", sh, pts, scs, vec![], (0..n).map(|_| rand_f(&mut rng)).collect())
        }
        // caller-chosen names in arbitrary order on both sides
        6 => {
            let sh = Shape {
                lhs_len: 1,
                rhs_len: 1,
                lhs_names: vec!["z".into(), "a".into(), "m".into()],
                rhs_names: vec!["k_2".into(), "k_10".into(), "-G".into(), "k_1".into()],
            };
            let pts = (0..2).map(|_| g * rand_f(&mut rng)).collect();
            let scs = (0..2).map(|_| rand_f(&mut rng)).collect();
            ("unsorted caller names", sh, pts, scs, (0..3).map(|_| rand_f(&mut rng)).collect(), (0..4).map(|_| rand_f(&mut rng)).collect())
        }
        // trivial accumulator of the IVC example: default (identity) bases, scalar one, zero fixed scalars
        0 => {
            let sh = Shape { lhs_len: 1, rhs_len: 1, lhs_names: vec![], rhs_names: names("vk_fixed_com", 3) };
            ("trivial(identity bases)", sh, vec![C::default(), C::default()], vec![F::ONE, F::ONE], vec![], vec![F::ZERO; 3])
        }
        1 => {
            let sh = Shape { lhs_len: 1, rhs_len: 1, lhs_names: vec![], rhs_names: vec!["-G".into(), "vk_perm_com_0".into()] };
            ("generator bases, boundary scalars", sh, vec![g, -g], vec![-F::ONE, F::ZERO], vec![], vec![-F::ONE, F::ONE])
        }
        2 => {
            let sh = Shape { lhs_len: 2, rhs_len: 1, lhs_names: names("l", 1), rhs_names: names("r", 2) };
            let pts = (0..3).map(|_| g * rand_f(&mut rng)).collect();
            let scs = (0..3).map(|_| rand_f(&mut rng)).collect();
            ("random 2+1", sh, pts, scs, vec![rand_f(&mut rng)], vec![rand_f(&mut rng), rand_f(&mut rng)])
        }
        3 => {
            let sh = Shape { lhs_len: 0, rhs_len: 2, lhs_names: vec![], rhs_names: vec![] };
            ("empty lhs, identity + random rhs", sh, vec![C::identity(), g * rand_f(&mut rng)], vec![rand_f(&mut rng), rand_f(&mut rng)], vec![], vec![])
        }
        _ => {
            let sh = Shape { lhs_len: 1, rhs_len: 2, lhs_names: names("a", 2), rhs_names: names("b", 1) };
            let pts = (0..3).map(|_| g * rand_f(&mut rng)).collect();
            let scs = (0..3).map(|_| rand_f(&mut rng)).collect();
            ("random 1+2", sh, pts, scs, vec![rand_f(&mut rng), rand_f(&mut rng)], vec![rand_f(&mut rng)])
        }
    };
    let lhs = msm_of(&pts[..shape.lhs_len], &scs[..shape.lhs_len], &shape.lhs_names, &fl);
    let rhs = msm_of(&pts[shape.lhs_len..], &scs[shape.lhs_len..], &shape.rhs_names, &fr);
    (label.to_string(), shape, Accumulator::<S>::new(lhs, rhs))
}

fn run_verifier(idx: usize, seed: u64, part: &mut Report, st: &mut ExpStats) {
    use verif::*;
    let (label, shape, acc) = verifier_cases(idx, seed);
    let describe = |acc: &Accumulator<S>| {
        let m = |m: &verif_msm::MsmT| json!({"bases": m.bases().iter().map(|b| format!("{:?}", Val::BlsPoint(*b))).collect::<Vec<_>>(),
            "scalars": hexv(&m.scalars()), "fixed": m.fixed_base_scalars().iter().map(|(k, v)| (k.clone(), json!(hexf(v)))).collect::<BTreeMap<_, _>>()});
        json!({"lhs": m(&acc.lhs()), "rhs": m(&acc.rhs())})
    };
    let wit = json!({"verifier_case": idx, "label": label, "shape": format!("{shape:?}"), "acc": describe(&acc)});
    let modes: Vec<(&str, Mode, Vec<F>, Vec<F>)> = {
        let full = AssignedAccumulator::<S>::as_public_input(&acc);
        let (plain_c, com_c) = AssignedAccumulator::<S>::as_public_input_with_committed_scalars(&acc);
        let (b, a) = (F::from(7), -F::ONE);
        let mut between = vec![b];
        between.extend(full.iter().copied());
        between.push(a);
        vec![
            ("AssignedAccumulator/constrain", Mode::Acc { shape: shape.clone(), acc: Value::known(acc.clone()) }, vec![], full),
            ("AssignedAccumulator/committed-scalars", Mode::AccCommitted { shape: shape.clone(), acc: Value::known(acc.clone()) }, com_c, plain_c),
            (
                "AssignedAccumulator/constrain-between-natives",
                Mode::AccBetweenNatives { shape: shape.clone(), acc: Value::known(acc.clone()), before: Value::known(b), after: Value::known(a) },
                vec![],
                between,
            ),
        ]
    };
    for (name, mode, committed, plain) in modes {
        let sig = format!("C08/{name}");
        let circuit = VerifCircuit { mode };
        let k = match catch_any(|| k_from_circuit(&circuit)) {
            Ok(k) => k,
            Err(p) => {
                part.violation(&format!("{sig}/panic-on-admissible-input@{}", repo_file(&p.file)), &format!("cost model / synthesis panics: {}", p.message), wit.clone());
                continue;
            }
        };
        if let Some(mut h) = driver::honest(&sig, k, &circuit, &committed, &plain, &wit, part, st) {
            part.nontrivial(&(name, idx, "verifier"));
            part.count(&format!("verifier.{name}.k={k}"));
            let mut pos = driver::pick_positions(0, committed.len(), 6);
            pos.extend(driver::pick_positions(1, plain.len(), 10));
            driver::edits(&sig, k, &circuit, &mut h, &committed, &plain, &pos, &wit, part, st);
        }
    }
}

mod verif_msm {
    pub type MsmT = midnight_circuits::verifier::Msm<super::verif::S>;
}

/// AssignedVk: `assign_vk_as_public_input` for the verifying keys of a few stdlib relations; the
/// encoding (transcript representation) must be bound, edits rejected, and distinct keys must
/// have distinct encodings.
fn run_vk(seed: u64, part: &mut Report, st: &mut ExpStats) {
    use verif::*;
    let mut rng = rng_for(seed, "vk-cases");
    let rels: Vec<MixRel> = vec![
        MixRel { items: vec![(Kind::Native, Path::Constrain)] },
        MixRel { items: vec![(Kind::Bit, Path::Constrain)] },
        MixRel { items: vec![(Kind::Native, Path::Constrain), (Kind::Native, Path::Constrain)] },
        MixRel { items: vec![(Kind::Byte, Path::AssignPi), (Kind::Big(97 + rng.gen_range(0..90)), Path::Constrain)] },
    ];
    let mut seen: HashMap<Vec<String>, usize> = HashMap::new();
    for (i, rel) in rels.iter().enumerate() {
        let wit = json!({"vk_of_relation": rel.items.iter().map(|(k, p)| format!("{}:{}", k.type_name(), p.name())).collect::<Vec<_>>()});
        let r = catch_any(|| {
            let k = MidnightCircuit::from_relation(rel).min_k();
            midnight_zk_stdlib::setup_vk(params_for(k), rel)
        });
        let mvk = match r {
            Ok(v) => v,
            Err(p) => {
                part.inconclusive(&format!("vk case {i}: setup_vk panicked: {}", p.message));
                continue;
            }
        };
        let vk = mvk.vk();
        let enc = AssignedVk::<S>::as_public_input(vk);
        if let Some(j) = seen.insert(hexv(&enc), i) {
            part.violation(
                "C08/AssignedVk/offcircuit/encoding-collision",
                &format!("verifying keys of two different relations ({j} and {i}) have the same public-input encoding"),
                json!({"case": wit, "encoding": hexv(&enc)}),
            );
        }
        let sig = "C08/AssignedVk/assign";
        let circuit = VerifCircuit { mode: Mode::Vk { name: format!("vk{i}"), domain: vk.get_domain().clone(), cs: Box::new(vk.cs().clone()), repr: Value::known(vk.transcript_repr()) } };
        let k = match catch_any(|| k_from_circuit(&circuit)) {
            Ok(k) => k,
            Err(p) => {
                part.violation(&format!("{sig}/panic-on-admissible-input@{}", repo_file(&p.file)), &format!("cost model / synthesis panics: {}", p.message), wit.clone());
                continue;
            }
        };
        if let Some(mut h) = driver::honest(sig, k, &circuit, &[], &enc, &wit, part, st) {
            part.nontrivial(&("vk", i));
            let pos = driver::pick_positions(1, enc.len(), 4);
            driver::edits(sig, k, &circuit, &mut h, &[], &enc, &pos, &wit, part, st);
        }
    }
}

// ---- off-circuit injectivity ------------------------------------------------------------------

fn injectivity(kinds: &[Kind], n_random: usize, ctx: &Ctx, rep: &mut Report, explicit: Option<&[Val]>) -> Json {
    let mut table = serde_json::Map::new();
    for &kind in kinds {
        let mut rng = ctx.rng(&format!("inj-{kind:?}"));
        let vals = match explicit {
            Some(e) => e.iter().filter(|v| v.kind() == kind).cloned().collect(),
            None => val::values(kind, usize::MAX, n_random, &mut rng),
        };
        let mut seen: HashMap<Vec<[u8; 32]>, String> = HashMap::new();
        let sig = format!("C08/{}/offcircuit", kind.type_name());
        let mut ok = 0u64;
        for v in &vals {
            rep.eval();
            let enc = match catch_any(|| v.encode_lib()) {
                Ok(e) => e,
                Err(p) => {
                    rep.violation(&format!("{sig}/panic-on-admissible-input@{}", repo_file(&p.file)), &format!("the off-circuit encoder panics: {}", p.message), json!({"value": format!("{v:?}")}));
                    continue;
                }
            };
            if enc.len() != kind.width() {
                rep.violation(
                    &format!("{sig}/count-mismatch"),
                    &format!("the encoding has {} elements, the documented layout has {}", enc.len(), kind.width()),
                    json!({"value": format!("{v:?}"), "encoding": hexv(&enc)}),
                );
                continue;
            }
            match kind.decode(&enc) {
                Ok(back) if back.key() == v.key() => {}
                other => {
                    rep.violation(
                        &format!("{sig}/encoding-does-not-decode"),
                        &format!("decoding the encoding by the documented layout gives {other:?} instead of the value"),
                        json!({"value": format!("{v:?}"), "encoding": hexv(&enc)}),
                    );
                    continue;
                }
            }
            let key: Vec<[u8; 32]> = enc.iter().map(|f| f.to_bytes_le()).collect();
            if let Some(prev) = seen.insert(key, v.key()) {
                if prev != v.key() {
                    rep.violation(
                        &format!("{sig}/encoding-collision"),
                        "two distinct values have the same off-circuit encoding",
                        json!({"value_a": prev, "value_b": v.key(), "encoding": hexv(&enc)}),
                    );
                    continue;
                }
            }
            ok += 1;
            rep.nontrivial(&("inj", v.key()));
            // a big integer beyond the declared bound must not be formatted like an admissible one
            if let (Kind::Big(n), Val::Big(x, _)) = (kind, v) {
                let limbs = n.div_ceil(val::BIG_LOG2_BASE).max(1);
                for m in [1u32, 3] {
                    let wide = x + (num_bigint::BigUint::from(m) << (val::BIG_LOG2_BASE * limbs) as usize);
                    rep.eval();
                    match catch_any(|| Val::Big(wide.clone(), n).encode_lib()) {
                        Err(_) => rep.count("offcircuit.big.out-of-range.refused"),
                        Ok(e2) if e2 == enc => rep.violation(
                            &format!("{sig}/out-of-range-value-shares-an-encoding"),
                            "the off-circuit encoder formats an integer beyond the declared bound exactly like an admissible one (documented: panics if the conversion is not possible)",
                            json!({"value": format!("{v:?}"), "out_of_range": format!("{wide:x}"), "nb_bits": n, "encoding": hexv(&enc)}),
                        ),
                        Ok(_) => rep.count("offcircuit.big.out-of-range.other-encoding"),
                    }
                }
            }
        }
        let e = table.entry(kind.type_name().to_string()).or_insert(json!({"values": 0, "decoded_back": 0}));
        e["values"] = json!(e["values"].as_u64().unwrap_or(0) + vals.len() as u64);
        e["decoded_back"] = json!(e["decoded_back"].as_u64().unwrap_or(0) + ok);
    }
    Json::Object(table)
}

/// Off-circuit encoders of Msm / Accumulator: length, consistency of the two forms, injectivity
/// within a shape (the shape — lengths and fixed-base names — is a parameter of the circuit).
fn injectivity_verifier(n: usize, ctx: &Ctx, rep: &mut Report) -> Json {
    use verif::*;
    let mut seen: HashMap<(usize, Vec<String>), String> = HashMap::new();
    let mut cases = 0u64;
    let bls_w = <<S as midnight_circuits::verifier::SelfEmulation>::AssignedPoint as Instantiable<F>>::as_public_input(&G1Projective::generator()).len();
    for i in 0..n {
        let (_, shape, acc) = verifier_cases(i, ctx.seed);
        rep.eval();
        let full = AssignedAccumulator::<S>::as_public_input(&acc);
        let (pl, co) = AssignedAccumulator::<S>::as_public_input_with_committed_scalars(&acc);
        let lhs = AssignedMsm::<S>::as_public_input(&acc.lhs());
        let rhs = AssignedMsm::<S>::as_public_input(&acc.rhs());
        let exp_len = |len: usize, names: usize| len * bls_w + len + names;
        let w = json!({"verifier_case": i, "shape": format!("{shape:?}")});
        if lhs.len() != exp_len(shape.lhs_len, shape.lhs_names.len()) || rhs.len() != exp_len(shape.rhs_len, shape.rhs_names.len()) || full.len() != lhs.len() + rhs.len() {
            rep.violation(
                "C08/AssignedMsm/offcircuit/count-mismatch",
                &format!("Msm encodings have {} / {} elements, accumulator {}; layout (bases, scalars, fixed scalars) gives {} / {}", lhs.len(), rhs.len(), full.len(), exp_len(shape.lhs_len, shape.lhs_names.len()), exp_len(shape.rhs_len, shape.rhs_names.len())),
                w.clone(),
            );
            continue;
        }
        // documented relation between the two forms: the committed part is the (non-fixed and fixed) scalars of the rhs
        let mut recomposed = pl.clone();
        recomposed.extend(co.iter().copied());
        if full != [lhs.clone(), rhs.clone()].concat() || recomposed != full || co.len() != shape.rhs_len + shape.rhs_names.len() {
            rep.violation(
                "C08/AssignedAccumulator/offcircuit/forms-disagree",
                "as_public_input and as_public_input_with_committed_scalars do not describe the same accumulator (plain ++ committed != lhs ++ rhs)",
                w.clone(),
            );
            continue;
        }
        // decode the bases back by the foreign-point layout
        let mut ok = true;
        for (j, b) in acc.lhs().bases().iter().chain(acc.rhs().bases().iter()).enumerate() {
            let off = if j < shape.lhs_len { j * bls_w } else { lhs.len() + (j - shape.lhs_len) * bls_w };
            match Kind::BlsPoint.decode(&full[off..off + bls_w]) {
                Ok(v) if v.key() == Val::BlsPoint(*b).key() => {}
                other => {
                    ok = false;
                    rep.violation("C08/AssignedMsm/offcircuit/encoding-does-not-decode", &format!("base {j} decodes to {other:?}"), w.clone());
                }
            }
        }
        if !ok {
            continue;
        }
        let value_key = format!("{:?}|{:?}|{:?}|{:?}|{:?}|{:?}", acc.lhs().bases().iter().map(|b| Val::BlsPoint(*b)).collect::<Vec<_>>(), hexv(&acc.lhs().scalars()), acc.lhs().fixed_base_scalars().values().map(hexf).collect::<Vec<_>>(),
            acc.rhs().bases().iter().map(|b| Val::BlsPoint(*b)).collect::<Vec<_>>(), hexv(&acc.rhs().scalars()), acc.rhs().fixed_base_scalars().values().map(hexf).collect::<Vec<_>>());
        if let Some(prev) = seen.insert((shape.lhs_len, hexv(&full)), value_key.clone()) {
            if prev != value_key {
                rep.violation("C08/AssignedAccumulator/offcircuit/encoding-collision", "two distinct accumulators of the same shape have the same encoding", w);
                continue;
            }
        }
        cases += 1;
        rep.nontrivial(&("inj-acc", i));
    }
    json!({"accumulators": n, "consistent": cases})
}

// ---------------------------------------------------------------------------------------------
// workload
// ---------------------------------------------------------------------------------------------

fn big_widths(thorough: bool) -> Vec<u32> {
    // 1–9 limbs of 96 bits: exact multiples, one above, one below, tiny
    let mut v = vec![1u32, 8, 95, 96, 97, 192, 193, 288, 300, 384, 480, 576, 672, 768, 864];
    if thorough {
        for l in 1..=9u32 {
            v.extend([96 * l - 1, 96 * l, 96 * l - 47]);
            if l < 9 {
                v.push(96 * l + 1);
            }
        }
        v.push(2);
    }
    v.sort();
    v.dedup();
    v
}

fn all_kinds(thorough: bool) -> Vec<Kind> {
    let mut k = vec![Kind::Bit, Kind::Byte, Kind::Native, Kind::SecpBase, Kind::SecpScalar, Kind::BlsBase, Kind::JubPoint, Kind::JubScalar, Kind::SecpPoint, Kind::BlsPoint];
    k.extend(big_widths(thorough).into_iter().map(Kind::Big));
    k
}

/// (boundary values, random values) per kind and tier
fn budget(kind: Kind, thorough: bool) -> (usize, usize) {
    match (kind, thorough) {
        (Kind::Bit, _) => (2, 0),
        (Kind::Byte, false) => (6, 2),
        (Kind::Byte, true) => (6, 250),
        (Kind::Native, false) => (10, 3),
        (Kind::Native, true) => (10, 240),
        (Kind::SecpBase | Kind::SecpScalar | Kind::BlsBase, false) => (9, 2),
        (Kind::SecpBase | Kind::SecpScalar | Kind::BlsBase, true) => (usize::MAX, 150),
        (Kind::JubPoint, false) => (4, 2),
        (Kind::JubPoint, true) => (4, 150),
        (Kind::JubScalar, false) => (6, 2),
        (Kind::JubScalar, true) => (8, 150),
        (Kind::SecpPoint | Kind::BlsPoint, false) => (2, 1),
        (Kind::SecpPoint | Kind::BlsPoint, true) => (4, 16),
        (Kind::Big(_), false) => (3, 1),
        (Kind::Big(_), true) => (usize::MAX, 30),
    }
}

fn random_mix(rng: &mut ChaCha8Rng, n: usize, allow_foreign_points: bool, allow_committed: bool) -> Vec<(Val, Path)> {
    let widths = big_widths(false);
    let mut out = vec![];
    // at most one foreign-point exposure per relation (they dominate the circuit size)
    let mut foreign_left = if allow_foreign_points { 1 } else { 0 };
    for _ in 0..n {
        let kind = loop {
            let k = match rng.gen_range(0..16) {
                0..=2 => Kind::Bit,
                3..=4 => Kind::Byte,
                5..=7 => Kind::Native,
                8 => Kind::SecpBase,
                9 => Kind::SecpScalar,
                10 => Kind::BlsBase,
                11 => Kind::JubPoint,
                12 => Kind::JubScalar,
                13 => Kind::Big(*widths.choose(rng).unwrap()),
                14 => Kind::SecpPoint,
                _ => Kind::BlsPoint,
            };
            if k.is_foreign_point() {
                if foreign_left == 0 {
                    continue;
                }
                foreign_left -= 1;
            }
            break k;
        };
        let mut paths = vec![Path::Constrain];
        if kind.has_path(Path::AssignPi) {
            paths.push(Path::AssignPi);
        }
        if allow_committed && kind.has_path(Path::Committed) {
            paths.push(Path::Committed);
        }
        let path = *paths.choose(rng).unwrap();
        let v = if rng.gen_bool(0.4) { boundary_pick(kind, rng) } else { val::random(kind, rng) };
        out.push((v, path));
    }
    out
}

fn boundary_pick(kind: Kind, rng: &mut ChaCha8Rng) -> Val {
    let b = val::boundary(kind);
    b[rng.gen_range(0..b.len())].clone()
}

fn main() {
    let mut ctx = Ctx::from_args("C08");
    let mut replay: Option<Json> = None;
    if let Some(path) = ctx.replay.clone() {
        match load_replay(&path) {
            Some(j) => {
                if let Some(s) = j.get("seed").and_then(|s| s.as_u64()) {
                    ctx.seed = s;
                }
                if j.get("tier").and_then(|t| t.as_str()) == Some("thorough") {
                    ctx.tier = Tier::Thorough;
                }
                replay = Some(j["witness"].clone());
            }
            None => {
                eprintln!("cannot read replay file {}", path.display());
                std::process::exit(2);
            }
        }
    }
    let thorough = ctx.tier == Tier::Thorough;
    let mut rep = Report::new(
        &ctx,
        "case = (value type, exposure path, value): the circuit `assign v (type's own assign); expose` must be accepted by the reference evaluator AND MockProver with instance = \
         the library's off-circuit encoding of v, bind exactly that many instance cells, and be rejected with every single-position edit (+1, 0, complement, negation, double, another \
         value of the case) against the fixed honest witness; with v pinned in circuit (assert_equal_to_fixed, constrain path) the adversarial repair search towards every edited position \
         must fail, without the pin it is aimed at non-encodings only; encodings must decode by the documented layout back to the value and be pairwise distinct; relations exposing 0-40 \
         values of mixed types in random order must bind the concatenation of the encodings; real proofs: verify accepts the exact vector and rejects vectors one shorter / longer, \
         committed instances verified against commit_to_instances. Non-trivial = distinct (type, path, value) accepted honestly, distinct value whose encoding decodes back, distinct \
         relation proven and verified.",
    );
    rep.assume("assign_as_public_input relies on off-circuit checks of the instance (documented): on that path only the instance is edited against the fixed honest witness, no adversarial search");
    rep.assume("a different vector in the image of the encoder is another witness of `assign v; expose`, not a forgery: the adversarial search on unpinned circuits targets non-encodings only");
    rep.assume("emulated field elements admit several well-formed (non-canonical) limb representations in circuit by design (field_chip.rs); only the honest (canonical) representation is compared with the encoder");
    rep.assume("Msm / Accumulator encodings are injective within a shape (lengths and fixed-base names are parameters of the circuit, not part of the encoding)");
    rep.assume("the number recorded at key generation is observed through `verify` only (exact length accepted, +-1 rejected); no byte layout of the verifying key is assumed");
    rep.assume("ARS is a bounded heuristic search: 'held' = no attack within the node budget from the listed targets");

    // ---- jobs ----
    let mut jobs: Vec<Job> = vec![];
    let kinds = all_kinds(thorough);
    if let Some(w) = &replay {
        // replay: a catalogue witness {"op","input"} or a mixed / real case {"mix": [...]}
        let case_json = if w.get("mix").is_some() { Some(w.clone()) } else { w.get("case").filter(|c| c.get("mix").is_some()).cloned() };
        if let Some(cj) = case_json {
            match MixCase::parse(&cj) {
                Some(c) => {
                    let c2 = MixCase::new(c.witness.clone(), &c.label);
                    jobs.push(Job::Mix { case: c, edit_positions: 64 });
                    jobs.push(Job::Real { case: c2 });
                }
                None => {
                    eprintln!("cannot parse the mixed case of the replay file");
                    std::process::exit(2);
                }
            }
        } else if let (Some(op), Some(input)) = (w.get("op").and_then(|o| o.as_str()), w.get("input").and_then(|i| i.as_str()).and_then(Val::parse)) {
            let pinned = op.ends_with("+pinned");
            let path = if op.contains("/assign") { Path::AssignPi } else { Path::Constrain };
            if pinned {
                jobs.push(Job::Pinned { kind: input.kind(), value: input });
            } else {
                jobs.push(Job::Free { kind: input.kind(), path, values: vec![input], attack_first: 1 });
            }
        } else if let Some(c) = w.get("case").and_then(|c| c.get("op")).and_then(|o| o.as_str()).zip(w.get("case").and_then(|c| c.get("input")).and_then(|i| i.as_str()).and_then(Val::parse)) {
            jobs.push(Job::Free { kind: c.1.kind(), path: Path::Constrain, values: vec![c.1], attack_first: 1 });
        } else if let Some(z) = w.get("zkir").and_then(zkir::parse) {
            jobs.push(Job::Zkir { vals: z });
        } else if let Some(i) = w.get("verifier_case").and_then(|i| i.as_u64()).or(w.get("case").and_then(|c| c.get("verifier_case")).and_then(|i| i.as_u64())) {
            jobs.push(Job::Verifier { idx: i as usize });
        } else {
            if !["value", "value_a"].iter().any(|k| w.get(*k).is_some()) {
                eprintln!("replay file has no re-executable case");
                std::process::exit(2);
            }
        }
    } else {
        // A: free exposure, both paths
        for &kind in &kinds {
            let (nb, nr) = budget(kind, thorough);
            for path in [Path::Constrain, Path::AssignPi] {
                if !kind.has_path(path) {
                    continue;
                }
                let mut rng = ctx.rng(&format!("values-{kind:?}-{}", path.name()));
                let values = val::values(kind, nb, nr, &mut rng);
                // split large value lists so that jobs stay short
                let chunk = if kind.is_foreign_point() { 4 } else { 40 };
                for (ci, c) in values.chunks(chunk).enumerate() {
                    jobs.push(Job::Free { kind, path, values: c.to_vec(), attack_first: if ci == 0 { ctx.tier.pick(2, 6) } else { 0 } });
                }
            }
        }
        // B: pinned values, constrain path
        for &kind in &kinds {
            if !kind.can_pin() {
                continue;
            }
            let n = match (kind, thorough) {
                (Kind::SecpPoint | Kind::BlsPoint, false) => 1,
                (Kind::SecpPoint | Kind::BlsPoint, true) => 3,
                (Kind::Big(_), false) => 1,
                (Kind::Big(_), true) => 3,
                (_, false) => 2,
                (_, true) => 8,
            };
            let mut rng = ctx.rng(&format!("pinned-{kind:?}"));
            let b = val::boundary(kind);
            let mut vals: Vec<Val> = vec![];
            for i in 0..n {
                // alternate boundary (from the end: p-1, maximal limbs, ...) and random values
                let v = if i % 2 == 0 && i / 2 < b.len() { b[b.len() - 1 - i / 2].clone() } else { val::random(kind, &mut rng) };
                if !vals.iter().any(|o| o.key() == v.key()) {
                    vals.push(v);
                }
            }
            for v in vals {
                jobs.push(Job::Pinned { kind, value: v });
            }
        }
        // C: committed column (single exposures, then plain + committed mixtures)
        for kind in [Kind::Bit, Kind::Byte, Kind::Native] {
            let mut rng = ctx.rng(&format!("committed-{kind:?}"));
            for v in val::values(kind, ctx.tier.pick(3, 10), ctx.tier.pick(1, 30), &mut rng) {
                jobs.push(Job::Mix { case: MixCase::new(vec![(v, Path::Committed)], "committed-single"), edit_positions: 8 });
            }
        }
        // D: mixed relations, 0–40 values
        {
            let mut rng = ctx.rng("mixed");
            let n_rel = ctx.tier.pick(14, 160);
            for i in 0..n_rel {
                let n = match i {
                    0 => 0,
                    1 => 1,
                    2 => 40,
                    3 => 2,
                    _ => rng.gen_range(0..=40),
                };
                let foreign = thorough && i % 8 == 5 || !thorough && i == 5;
                let vals = random_mix(&mut rng, n, foreign, i % 2 == 0);
                jobs.push(Job::Mix { case: MixCase::new(vals, &format!("mixed-{i}")), edit_positions: ctx.tier.pick(6, 16) });
            }
        }
        // E: verifier types
        for i in 0..ctx.tier.pick(7, 21) {
            jobs.push(Job::Verifier { idx: i });
        }
        jobs.push(Job::Verifier { idx: usize::MAX }); // AssignedVk
        // E'': Jubjub scalars wider than the group order, built in circuit
        for nb in [Some(32usize), Some(33), Some(40), None] {
            jobs.push(Job::WideScalar { nb_bytes: nb });
        }
        jobs.push(Job::BigDeclared);
        // E': derived (un-normalised) emulated-field elements
        for (ki, kind) in [Kind::SecpBase, Kind::SecpScalar, Kind::BlsBase].into_iter().enumerate() {
            for op in 0..val::DERIVED_OPS.len() {
                if thorough || (op + ki) % 2 == 0 || op == 1 {
                    jobs.push(Job::Derived { kind, op });
                }
            }
        }
        // F: ZKIR Publish (light; C18 covers Publish in depth)
        {
            use zkir::ZVal;
            let mut rng = ctx.rng("zkir");
            let one = |k: Kind, rng: &mut ChaCha8Rng, b: bool| ZVal::One(if b { boundary_pick(k, rng) } else { val::random(k, rng) });
            let zk: Vec<Kind> = vec![Kind::Bit, Kind::Native, Kind::Big(97), Kind::Big(288), Kind::JubPoint, Kind::JubScalar];
            for &k in &zk {
                for r in 0..ctx.tier.pick(2, 12) {
                    jobs.push(Job::Zkir { vals: vec![one(k, &mut rng, r % 2 == 0)] });
                }
            }
            for r in 0..ctx.tier.pick(2, 12) {
                // Bytes(0) loads are a known panic of the IR (C18: load-bytes-0) and have an empty encoding
                let n = [1usize, 3, 32, 33, 2][r % 5];
                jobs.push(Job::Zkir { vals: vec![ZVal::Bytes((0..n).map(|i| if r % 2 == 0 { [0u8, 255, 1, 128][i % 4] } else { rng.gen() }).collect())] });
            }
            for _ in 0..ctx.tier.pick(2, 20) {
                let n = rng.gen_range(2..=8);
                let vals = (0..n)
                    .map(|_| {
                        if rng.gen_bool(0.15) {
                            ZVal::Bytes((0..rng.gen_range(1..6)).map(|_| rng.gen()).collect())
                        } else {
                            let k = *zk.choose(&mut rng).unwrap();
                            let b = rng.gen_bool(0.3);
                            one(k, &mut rng, b)
                        }
                    })
                    .collect();
                jobs.push(Job::Zkir { vals });
            }
        }
        // H: real proofs (count semantics, committed instances end to end)
        {
            let mut rng = ctx.rng("real");
            let mut cases: Vec<Vec<(Val, Path)>> = vec![
                vec![],
                // trailing zero encodings: dropping them leaves the instance polynomial unchanged
                vec![(Val::Native(F::from(5)), Path::Constrain), (Val::Bit(false), Path::Constrain)],
                vec![(Val::Bit(true), Path::AssignPi), (Val::Byte(0), Path::AssignPi), (Val::Native(F::ZERO), Path::AssignPi)],
                vec![(Val::Bit(true), Path::Committed)],
                vec![(Val::Byte(255), Path::Committed), (Val::Native(-F::ONE), Path::Constrain), (Val::Native(F::from(3)), Path::Committed), (Val::Bit(false), Path::Committed)],
                vec![(boundary_pick(Kind::JubPoint, &mut rng), Path::AssignPi), (val::random(Kind::JubScalar, &mut rng), Path::Constrain), (Val::Big(num_bigint::BigUint::from(1u8) << 96, 192), Path::Constrain)],
                vec![(val::random(Kind::SecpScalar, &mut rng), Path::Constrain), (Val::Byte(7), Path::Committed), (val::random(Kind::SecpBase, &mut rng), Path::AssignPi)],
                vec![(val::random(Kind::BlsBase, &mut rng), Path::Constrain), (Val::Bit(false), Path::AssignPi)],
            ];
            let n_rand = ctx.tier.pick(2, 88);
            for i in 0..n_rand {
                let n = rng.gen_range(1..=if thorough { 16 } else { 8 });
                cases.push(random_mix(&mut rng, n, thorough && i % 12 == 3, true));
            }
            if thorough {
                cases.push(vec![(Val::SecpPoint(midnight_curves::k256::K256::identity()), Path::Constrain), (Val::Bit(false), Path::Constrain)]);
                cases.push(vec![(Val::BlsPoint(G1Projective::generator()), Path::AssignPi), (Val::Bit(true), Path::Committed)]);
                for kind in [Kind::Bit, Kind::Byte, Kind::Native, Kind::JubPoint, Kind::JubScalar, Kind::SecpBase, Kind::Big(97)] {
                    cases.push(vec![(boundary_pick(kind, &mut rng), Path::Constrain)]);
                }
            }
            for (i, c) in cases.into_iter().enumerate() {
                jobs.push(Job::Real { case: MixCase::new(c, &format!("real-{i}")) });
            }
        }
    }
    // --only <substring of a job key> (debugging aid: restricts the workload, skips the off-circuit part)
    let only = ctx.extra.get("only").cloned();
    if let Some(o) = &only {
        jobs.retain(|j| j.key().contains(o.as_str()));
    }
    let planned: usize = jobs
        .iter()
        .map(|j| match j {
            Job::Free { values, .. } => values.len(),
            _ => 1,
        })
        .sum();
    if replay.is_none() {
        rep.min_nontrivial = (planned / 2) as u64;
    }
    if only.is_some() {
        rep.min_nontrivial = 1;
    }

    // ---- run on plain OS threads (the prover's fault plan is thread-local; see c04.rs) ----
    let order: Vec<usize> = {
        let mut o: Vec<usize> = (0..jobs.len()).collect();
        o.sort_by_key(|i| std::cmp::Reverse(jobs[*i].weight()));
        o
    };
    let next = AtomicUsize::new(0);
    let outs: Mutex<Vec<JobOut>> = Mutex::new(vec![]);
    let n_threads = std::thread::available_parallelism().map(|n| n.get()).unwrap_or(8).min(32);
    let progress = std::env::var("MZV_PROGRESS").is_ok();
    std::thread::scope(|s| {
        for t in 0..n_threads {
            let (jobs, order, next, outs, rep, seed) = (&jobs, &order, &next, &outs, &rep, ctx.seed);
            std::thread::Builder::new()
                .name(format!("c08-{t}"))
                .stack_size(64 << 20)
                .spawn_scoped(s, move || loop {
                    let i = next.fetch_add(1, Ordering::SeqCst);
                    if i >= order.len() {
                        break;
                    }
                    let idx = order[i];
                    let job = &jobs[idx];
                    let t0 = std::time::Instant::now();
                    let out = run_job(idx, job, thorough, seed, rep);
                    if progress {
                        eprintln!("[c08] {:>4}/{} {:6.1}s {}", i + 1, order.len(), t0.elapsed().as_secs_f64(), job.key());
                    }
                    outs.lock().unwrap().push(out);
                })
                .expect("spawn worker");
        }
    });
    let mut outs = outs.into_inner().unwrap();
    outs.sort_by_key(|o| o.idx);

    // ---- off-circuit injectivity (cheap, sequential) ----
    let (inj, inj_v) = match &replay {
        None if only.is_some() => (json!({}), json!({})),
        None => (
            injectivity(&all_kinds(true), ctx.tier.pick(300, 4000), &ctx, &mut rep, None),
            injectivity_verifier(ctx.tier.pick(10, 60), &ctx, &mut rep),
        ),
        Some(w) => {
            // off-circuit findings carry the value(s) themselves
            let vals: Vec<Val> = ["value", "value_a", "value_b"].iter().filter_map(|k| w.get(*k).and_then(|v| v.as_str()).and_then(Val::parse)).collect();
            let kinds: BTreeSet<Kind> = vals.iter().map(|v| v.kind()).collect();
            let inj = if vals.is_empty() { json!({}) } else { injectivity(&kinds.into_iter().collect::<Vec<_>>(), 0, &ctx, &mut rep, Some(&vals)) };
            let inj_v = if w.get("verifier_case").is_some() { injectivity_verifier(w["verifier_case"].as_u64().unwrap_or(0) as usize + 1, &ctx, &mut rep) } else { json!({}) };
            (inj, inj_v)
        }
    };

    // ---- merge ----
    let mut matrix: BTreeMap<String, (OpStats, ExpStats, RealStats, u64)> = BTreeMap::new();
    let mut tot_real = RealStats::default();
    for o in outs {
        let e = matrix.entry(o.key.clone()).or_default();
        e.0.honest_runs += o.op.honest_runs;
        e.0.edits += o.op.edits;
        e.0.ars_targets += o.op.ars_targets;
        e.0.ars_nodes += o.op.ars_nodes;
        e.1.honest += o.exp.honest;
        e.1.edits += o.exp.edits;
        e.1.ars_targets += o.exp.ars_targets;
        e.1.ars_nodes += o.exp.ars_nodes;
        e.2.proofs += o.real.proofs;
        e.2.verifications += o.real.verifications;
        e.3 += 1;
        tot_real.proofs += o.real.proofs;
        tot_real.verifications += o.real.verifications;
        if let Some(p) = o.part {
            rep.merge(p);
        }
    }
    rep.counters.retain(|k, _| !(k.ends_with(".honest_runs") || k.ends_with(".edits") || k.ends_with(".ars_targets") || k.ends_with(".ars_nodes")));
    let mut tot = (0u64, 0u64, 0u64, 0u64);
    let m: BTreeMap<String, Json> = matrix
        .iter()
        .map(|(k, (op, ex, re, jobs))| {
            tot.0 += op.honest_runs + ex.honest;
            tot.1 += op.edits + ex.edits;
            tot.2 += op.ars_targets + ex.ars_targets;
            tot.3 += op.ars_nodes + ex.ars_nodes;
            (
                k.clone(),
                json!({"jobs": jobs, "honest_runs": op.honest_runs + ex.honest, "instance_edits": op.edits + ex.edits, "ars_targets": op.ars_targets + ex.ars_targets,
                       "ars_nodes": op.ars_nodes + ex.ars_nodes, "real_proofs": re.proofs, "real_verifications": re.verifications}),
            )
        })
        .collect();
    // every planned (type, path) must have produced at least one honest run
    if replay.is_none() {
        for (k, (op, ex, re, _)) in &matrix {
            if op.honest_runs + ex.honest + re.proofs == 0 {
                rep.inconclusive(&format!("{k}: planned, but no honest run executed"));
                rep.min_nontrivial = u64::MAX;
            }
        }
    }
    rep.set("matrix_type_x_path", json!(m));
    rep.set("totals", json!({"jobs": matrix.values().map(|v| v.3).sum::<u64>(), "honest_mock_and_reference_runs": tot.0, "instance_edits": tot.1, "ars_targets": tot.2, "ars_nodes": tot.3,
        "real_proofs": tot_real.proofs, "real_verifications": tot_real.verifications}));
    rep.set("injectivity_offcircuit", inj);
    rep.set("injectivity_verifier_types", inj_v);
    rep.set("biguint_nb_bits", json!(big_widths(thorough)));
    rep.set("unreachable", json!(UNREACHABLE));
    rep.set("threads", json!(n_threads));
    rep.finish();
}

fn run_job(idx: usize, job: &Job, thorough: bool, seed: u64, proto: &Report) -> JobOut {
    let run = |part: &mut Report, out: &mut JobOut| match job {
        Job::Free { kind, path, values, attack_first } => run_free(*kind, *path, values, *attack_first, thorough, seed, part, out),
        Job::Pinned { kind, value } => {
            let op = Expose { kind: *kind, path: Path::Constrain, pin: Some(value.clone()) };
            let mut opts = OpOptions::new("C08", thorough);
            opts.max_positions = if thorough { 16 } else { 4 };
            if kind.is_foreign_point() || thorough {
                // large tables (each restart clones them): fewer, equally deep restarts
                opts.ars = Some(ArsBudget { restarts: if thorough { 24 } else { 6 }, nodes_per_restart: 2000, max_changed: 24 });
            } else {
                opts.ars = Some(ArsBudget { restarts: 12, nodes_per_restart: 2000, max_changed: 24 });
            }
            out.op = check_op(&op, std::slice::from_ref(value), &opts, seed, part);
        }
        Job::Mix { case, edit_positions } => {
            if check_mix(case, *edit_positions, part, &mut out.exp) {
                part.nontrivial(&("mix", format!("{:?}", case.witness)));
            }
        }
        Job::Real { case } => check_real(case, seed, part, &mut out.real),
        Job::Verifier { idx } => {
            if *idx == usize::MAX {
                run_vk(seed, part, &mut out.exp)
            } else {
                run_verifier(*idx, seed, part, &mut out.exp)
            }
        }
        Job::Zkir { vals } => zkir::check_publish(vals, part, &mut out.exp),
        Job::Derived { kind, op } => run_derived(*kind, *op, thorough, seed, part, out),
        Job::WideScalar { nb_bytes } => run_wide_scalar(*nb_bytes, thorough, seed, part, &mut out.exp),
        Job::BigDeclared => run_big_declared(seed, part, &mut out.exp),
    };
    let mut out = JobOut { idx, key: job.key(), ..Default::default() };
    let mut part = proto.fork();
    run(&mut part, &mut out);
    if !part.violations.is_empty() {
        // re-execute the case once before reporting (BUILDERS.md); keep what reproduces
        let mut again = proto.fork();
        let mut scratch = JobOut::default();
        run(&mut again, &mut scratch);
        let sigs: BTreeSet<String> = again.violations.iter().map(|v| v.signature.clone()).collect();
        let all = std::mem::take(&mut part.violations);
        for v in all {
            if sigs.contains(&v.signature) {
                part.violations.push(v);
            } else {
                part.inconclusive(&format!("violation {} did not reproduce on re-execution", v.signature));
            }
        }
    }
    out.part = Some(part);
    out
}
