//! Mini-driver for exposure circuits that the catalogue driver cannot express: circuits with a
//! committed instance column, and circuits that are not `ZkStdLib` relations (verifier types).
//! Same stages and the same discipline as `engines::catalogue::check_op`: honest run accepted by
//! the reference evaluator AND MockProver, count of bound instance cells, every position of
//! both instance columns edited against the fixed honest witness must be rejected, optional
//! adversarial repair search towards vectors that are not encodings, confirmed by MockProver.

use std::collections::BTreeMap;

use ff::Field;
use midnight_curves::Fq as F;
use midnight_proofs::{
    dev::{CellValue, MockProver},
    plonk::Circuit,
};
use mzv::{
    common::{catch_any, repo_file, Report},
    engines::{
        ars::{attack, ArsBudget},
        catalogue::{bound_instance, bound_len},
        ref_eval::{collect, CollectOpts, Tables},
    },
};
use rand_chacha::ChaCha8Rng;
use serde_json::{json, Value as Json};

use super::val::hexf;

pub fn hexv(v: &[F]) -> Vec<String> {
    v.iter().map(hexf).collect()
}

#[derive(Default, Clone, Debug)]
pub struct ExpStats {
    pub honest: u64,
    pub edits: u64,
    pub ars_targets: u64,
    pub ars_nodes: u64,
}

pub struct Honest {
    pub tables: Tables<F>,
}

/// Stage 1+2: honest run with instance columns `[committed, plain]`; returns the tables when the
/// case is accepted by both checkers and binds exactly the expected number of cells.
pub fn honest<C: Circuit<F>>(sig: &str, k: u32, circuit: &C, committed: &[F], plain: &[F], wit: &Json, rep: &mut Report, st: &mut ExpStats) -> Option<Honest> {
    rep.eval();
    st.honest += 1;
    let inst = vec![committed.to_vec(), plain.to_vec()];
    let tables = match catch_any(|| collect::<F, _>(k, circuit, &inst, CollectOpts::default())) {
        Err(p) => {
            rep.violation(
                &format!("{sig}/panic-on-admissible-input@{}", repo_file(&p.file)),
                &format!("synthesis panics on an admissible value: {}", p.message),
                json!({"case": wit, "k": k, "panic": format!("{p:?}")}),
            );
            return None;
        }
        Ok(Err(e)) => {
            rep.violation(&format!("{sig}/synthesis-error-on-admissible-input"), &format!("synthesis fails on an admissible value: {e}"), json!({"case": wit, "k": k}));
            return None;
        }
        Ok(Ok(t)) => t,
    };
    let (bc, bp) = (bound_len(&tables, 0), bound_len(&tables, 1));
    if bc != committed.len() || bp != plain.len() {
        rep.violation(
            &format!("{sig}/count-mismatch"),
            &format!(
                "the circuit binds {bc} committed / {bp} plain raw public inputs, the off-circuit encoding has {} / {}",
                committed.len(),
                plain.len()
            ),
            json!({"case": wit, "k": k, "bound_committed": bc, "bound_plain": bp, "encoded_committed": committed.len(), "encoded_plain": plain.len()}),
        );
        return None;
    }
    let fails = tables.violations(4);
    if !fails.is_empty() {
        rep.violation(
            &format!("{sig}/rejects-honest"),
            &format!(
                "honest run with instance = off-circuit encoding is unsatisfied: {:?}; circuit binds committed {:?} plain {:?}, encoder says {:?} / {:?}",
                fails,
                hexv(&bound_instance(&tables, 0, committed)),
                hexv(&bound_instance(&tables, 1, plain)),
                hexv(committed),
                hexv(plain)
            ),
            json!({"case": wit, "k": k}),
        );
        return None;
    }
    match catch_any(|| MockProver::<F>::run(k, circuit, inst.clone()).map(|mp| mp.verify().is_ok()).map_err(|e| format!("{e:?}"))) {
        Ok(Ok(true)) => {}
        other => {
            rep.violation(
                &format!("{sig}/mock-rejects-honest"),
                &format!("MockProver rejects the honest run the reference evaluator accepts: {:?}", other.map_err(|p| p.message)),
                json!({"case": wit, "k": k}),
            );
            return None;
        }
    }
    Some(Honest { tables })
}

/// Stage 3: every listed position of column `col` edited against the fixed honest witness.
#[allow(clippy::too_many_arguments)]
pub fn edits<C: Circuit<F>>(sig: &str, k: u32, circuit: &C, h: &mut Honest, committed: &[F], plain: &[F], positions: &[(usize, usize)], wit: &Json, rep: &mut Report, st: &mut ExpStats) {
    let all: Vec<F> = committed.iter().chain(plain.iter()).copied().collect();
    for &(col, pos) in positions {
        let honest_v = h.tables.instance[col][pos];
        let mut targets = vec![honest_v + F::ONE, F::ZERO, F::ONE - honest_v, -honest_v];
        // another value of the same case (swapped wiring / off-by-one row)
        if let Some(o) = all.iter().find(|o| **o != honest_v) {
            targets.push(*o);
        }
        let mut seen = vec![];
        for tv in targets {
            if tv == honest_v || seen.contains(&tv) {
                continue;
            }
            seen.push(tv);
            st.edits += 1;
            rep.eval();
            h.tables.instance[col][pos] = tv;
            let sat = h.tables.violations(1).is_empty();
            h.tables.instance[col][pos] = honest_v;
            if sat {
                // confirm with the repository's checker before reporting
                let mut inst = vec![committed.to_vec(), plain.to_vec()];
                inst[col][pos] = tv;
                let mock = catch_any(|| MockProver::<F>::run(k, circuit, inst.clone()).map(|mp| mp.verify().is_ok()).map_err(|e| format!("{e:?}")));
                if matches!(mock, Ok(Ok(true))) {
                    rep.violation(
                        &format!("{sig}/edited-output-accepted"),
                        &format!("honest witness accepted with position {pos} of instance column {col} edited (reference evaluator and MockProver)"),
                        json!({"case": wit, "k": k, "column": col, "position": pos, "honest": hexf(&honest_v), "edited": hexf(&tv)}),
                    );
                } else {
                    rep.inconclusive(&format!("{sig}: edited instance accepted by the reference evaluator only (mock: {:?})", mock.map_err(|p| p.message)));
                }
            }
        }
    }
}

/// Stage 4: adversarial repair search towards `target` (instance cells with new values) — a
/// vector that is not the encoding of any value of the type. A candidate is confirmed by
/// MockProver on the same table and by `real` (real prover under the fault plan + verifier).
#[allow(clippy::too_many_arguments)]
pub fn attack_non_encoding<C: Circuit<F>>(
    sig: &str,
    k: u32,
    circuit: &C,
    h: &mut Honest,
    committed: &[F],
    plain: &[F],
    target: &[(usize, usize, F)],
    budget: &ArsBudget,
    real: Option<&dyn Fn(&[F], &BTreeMap<(usize, usize), F>) -> Result<bool, String>>,
    wit: &Json,
    rng: &mut ChaCha8Rng,
    rep: &mut Report,
    st: &mut ExpStats,
) {
    st.ars_targets += 1;
    rep.eval();
    let (att, stats) = attack(&mut h.tables, target, &[], budget, rng);
    st.ars_nodes += stats.nodes;
    let Some(att) = att else { return };
    let mut inst = vec![committed.to_vec(), plain.to_vec()];
    for (c, r, v) in target {
        inst[*c][*r] = *v;
    }
    let mock = catch_any(|| {
        let mut mp = MockProver::<F>::run(k, circuit, inst.clone()).map_err(|e| format!("{e:?}"))?;
        for ((c, r), v) in &att.changed {
            mp.advice_mut()[*c][*r] = CellValue::Assigned(*v);
        }
        Ok::<bool, String>(mp.verify().is_ok())
    });
    let real_v = real.filter(|_| k <= 12).map(|f| f(&inst[1], &att.changed));
    let confirmed = matches!(mock, Ok(Ok(true))) && real_v.as_ref().map(|r| matches!(r, Ok(true))).unwrap_or(true);
    let w = json!({"case": wit, "k": k,
        "target": target.iter().map(|(c, r, v)| json!([c, r, hexf(v)])).collect::<Vec<_>>(),
        "changed_cells": att.changed.iter().map(|((c, r), v)| json!([c, r, hexf(v)])).collect::<Vec<_>>(),
        "mock": format!("{:?}", mock.as_ref().map_err(|p| p.message.clone())), "real": format!("{real_v:?}"), "nodes": stats.nodes});
    if confirmed {
        rep.violation(
            &format!("{sig}/non-encoding-accepted"),
            &format!(
                "adversarial assignment ({} changed cells) makes the exposure circuit accept a vector that is not the encoding of any value of the type (MockProver accepts; real verifier: {real_v:?})",
                att.changed.len()
            ),
            w,
        );
    } else {
        rep.inconclusive(&format!("{sig}: ARS candidate not confirmed by mock/real: {w}"));
    }
    // the tables are left in the attacking state: restore the honest ones
    if let Ok(t) = collect::<F, _>(k, circuit, &[committed.to_vec(), plain.to_vec()], CollectOpts::default()) {
        h.tables = t;
    }
}

/// positions of a column to edit: all when few, else first / last and an even spread
pub fn pick_positions(col: usize, len: usize, max: usize) -> Vec<(usize, usize)> {
    if len <= max {
        return (0..len).map(|i| (col, i)).collect();
    }
    let mut v: Vec<usize> = (0..max).map(|i| i * (len - 1) / (max - 1).max(1)).collect();
    v.dedup();
    v.into_iter().map(|i| (col, i)).collect()
}
