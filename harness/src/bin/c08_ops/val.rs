//! Value types of C08: every type that can be exposed as a public input through `ZkStdLib`,
//! its off-circuit encoder (the library's `Instantiable::as_public_input`, one side of the
//! differential), an independent decoder written from the documented layout (injectivity
//! oracle), boundary / random value generators and the glue that assigns and exposes one value.

use ff::Field;
use group::Group;
use midnight_circuits::{
    ecc::curves::{CircuitCurve, EdwardsCurve, WeierstrassCurve},
    field::foreign::params::{FieldEmulationParams, MultiEmulationParams as MEP},
    instructions::{public_input::CommittedInstanceInstructions, *},
    types::{
        AssignedBit, AssignedByte, AssignedField, AssignedForeignPoint, AssignedNative, AssignedNativePoint, AssignedScalarOfNativeCurve, Instantiable,
    },
    CircuitField,
};
use midnight_circuits::biguint::AssignedBigUint;
use midnight_curves::{
    k256::{Fp as SecpFp, Fq as SecpFq, K256},
    Fp as BlsFp, Fq as F, Fr as JubFr, G1Projective, JubjubExtended, JubjubSubgroup,
};
use midnight_proofs::{
    circuit::{Layouter, Value},
    plonk::Error,
};
use midnight_zk_stdlib::{ZkStdLib, ZkStdLibArch};
use num_bigint::{BigUint, RandBigInt};
use num_traits::{One, Zero};
use rand::Rng;
use rand_chacha::ChaCha8Rng;

pub type Big = BigUint;

#[derive(Clone, Copy, Debug, PartialEq, Eq, Hash, PartialOrd, Ord)]
pub enum Kind {
    Bit,
    Byte,
    Native,
    SecpBase,
    SecpScalar,
    BlsBase,
    JubPoint,
    JubScalar,
    SecpPoint,
    BlsPoint,
    /// big unsigned integer with the declared bound `nb_bits`
    Big(u32),
}

#[derive(Clone, Copy, Debug, PartialEq, Eq, Hash, PartialOrd, Ord)]
pub enum Path {
    /// `assign` followed by `constrain_as_public_input`
    Constrain,
    /// `assign_as_public_input`
    AssignPi,
    /// `assign` followed by `constrain_as_committed_public_input`
    Committed,
}

impl Path {
    pub fn name(&self) -> &'static str {
        match self {
            Path::Constrain => "constrain",
            Path::AssignPi => "assign",
            Path::Committed => "committed",
        }
    }
}

#[derive(Clone, PartialEq)]
pub enum Val {
    Bit(bool),
    Byte(u8),
    Native(F),
    SecpBase(SecpFp),
    SecpScalar(SecpFq),
    BlsBase(BlsFp),
    JubPoint(JubjubSubgroup),
    JubScalar(JubFr),
    SecpPoint(K256),
    BlsPoint(G1Projective),
    Big(Big, u32),
}

pub const BIG_LOG2_BASE: u32 = 96; // documented in biguint/types.rs ("limbs of 96 bits")

pub fn fbig<K: CircuitField>(f: &K) -> Big {
    Big::from_bytes_le(f.to_repr().as_ref())
}
pub fn bigk<K: CircuitField>(b: &Big) -> K {
    K::from_biguint(&(b % K::modulus())).expect("reduced")
}
pub fn hexf(f: &F) -> String {
    hex::encode(f.to_bytes_le())
}

fn aff_xy<C: CircuitCurve>(p: &C) -> Option<(Big, Big)> {
    p.coordinates().map(|(x, y)| (fbig(&x), fbig(&y)))
}

impl std::fmt::Debug for Val {
    fn fmt(&self, f: &mut std::fmt::Formatter<'_>) -> std::fmt::Result {
        let pt = |f: &mut std::fmt::Formatter<'_>, tag: &str, xy: Option<(Big, Big)>| match xy {
            None => write!(f, "{tag}(inf)"),
            Some((x, y)) => write!(f, "{tag}({x:x},{y:x})"),
        };
        match self {
            Val::Bit(b) => write!(f, "Bit({})", *b as u8),
            Val::Byte(b) => write!(f, "Byte({b})"),
            Val::Native(x) => write!(f, "Native({:x})", fbig(x)),
            Val::SecpBase(x) => write!(f, "SecpBase({:x})", fbig(x)),
            Val::SecpScalar(x) => write!(f, "SecpScalar({:x})", fbig(x)),
            Val::BlsBase(x) => write!(f, "BlsBase({:x})", fbig(x)),
            Val::JubScalar(x) => write!(f, "JubScalar({:x})", fbig(x)),
            Val::JubPoint(p) => pt(f, "JubPoint", aff_xy::<JubjubExtended>(&(*p).into())),
            Val::SecpPoint(p) => pt(f, "SecpPoint", if bool::from(p.is_identity()) { None } else { aff_xy(p) }),
            Val::BlsPoint(p) => pt(f, "BlsPoint", if bool::from(p.is_identity()) { None } else { aff_xy(p) }),
            Val::Big(v, n) => write!(f, "Big{n}({v:x})"),
        }
    }
}

impl Val {
    pub fn kind(&self) -> Kind {
        match self {
            Val::Bit(_) => Kind::Bit,
            Val::Byte(_) => Kind::Byte,
            Val::Native(_) => Kind::Native,
            Val::SecpBase(_) => Kind::SecpBase,
            Val::SecpScalar(_) => Kind::SecpScalar,
            Val::BlsBase(_) => Kind::BlsBase,
            Val::JubPoint(_) => Kind::JubPoint,
            Val::JubScalar(_) => Kind::JubScalar,
            Val::SecpPoint(_) => Kind::SecpPoint,
            Val::BlsPoint(_) => Kind::BlsPoint,
            Val::Big(_, n) => Kind::Big(*n),
        }
    }

    /// canonical identity of the value (what "distinct values" means)
    pub fn key(&self) -> String {
        format!("{self:?}")
    }

    /// inverse of the `Debug` form (replay files)
    pub fn parse(s: &str) -> Option<Val> {
        let s = s.trim();
        let open = s.find('(')?;
        let (tag, rest) = s.split_at(open);
        let body = rest.strip_prefix('(')?.strip_suffix(')')?;
        let big = |h: &str| Big::parse_bytes(h.as_bytes(), 16);
        let xy = |b: &str| -> Option<Option<(Big, Big)>> {
            if b == "inf" {
                return Some(None);
            }
            let (x, y) = b.split_once(',')?;
            Some(Some((big(x)?, big(y)?)))
        };
        Some(match tag {
            "Bit" => Val::Bit(body == "1"),
            "Byte" => Val::Byte(body.parse().ok()?),
            "Native" => Val::Native(bigk(&big(body)?)),
            "SecpBase" => Val::SecpBase(bigk(&big(body)?)),
            "SecpScalar" => Val::SecpScalar(bigk(&big(body)?)),
            "BlsBase" => Val::BlsBase(bigk(&big(body)?)),
            "JubScalar" => Val::JubScalar(bigk(&big(body)?)),
            "JubPoint" => {
                let (x, y) = xy(body)??;
                Val::JubPoint(JubjubExtended::from_xy(bigk(&x), bigk(&y))?.into_subgroup())
            }
            "SecpPoint" => match xy(body)? {
                None => Val::SecpPoint(K256::identity()),
                Some((x, y)) => Val::SecpPoint(<K256 as CircuitCurve>::from_xy(bigk(&x), bigk(&y))?),
            },
            "BlsPoint" => match xy(body)? {
                None => Val::BlsPoint(G1Projective::identity()),
                Some((x, y)) => Val::BlsPoint(<G1Projective as CircuitCurve>::from_xy(bigk(&x), bigk(&y))?),
            },
            t if t.starts_with("Big") => Val::Big(big(body)?, t[3..].parse().ok()?),
            _ => return None,
        })
    }

    /// The library's off-circuit encoder (`Instantiable::as_public_input`; for big integers the
    /// inherent `AssignedBigUint::as_public_input(v, nb_bits)`).
    pub fn encode_lib(&self) -> Vec<F> {
        match self {
            Val::Bit(b) => <AssignedBit<F> as Instantiable<F>>::as_public_input(b),
            Val::Byte(b) => <AssignedByte<F> as Instantiable<F>>::as_public_input(b),
            Val::Native(x) => <AssignedNative<F> as Instantiable<F>>::as_public_input(x),
            Val::SecpBase(x) => <AssignedField<F, SecpFp, MEP> as Instantiable<F>>::as_public_input(x),
            Val::SecpScalar(x) => <AssignedField<F, SecpFq, MEP> as Instantiable<F>>::as_public_input(x),
            Val::BlsBase(x) => <AssignedField<F, BlsFp, MEP> as Instantiable<F>>::as_public_input(x),
            Val::JubPoint(p) => <AssignedNativePoint<JubjubExtended> as Instantiable<F>>::as_public_input(p),
            Val::JubScalar(s) => <AssignedScalarOfNativeCurve<JubjubExtended> as Instantiable<F>>::as_public_input(s),
            Val::SecpPoint(p) => <AssignedForeignPoint<F, K256, MEP> as Instantiable<F>>::as_public_input(p),
            Val::BlsPoint(p) => <AssignedForeignPoint<F, G1Projective, MEP> as Instantiable<F>>::as_public_input(p),
            Val::Big(v, n) => AssignedBigUint::<F>::as_public_input(v, *n),
        }
    }

    /// admissible value of its own kind (big integers must respect the declared bound)
    pub fn admissible(&self) -> bool {
        match self {
            Val::Big(v, n) => *n >= 1 && v.bits() <= *n as u64,
            _ => true,
        }
    }
}

// ---------------------------------------------------------------------------------------------
// documented layouts, written independently (decoders)
// ---------------------------------------------------------------------------------------------

fn limb_params<K: CircuitField>() -> (u32, u32)
where
    MEP: FieldEmulationParams<F, K>,
{
    (<MEP as FieldEmulationParams<F, K>>::LOG2_BASE, <MEP as FieldEmulationParams<F, K>>::NB_LIMBS)
}

impl Kind {
    pub fn type_name(&self) -> &'static str {
        match self {
            Kind::Bit => "AssignedBit",
            Kind::Byte => "AssignedByte",
            Kind::Native => "AssignedNative",
            Kind::SecpBase => "AssignedField<secp256k1.Fp>",
            Kind::SecpScalar => "AssignedField<secp256k1.Fq>",
            Kind::BlsBase => "AssignedField<bls12_381.Fp>",
            Kind::JubPoint => "AssignedNativePoint<Jubjub>",
            Kind::JubScalar => "AssignedScalarOfNativeCurve<Jubjub>",
            Kind::SecpPoint => "AssignedForeignPoint<secp256k1>",
            Kind::BlsPoint => "AssignedForeignPoint<bls12_381.G1>",
            Kind::Big(_) => "AssignedBigUint",
        }
    }

    /// number of raw public inputs by the documented layout
    pub fn width(&self) -> usize {
        match self {
            Kind::Bit | Kind::Byte | Kind::Native | Kind::JubScalar => 1,
            Kind::SecpBase => limb_params::<SecpFp>().1 as usize,
            Kind::SecpScalar => limb_params::<SecpFq>().1 as usize,
            Kind::BlsBase => limb_params::<BlsFp>().1 as usize,
            Kind::JubPoint => 2,
            Kind::SecpPoint => 2 * limb_params::<SecpFp>().1 as usize,
            Kind::BlsPoint => 2 * limb_params::<BlsFp>().1 as usize,
            Kind::Big(n) => (*n).div_ceil(BIG_LOG2_BASE) as usize,
        }
    }

    pub fn has_path(&self, p: Path) -> bool {
        match p {
            Path::Constrain => true,
            // "do not implement PublicInputInstructions for this type" (biguint/types.rs)
            Path::AssignPi => !matches!(self, Kind::Big(_)),
            // CommittedInstanceInstructions needs `Into<AssignedNative>`
            Path::Committed => matches!(self, Kind::Bit | Kind::Byte | Kind::Native),
        }
    }

    /// `assert_equal_to_fixed` exists for the assigned type (used to pin the value)
    pub fn can_pin(&self) -> bool {
        !matches!(self, Kind::JubScalar)
    }

    pub fn is_foreign_point(&self) -> bool {
        matches!(self, Kind::SecpPoint | Kind::BlsPoint)
    }

    pub fn arch_into(&self, a: &mut ZkStdLibArch) {
        match self {
            Kind::SecpBase | Kind::SecpScalar | Kind::SecpPoint => a.secp256k1 = true,
            Kind::BlsBase | Kind::BlsPoint => a.bls12_381 = true,
            Kind::JubPoint | Kind::JubScalar => a.jubjub = true,
            _ => {}
        }
    }

    /// Decodes a raw vector by the documented layout; `Err` = not the encoding of any value.
    pub fn decode(&self, raw: &[F]) -> Result<Val, String> {
        if raw.len() != self.width() {
            return Err(format!("length {} instead of {}", raw.len(), self.width()));
        }
        fn field<K: CircuitField>(raw: &[F], lb: u32) -> Result<K, String> {
            // limbs are the base-2^lb digits (little endian) of (v - 1) mod p
            let base = Big::one() << lb;
            let mut acc = Big::zero();
            for (i, l) in raw.iter().enumerate() {
                let l = fbig(l);
                if l >= base {
                    return Err(format!("limb {i} not below 2^{lb}"));
                }
                acc += l << (lb as usize * i);
            }
            if acc >= K::modulus() {
                return Err("limbs encode an integer >= the modulus".into());
            }
            Ok(bigk::<K>(&(acc + Big::one())))
        }
        fn fpoint<C>(raw: &[F], lb: u32, nl: usize) -> Result<C::CryptographicGroup, String>
        where
            C: WeierstrassCurve<CryptographicGroup = C>,
        {
            // x limbs, y limbs; the identity flag is added (scaled by 2^lb) to the first limb of x
            let mut xs = raw[..nl].to_vec();
            let l0 = fbig(&xs[0]);
            let flag = &l0 >> lb;
            if flag > Big::one() {
                return Err("first limb of x is not below 2^(LOG2_BASE+1)".into());
            }
            xs[0] = bigk::<F>(&(&l0 - (&flag << lb)));
            let x = field::<C::Base>(&xs, lb)?;
            let y = field::<C::Base>(&raw[nl..], lb)?;
            if flag.is_one() {
                if !(bool::from(x.is_zero()) && bool::from(y.is_zero())) {
                    return Err("identity flag with non-zero coordinates".into());
                }
                return Ok(C::identity());
            }
            // curve equation by its definition (the library's `from_xy` reads (0, 0) as the identity)
            if y.square() != x.square() * x + C::A * x + C::B {
                return Err("coordinates do not satisfy y^2 = x^3 + A x + B".into());
            }
            C::from_xy(x, y).ok_or_else(|| "coordinates not on the curve".to_string())
        }
        Ok(match self {
            Kind::Bit => {
                if raw[0] == F::ZERO {
                    Val::Bit(false)
                } else if raw[0] == F::ONE {
                    Val::Bit(true)
                } else {
                    return Err("not 0/1".into());
                }
            }
            Kind::Byte => {
                let v = fbig(&raw[0]);
                if v >= Big::from(256u32) {
                    return Err("not below 256".into());
                }
                Val::Byte(v.to_u64_digits().first().copied().unwrap_or(0) as u8)
            }
            Kind::Native => Val::Native(raw[0]),
            Kind::SecpBase => Val::SecpBase(field::<SecpFp>(raw, limb_params::<SecpFp>().0)?),
            Kind::SecpScalar => Val::SecpScalar(field::<SecpFq>(raw, limb_params::<SecpFq>().0)?),
            Kind::BlsBase => Val::BlsBase(field::<BlsFp>(raw, limb_params::<BlsFp>().0)?),
            Kind::JubPoint => {
                // affine (x, y) of the twisted Edwards curve; identity = (0, 1)
                let (x2, y2) = (raw[0].square(), raw[1].square());
                if <JubjubExtended as EdwardsCurve>::A * x2 + y2 != F::ONE + <JubjubExtended as EdwardsCurve>::D * x2 * y2 {
                    return Err("coordinates do not satisfy A x^2 + y^2 = 1 + D x^2 y^2".into());
                }
                let p = JubjubExtended::from_xy(raw[0], raw[1]).ok_or("coordinates not on Jubjub")?;
                let r = JubFr::modulus();
                // membership in the prime-order subgroup by the definition [r]P = O
                let mut acc = JubjubExtended::identity();
                for i in (0..r.bits()).rev() {
                    acc = acc.double();
                    if r.bit(i) {
                        acc += p;
                    }
                }
                if !bool::from(acc.is_identity()) {
                    return Err("point not in the prime-order subgroup".into());
                }
                Val::JubPoint(p.into_subgroup())
            }
            Kind::JubScalar => {
                // the scalar as an integer (its little-endian bits packed into one native element)
                let v = fbig(&raw[0]);
                if v >= JubFr::modulus() {
                    return Err("not below the Jubjub scalar modulus".into());
                }
                Val::JubScalar(bigk::<JubFr>(&v))
            }
            Kind::SecpPoint => {
                let (lb, nl) = limb_params::<SecpFp>();
                Val::SecpPoint(fpoint::<K256>(raw, lb, nl as usize)?)
            }
            Kind::BlsPoint => {
                let (lb, nl) = limb_params::<BlsFp>();
                Val::BlsPoint(fpoint::<G1Projective>(raw, lb, nl as usize)?)
            }
            Kind::Big(n) => {
                let base = Big::one() << BIG_LOG2_BASE;
                let mut acc = Big::zero();
                for (i, l) in raw.iter().enumerate() {
                    let l = fbig(l);
                    if l >= base {
                        return Err(format!("limb {i} not below 2^96"));
                    }
                    acc += l << (BIG_LOG2_BASE as usize * i);
                }
                if acc.bits() > *n as u64 {
                    return Err(format!("integer above 2^{n}"));
                }
                Val::Big(acc, *n)
            }
        })
    }

    /// A vector that is not the encoding of any value of the type (None if every vector of the
    /// right length is an encoding, or none is cheap to name); `honest` is a genuine encoding.
    pub fn non_encodings(&self, honest: &[F]) -> Vec<Vec<(usize, F)>> {
        let two = |lb: u32| F::from(2).pow_vartime([lb as u64]);
        match self {
            Kind::Bit => vec![vec![(0, F::from(2))], vec![(0, -F::ONE)]],
            Kind::Byte => vec![vec![(0, F::from(256))], vec![(0, -F::ONE)]],
            Kind::Native | Kind::JubPoint => vec![],
            Kind::JubScalar => vec![vec![(0, honest[0] + bigk::<F>(&JubFr::modulus()))]],
            Kind::SecpBase | Kind::SecpScalar | Kind::BlsBase => {
                let lb = match self {
                    Kind::SecpBase => limb_params::<SecpFp>().0,
                    Kind::SecpScalar => limb_params::<SecpFq>().0,
                    _ => limb_params::<BlsFp>().0,
                };
                // same integer, limb 0 overflowing into limb 1
                vec![vec![(0, honest[0] + two(lb)), (1, honest[1] - F::ONE)], vec![(0, honest[0] + two(lb))]]
            }
            Kind::SecpPoint | Kind::BlsPoint => {
                let (lb, nl) = if *self == Kind::SecpPoint { limb_params::<SecpFp>() } else { limb_params::<BlsFp>() };
                // y limb 0 overflowing into limb 1
                let nl = nl as usize;
                vec![vec![(nl, honest[nl] + two(lb)), (nl + 1, honest[nl + 1] - F::ONE)]]
            }
            Kind::Big(n) => {
                if self.width() >= 2 {
                    vec![vec![(0, honest[0] + two(BIG_LOG2_BASE)), (1, honest[1] - F::ONE)]]
                } else if *n < BIG_LOG2_BASE {
                    vec![vec![(0, honest[0] + two(*n))]]
                } else {
                    vec![vec![(0, honest[0] + two(BIG_LOG2_BASE))]]
                }
            }
        }
    }
}

// ---------------------------------------------------------------------------------------------
// values
// ---------------------------------------------------------------------------------------------

fn field_boundary<K: CircuitField>(lb: u32, nl: u32) -> Vec<K> {
    let p = K::modulus();
    let mut v: Vec<Big> = vec![Big::zero(), Big::one(), Big::from(2u8), &p - 1u8, &p - 2u8];
    for j in 1..nl {
        // (v - 1) has all limbs below j maximal / limb j equal to one and the rest zero
        let b = Big::one() << (lb * j);
        if b < p {
            v.push(b.clone());
            v.push(&b + 1u8);
        }
    }
    // every limb of (v-1) maximal up to the top limb that still fits below p
    // (v - 1) = (top - 1) * B + (B - 1): top limb one below the top limb of p - 1, all lower limbs maximal
    let bb = Big::one() << (lb * (nl - 1));
    v.push(((&p - 1u8) / &bb) * &bb);
    v.into_iter().map(|b| bigk::<K>(&b)).collect()
}

fn rand_field<K: CircuitField>(rng: &mut ChaCha8Rng) -> K {
    bigk::<K>(&rng.gen_biguint_below(&K::modulus()))
}

/// Boundary representatives of a kind (independent of the seed).
pub fn boundary(kind: Kind) -> Vec<Val> {
    match kind {
        Kind::Bit => vec![Val::Bit(false), Val::Bit(true)],
        Kind::Byte => [0u8, 1, 127, 128, 254, 255].iter().map(|b| Val::Byte(*b)).collect(),
        Kind::Native => {
            let p = F::modulus();
            [Big::zero(), Big::one(), Big::from(2u8), &p - 1u8, &p - 2u8, Big::one() << 64, (Big::one() << 128) - 1u8, Big::one() << 254, Big::from(255u8), Big::from(256u32)]
                .iter()
                .map(|b| Val::Native(bigk(b)))
                .collect()
        }
        Kind::SecpBase => {
            let (lb, nl) = limb_params::<SecpFp>();
            field_boundary::<SecpFp>(lb, nl).into_iter().map(Val::SecpBase).collect()
        }
        Kind::SecpScalar => {
            let (lb, nl) = limb_params::<SecpFq>();
            field_boundary::<SecpFq>(lb, nl).into_iter().map(Val::SecpScalar).collect()
        }
        Kind::BlsBase => {
            let (lb, nl) = limb_params::<BlsFp>();
            field_boundary::<BlsFp>(lb, nl).into_iter().map(Val::BlsBase).collect()
        }
        Kind::JubPoint => {
            let g = JubjubSubgroup::generator();
            vec![Val::JubPoint(JubjubSubgroup::identity()), Val::JubPoint(g), Val::JubPoint(-g), Val::JubPoint(g.double())]
        }
        Kind::JubScalar => {
            let r = JubFr::modulus();
            [Big::zero(), Big::one(), Big::from(2u8), &r - 1u8, &r - 2u8, Big::one() << 251, (Big::one() << 251) - 1u8, Big::one() << 128]
                .iter()
                .map(|b| Val::JubScalar(bigk(b)))
                .collect()
        }
        Kind::SecpPoint => {
            let g = K256::generator();
            vec![Val::SecpPoint(K256::identity()), Val::SecpPoint(g), Val::SecpPoint(-g), Val::SecpPoint(g.double())]
        }
        Kind::BlsPoint => {
            let g = G1Projective::generator();
            vec![Val::BlsPoint(G1Projective::identity()), Val::BlsPoint(g), Val::BlsPoint(-g), Val::BlsPoint(g.double())]
        }
        Kind::Big(n) => {
            let max = (Big::one() << n) - 1u8;
            let mut v = vec![Big::zero(), Big::one(), max.clone()];
            let mut j = BIG_LOG2_BASE;
            while j < n {
                v.push(Big::one() << j); // leading limbs zero below, one above
                v.push((Big::one() << j) - 1u8); // maximal low limbs, zero high limbs
                j += BIG_LOG2_BASE;
            }
            if n > 1 {
                v.push(Big::one() << (n - 1));
                v.push(&max - 1u8);
            }
            v.sort();
            v.dedup();
            v.into_iter().map(|b| Val::Big(b, n)).collect()
        }
    }
}

pub fn random(kind: Kind, rng: &mut ChaCha8Rng) -> Val {
    match kind {
        Kind::Bit => Val::Bit(rng.gen()),
        Kind::Byte => Val::Byte(rng.gen()),
        Kind::Native => Val::Native(if rng.gen_bool(0.2) { F::from(rng.gen::<u64>() >> rng.gen_range(0..64)) } else { rand_field(rng) }),
        Kind::SecpBase => Val::SecpBase(rand_field(rng)),
        Kind::SecpScalar => Val::SecpScalar(rand_field(rng)),
        Kind::BlsBase => Val::BlsBase(rand_field(rng)),
        Kind::JubPoint => Val::JubPoint(JubjubSubgroup::generator() * rand_field::<JubFr>(rng)),
        Kind::JubScalar => Val::JubScalar(rand_field(rng)),
        Kind::SecpPoint => Val::SecpPoint(K256::generator() * rand_field::<SecpFq>(rng)),
        Kind::BlsPoint => Val::BlsPoint(G1Projective::generator() * rand_field::<F>(rng)),
        Kind::Big(n) => {
            // random bit length up to the bound (values with leading zero limbs included)
            let bits = if rng.gen_bool(0.5) { n as u64 } else { rng.gen_range(0..=n as u64) };
            Val::Big(rng.gen_biguint(bits), n)
        }
    }
}

/// boundary values followed by `n_random` seeded random ones (deduplicated by key)
pub fn values(kind: Kind, n_boundary: usize, n_random: usize, rng: &mut ChaCha8Rng) -> Vec<Val> {
    let mut out: Vec<Val> = boundary(kind).into_iter().take(n_boundary).collect();
    let mut tries = 0;
    let want = out.len() + n_random;
    let cap = match kind {
        Kind::Bit => 2,
        Kind::Byte => 256,
        Kind::Big(n) if n < 8 => 1usize << n,
        _ => usize::MAX,
    };
    while out.len() < want.min(cap) && tries < 20 * want + 600 {
        tries += 1;
        let v = random(kind, rng);
        if !out.iter().any(|o| o.key() == v.key()) {
            out.push(v);
        }
    }
    out
}

// ---------------------------------------------------------------------------------------------
// in-circuit glue
// ---------------------------------------------------------------------------------------------

macro_rules! expose_with {
    ($chip:expr, $T:ty, $l:expr, $val:expr, $path:expr, $pin:expr) => {{
        let chip = $chip;
        match $path {
            Path::Constrain => {
                let a: $T = AssignmentInstructions::<F, $T>::assign(chip, $l, $val)?;
                if let Some(c) = $pin {
                    AssertionInstructions::<F, $T>::assert_equal_to_fixed(chip, $l, &a, c)?;
                }
                PublicInputInstructions::<F, $T>::constrain_as_public_input(chip, $l, &a)
            }
            Path::AssignPi => {
                let a: $T = PublicInputInstructions::<F, $T>::assign_as_public_input(chip, $l, $val)?;
                if let Some(c) = $pin {
                    AssertionInstructions::<F, $T>::assert_equal_to_fixed(chip, $l, &a, c)?;
                }
                Ok(())
            }
            Path::Committed => Err(Error::Synthesis("harness: no committed exposure for this type".into())),
        }
    }};
}

macro_rules! expose_native_like {
    ($std:expr, $T:ty, $l:expr, $val:expr, $path:expr, $pin:expr) => {{
        match $path {
            Path::Committed => {
                let a: $T = AssignmentInstructions::<F, $T>::assign($std, $l, $val)?;
                if let Some(c) = $pin {
                    AssertionInstructions::<F, $T>::assert_equal_to_fixed($std, $l, &a, c)?;
                }
                CommittedInstanceInstructions::<F, $T>::constrain_as_committed_public_input($std, $l, &a)
            }
            p => expose_with!($std, $T, $l, $val, p, $pin),
        }
    }};
}

macro_rules! get {
    ($v:expr, $variant:ident) => {
        $v.clone().map(|v| match v {
            Val::$variant(x) => x,
            other => panic!("harness: kind mismatch, expected {} got {:?}", stringify!($variant), other),
        })
    };
}

macro_rules! pinv {
    ($pin:expr, $variant:ident) => {
        $pin.map(|v| match v {
            Val::$variant(x) => x.clone(),
            other => panic!("harness: kind mismatch in pin, expected {} got {:?}", stringify!($variant), other),
        })
    };
}

/// Assigns one value of `kind` with the type's own `assign` and exposes it through `path`;
/// `pin` additionally asserts (in circuit) that the assigned value equals the given constant.
pub fn synth_one(std: &ZkStdLib, l: &mut impl Layouter<F>, kind: Kind, v: &Value<Val>, path: Path, pin: Option<&Val>) -> Result<(), Error> {
    match kind {
        Kind::Bit => expose_native_like!(std, AssignedBit<F>, l, get!(v, Bit), path, pinv!(pin, Bit)),
        Kind::Byte => expose_native_like!(std, AssignedByte<F>, l, get!(v, Byte), path, pinv!(pin, Byte)),
        Kind::Native => expose_native_like!(std, AssignedNative<F>, l, get!(v, Native), path, pinv!(pin, Native)),
        Kind::SecpBase => expose_with!(std.secp256k1_curve().base_field_chip(), AssignedField<F, SecpFp, MEP>, l, get!(v, SecpBase), path, pinv!(pin, SecpBase)),
        Kind::SecpScalar => expose_with!(std.secp256k1_scalar(), AssignedField<F, SecpFq, MEP>, l, get!(v, SecpScalar), path, pinv!(pin, SecpScalar)),
        Kind::BlsBase => expose_with!(std.bls12_381_curve().base_field_chip(), AssignedField<F, BlsFp, MEP>, l, get!(v, BlsBase), path, pinv!(pin, BlsBase)),
        Kind::JubPoint => expose_with!(std.jubjub(), AssignedNativePoint<JubjubExtended>, l, get!(v, JubPoint), path, pinv!(pin, JubPoint)),
        Kind::JubScalar => {
            let chip = std.jubjub();
            type T = AssignedScalarOfNativeCurve<JubjubExtended>;
            match path {
                Path::Constrain => {
                    let a: T = AssignmentInstructions::<F, T>::assign(chip, l, get!(v, JubScalar))?;
                    PublicInputInstructions::<F, T>::constrain_as_public_input(chip, l, &a)
                }
                Path::AssignPi => PublicInputInstructions::<F, T>::assign_as_public_input(chip, l, get!(v, JubScalar)).map(|_| ()),
                Path::Committed => Err(Error::Synthesis("harness: no committed exposure for this type".into())),
            }
        }
        Kind::SecpPoint => expose_with!(std.secp256k1_curve(), AssignedForeignPoint<F, K256, MEP>, l, get!(v, SecpPoint), path, pinv!(pin, SecpPoint)),
        Kind::BlsPoint => expose_with!(std.bls12_381_curve(), AssignedForeignPoint<F, G1Projective, MEP>, l, get!(v, BlsPoint), path, pinv!(pin, BlsPoint)),
        Kind::Big(n) => {
            let g = std.biguint();
            let val = v.clone().map(|v| match v {
                Val::Big(x, _) => x,
                other => panic!("harness: kind mismatch, expected Big got {other:?}"),
            });
            match path {
                Path::Constrain => {
                    let a = g.assign_biguint(l, val, n)?;
                    if let Some(Val::Big(c, _)) = pin {
                        AssertionInstructions::<F, AssignedBigUint<F>>::assert_equal_to_fixed(g, l, &a, c.clone())?;
                    }
                    g.constrain_as_public_input(l, &a, n)
                }
                _ => Err(Error::Synthesis("harness: AssignedBigUint has only the constrain path".into())),
            }
        }
    }
}

// ---------------------------------------------------------------------------------------------
// exposure of DERIVED emulated-field elements (results of lazy, un-normalised arithmetic)
// ---------------------------------------------------------------------------------------------

pub const DERIVED_OPS: [&str; 6] = ["add", "sub", "neg", "mul_by_constant(3)", "add;add;sub", "mul"];

macro_rules! derived_with {
    ($chip:expr, $K:ty, $variant:ident, $l:expr, $input:expr, $op:expr) => {{
        type T = AssignedField<F, $K, MEP>;
        let chip = $chip;
        let a: T = chip.assign($l, $input.clone().map(|p| match p.0 { Val::$variant(x) => x, o => panic!("harness: kind mismatch {o:?}") }))?;
        let b: T = chip.assign($l, $input.clone().map(|p| match p.1 { Val::$variant(x) => x, o => panic!("harness: kind mismatch {o:?}") }))?;
        let z: T = match $op {
            0 => chip.add($l, &a, &b)?,
            1 => chip.sub($l, &a, &b)?,
            2 => chip.neg($l, &a)?,
            3 => chip.mul_by_constant($l, &a, <$K>::from(3u64))?,
            4 => {
                let t = chip.add($l, &a, &b)?;
                let t = chip.add($l, &t, &a)?;
                chip.sub($l, &t, &b)?
            }
            _ => chip.mul($l, &a, &b, None)?,
        };
        PublicInputInstructions::<F, T>::constrain_as_public_input(chip, $l, &z)
    }};
}

/// Assigns two elements of an emulated field, combines them with operation `op` (index into
/// `DERIVED_OPS`) and exposes the RESULT.
pub fn synth_derived(std: &ZkStdLib, l: &mut impl Layouter<F>, kind: Kind, op: usize, input: &Value<(Val, Val)>) -> Result<(), Error> {
    match kind {
        Kind::SecpBase => derived_with!(std.secp256k1_curve().base_field_chip(), SecpFp, SecpBase, l, input, op),
        Kind::SecpScalar => derived_with!(std.secp256k1_scalar(), SecpFq, SecpScalar, l, input, op),
        Kind::BlsBase => derived_with!(std.bls12_381_curve().base_field_chip(), BlsFp, BlsBase, l, input, op),
        _ => Err(Error::Synthesis("harness: derived exposure is for emulated fields".into())),
    }
}

fn derived_k<K: CircuitField>(op: usize, a: K, b: K) -> K {
    match op {
        0 => a + b,
        1 => a - b,
        2 => -a,
        3 => a * K::from(3u64),
        4 => a + b + a - b,
        _ => a * b,
    }
}

/// the value the derived exposure must encode
pub fn derived_value(op: usize, a: &Val, b: &Val) -> Option<Val> {
    Some(match (a, b) {
        (Val::SecpBase(a), Val::SecpBase(b)) => Val::SecpBase(derived_k(op, *a, *b)),
        (Val::SecpScalar(a), Val::SecpScalar(b)) => Val::SecpScalar(derived_k(op, *a, *b)),
        (Val::BlsBase(a), Val::BlsBase(b)) => Val::BlsBase(derived_k(op, *a, *b)),
        _ => return None,
    })
}
