//! Verifier types (AssignedVk, AssignedAccumulator / AssignedMsm in normal and committed-scalars
//! form). `ZkStdLib` has no accessor for the verifier gadget and `BlstrsEmulation` uses its own
//! emulation parameters, so the circuit is built from the public chip constructors the same way
//! `zk_stdlib/examples/ivc.rs` does (NativeChip + P2RDecompositionChip + ForeignEccChip +
//! PoseidonChip + VerifierGadget), with instance columns `[committed, plain]`.

use std::collections::BTreeMap;

use midnight_circuits::{
    ecc::{
        curves::CircuitCurve,
        foreign::{nb_foreign_ecc_chip_columns, ForeignEccChip, ForeignEccConfig},
    },
    field::{
        decomposition::{
            chip::{P2RDecompositionChip, P2RDecompositionConfig},
            pow2range::Pow2RangeChip,
        },
        foreign::FieldChip,
        native::NB_ARITH_COLS,
        NativeChip, NativeConfig, NativeGadget,
    },
    hash::poseidon::{PoseidonChip, PoseidonConfig, NB_POSEIDON_ADVICE_COLS, NB_POSEIDON_FIXED_COLS},
    instructions::*,
    types::ComposableChip,
    verifier::{Accumulator, AssignedAccumulator, BlstrsEmulation, Msm, SelfEmulation, VerifierGadget},
};
use midnight_proofs::{
    circuit::{Layouter, SimpleFloorPlanner, Value},
    plonk::{Circuit, ConstraintSystem, Error},
    poly::EvaluationDomain,
};

pub type S = BlstrsEmulation;
pub type F = <S as SelfEmulation>::F;
pub type C = <S as SelfEmulation>::C;
type CBase = <C as CircuitCurve>::Base;
type NG = NativeGadget<F, P2RDecompositionChip<F>, NativeChip<F>>;

pub const MAX_BIT_LEN: usize = 8;

/// shape of an accumulator: number of variable bases per side and names of fixed bases per side
#[derive(Clone, Debug, PartialEq, Eq)]
pub struct Shape {
    pub lhs_len: usize,
    pub rhs_len: usize,
    pub lhs_names: Vec<String>,
    pub rhs_names: Vec<String>,
}

#[derive(Clone, Debug)]
pub enum Mode {
    /// `assign_vk_as_public_input` (the only entry point for assigned verifying keys)
    Vk { name: String, domain: EvaluationDomain<F>, cs: Box<ConstraintSystem<F>>, repr: Value<F> },
    /// `AssignedAccumulator::assign` + `constrain_as_public_input`
    Acc { shape: Shape, acc: Value<Accumulator<S>> },
    /// `AssignedAccumulator::assign` + `constrain_acc_as_public_input_with_committed_scalars`
    AccCommitted { shape: Shape, acc: Value<Accumulator<S>> },
    /// a native before and after the accumulator: the row counter continues across types
    AccBetweenNatives { shape: Shape, acc: Value<Accumulator<S>>, before: Value<F>, after: Value<F> },
    /// (used by C20) witness several accumulators, fold them with the in-circuit
    /// `AssignedAccumulator::accumulate`, optionally collapse, expose the result
    Fold { members: Vec<(Shape, Value<Accumulator<S>>)>, collapse: bool },
}

#[derive(Clone, Debug)]
pub struct VerifCircuit {
    pub mode: Mode,
}

type Cfg = (NativeConfig, P2RDecompositionConfig, ForeignEccConfig<C>, PoseidonConfig<F>);

impl Circuit<F> for VerifCircuit {
    type Config = Cfg;
    type FloorPlanner = SimpleFloorPlanner;
    type Params = ();

    fn without_witnesses(&self) -> Self {
        unreachable!()
    }

    fn configure(meta: &mut ConstraintSystem<F>) -> Self::Config {
        let nb_advice_cols = nb_foreign_ecc_chip_columns::<F, C, C, NG>();
        let nb_fixed_cols = NB_ARITH_COLS + 4;
        let advice_columns: Vec<_> = (0..nb_advice_cols).map(|_| meta.advice_column()).collect();
        let fixed_columns: Vec<_> = (0..nb_fixed_cols).map(|_| meta.fixed_column()).collect();
        let committed_instance_column = meta.instance_column();
        let instance_column = meta.instance_column();
        let native_config = NativeChip::configure(
            meta,
            &(
                advice_columns[..NB_ARITH_COLS].try_into().unwrap(),
                fixed_columns[..NB_ARITH_COLS + 4].try_into().unwrap(),
                [committed_instance_column, instance_column],
            ),
        );
        let core_decomp_config = {
            let pow2_config = Pow2RangeChip::configure(meta, &advice_columns[1..NB_ARITH_COLS]);
            P2RDecompositionChip::configure(meta, &(native_config.clone(), pow2_config))
        };
        let base_config = FieldChip::<F, CBase, C, NG>::configure(meta, &advice_columns);
        let curve_config = ForeignEccChip::<F, C, C, NG, NG>::configure(meta, &base_config, &advice_columns);
        let poseidon_config = PoseidonChip::configure(
            meta,
            &(
                advice_columns[..NB_POSEIDON_ADVICE_COLS].try_into().unwrap(),
                fixed_columns[..NB_POSEIDON_FIXED_COLS].try_into().unwrap(),
            ),
        );
        (native_config, core_decomp_config, curve_config, poseidon_config)
    }

    fn synthesize(&self, config: Self::Config, mut layouter: impl Layouter<F>) -> Result<(), Error> {
        let native_chip = <NativeChip<F> as ComposableChip<F>>::new(&config.0, &());
        let core_decomp_chip = P2RDecompositionChip::new(&config.1, &MAX_BIT_LEN);
        let scalar_chip = NativeGadget::new(core_decomp_chip.clone(), native_chip.clone());
        let curve_chip = ForeignEccChip::new(&config.2, &scalar_chip, &scalar_chip);
        let poseidon_chip = PoseidonChip::new(&config.3, &native_chip);
        let verifier = VerifierGadget::<S>::new(&curve_chip, &scalar_chip, &poseidon_chip);
        let assign_acc = |layouter: &mut _, shape: &Shape, acc: &Value<Accumulator<S>>| {
            AssignedAccumulator::<S>::assign(layouter, &curve_chip, &scalar_chip, shape.lhs_len, shape.rhs_len, &shape.lhs_names, &shape.rhs_names, acc.clone())
        };
        match &self.mode {
            Mode::Vk { name, domain, cs, repr } => {
                let _vk = verifier.assign_vk_as_public_input(&mut layouter, name, domain, cs, *repr)?;
            }
            Mode::Acc { shape, acc } => {
                let a = assign_acc(&mut layouter, shape, acc)?;
                verifier.constrain_as_public_input(&mut layouter, &a)?;
            }
            Mode::AccCommitted { shape, acc } => {
                let a = assign_acc(&mut layouter, shape, acc)?;
                verifier.constrain_acc_as_public_input_with_committed_scalars(&mut layouter, &a)?;
            }
            Mode::Fold { members, collapse } => {
                let accs = members.iter().map(|(shape, acc)| assign_acc(&mut layouter, shape, acc)).collect::<Result<Vec<_>, Error>>()?;
                let mut folded = AssignedAccumulator::<S>::accumulate(&mut layouter, &verifier, &scalar_chip, &poseidon_chip, &accs)?;
                if *collapse {
                    folded.collapse(&mut layouter, &curve_chip, &scalar_chip)?;
                }
                verifier.constrain_as_public_input(&mut layouter, &folded)?;
            }
            Mode::AccBetweenNatives { shape, acc, before, after } => {
                let b: midnight_circuits::types::AssignedNative<F> = scalar_chip.assign(&mut layouter, *before)?;
                scalar_chip.constrain_as_public_input(&mut layouter, &b)?;
                let a = assign_acc(&mut layouter, shape, acc)?;
                verifier.constrain_as_public_input(&mut layouter, &a)?;
                let c: midnight_circuits::types::AssignedNative<F> = scalar_chip.assign(&mut layouter, *after)?;
                scalar_chip.constrain_as_public_input(&mut layouter, &c)?;
            }
        }
        core_decomp_chip.load(&mut layouter)
    }
}

pub fn msm_of(bases: &[C], scalars: &[F], names: &[String], fixed: &[F]) -> Msm<S> {
    let map: BTreeMap<String, F> = names.iter().cloned().zip(fixed.iter().copied()).collect();
    Msm::new(bases, scalars, &map)
}
