//! Light ZKIR part of C08 (C18 covers Publish in depth): programs `Load x; Publish x` for the
//! six IR value types. The IR formatter (`ZkirRelation::format_instance` on the output of
//! `public_inputs`) must equal the type's own off-circuit encoder, and the compiled circuit must
//! accept exactly that vector.

use std::collections::HashMap;

use midnight_curves::Fq as F;
use midnight_proofs::circuit::Value;
use midnight_zk_stdlib::{MidnightCircuit, Relation};
use midnight_zkir::{Instruction, IrType, IrValue, Operation, ZkirRelation};
use mzv::common::{catch_any, repo_file, Report};
use serde_json::json;

use super::{
    driver::{self, hexv, ExpStats},
    val::{Kind, Val},
};

#[derive(Clone, Debug)]
pub enum ZVal {
    One(Val),
    Bytes(Vec<u8>),
}

impl ZVal {
    pub fn ir(&self) -> (IrType, IrValue) {
        match self {
            ZVal::Bytes(b) => (IrType::Bytes(b.len()), IrValue::Bytes(b.clone())),
            ZVal::One(Val::Bit(b)) => (IrType::Bool, IrValue::Bool(*b)),
            ZVal::One(Val::Native(x)) => (IrType::Native, IrValue::Native(*x)),
            ZVal::One(Val::Big(v, n)) => (IrType::BigUint(*n), IrValue::BigUint(v.clone())),
            ZVal::One(Val::JubPoint(p)) => (IrType::JubjubPoint, IrValue::JubjubPoint(*p)),
            ZVal::One(Val::JubScalar(s)) => (IrType::JubjubScalar, IrValue::JubjubScalar(*s)),
            ZVal::One(other) => panic!("harness: {other:?} is not a ZKIR value type"),
        }
    }
    /// the types' own off-circuit encoders
    pub fn encode_lib(&self) -> Vec<F> {
        match self {
            ZVal::One(v) => v.encode_lib(),
            ZVal::Bytes(b) => b.iter().flat_map(|x| Val::Byte(*x).encode_lib()).collect(),
        }
    }
    pub fn type_name(&self) -> String {
        match self {
            ZVal::Bytes(_) => "zkir.Bytes".into(),
            ZVal::One(v) => match v.kind() {
                Kind::Bit => "zkir.Bool".into(),
                Kind::Native => "zkir.Native".into(),
                Kind::Big(_) => "zkir.BigUint".into(),
                Kind::JubPoint => "zkir.JubjubPoint".into(),
                Kind::JubScalar => "zkir.JubjubScalar".into(),
                k => format!("zkir.{k:?}"),
            },
        }
    }
}

/// `Load t -> v0..; Publish v0..` over the given values (one Load per value, one Publish for all)
pub fn check_publish(vals: &[ZVal], rep: &mut Report, st: &mut ExpStats) {
    let tname = if vals.len() == 1 { vals[0].type_name() } else { "zkir.mixed".to_string() };
    let sig = format!("C08/{tname}/publish");
    let wit = json!({"zkir": vals.iter().map(|v| match v {
        ZVal::One(v) => json!({"one": format!("{v:?}")}),
        ZVal::Bytes(b) => json!({"bytes": hex::encode(b)}),
    }).collect::<Vec<_>>()});
    let mut prog = vec![];
    let mut witness: HashMap<&'static str, IrValue> = HashMap::new();
    let mut names = vec![];
    for (i, v) in vals.iter().enumerate() {
        let (t, iv) = v.ir();
        let name: &'static str = Box::leak(format!("v{i}").into_boxed_str());
        prog.push(Instruction { operation: Operation::Load(t), inputs: vec![], outputs: vec![name.to_string()] });
        witness.insert(name, iv);
        names.push(name.to_string());
    }
    prog.push(Instruction { operation: Operation::Publish, inputs: names, outputs: vec![] });
    let expected: Vec<F> = vals.iter().flat_map(|v| v.encode_lib()).collect();
    rep.eval();
    let built = catch_any(|| {
        let rel = ZkirRelation::from_instructions(&prog).map_err(|e| format!("{e:?}"))?;
        let pis = rel.public_inputs(witness.clone()).map_err(|e| format!("public_inputs: {e:?}"))?;
        let raw = ZkirRelation::format_instance(&pis).map_err(|e| format!("format_instance: {e:?}"))?;
        Ok::<_, String>((rel, pis, raw))
    });
    let (rel, pis, raw) = match built {
        Ok(Ok(x)) => x,
        Ok(Err(e)) => {
            rep.violation(&format!("{sig}/rejects-honest"), &format!("off-circuit evaluation of Load/Publish fails on admissible values: {e}"), wit);
            return;
        }
        Err(p) => {
            rep.violation(&format!("{sig}/panic-on-admissible-input@{}", repo_file(&p.file)), &format!("off-circuit evaluation of Load/Publish panics: {}", p.message), wit);
            return;
        }
    };
    if raw != expected {
        rep.violation(
            &format!("{sig}/formatter-differs-from-type-encoder"),
            &format!("ZkirRelation::format_instance gives {:?}, the types' own off-circuit encoders give {:?}", hexv(&raw), hexv(&expected)),
            wit,
        );
        return;
    }
    let kc = catch_any(|| MidnightCircuit::new(&rel, Value::unknown(), Value::unknown(), Some(8)).min_k());
    let k = match kc {
        Ok(k) => k,
        Err(p) => {
            rep.violation(&format!("{sig}/panic-on-admissible-input@{}", repo_file(&p.file)), &format!("min_k of a Load/Publish program panics: {}", p.message), wit);
            return;
        }
    };
    let circuit = MidnightCircuit::new(&rel, Value::known(pis), Value::known(witness), Some(8));
    if let Some(mut h) = driver::honest(&sig, k, &circuit, &[], &expected, &wit, rep, st) {
        rep.nontrivial(&("zkir", format!("{vals:?}")));
        let pos = driver::pick_positions(1, expected.len(), 8);
        driver::edits(&sig, k, &circuit, &mut h, &[], &expected, &pos, &wit, rep, st);
    }
}

/// inverse of the witness form written by `check_publish` (replay)
pub fn parse(j: &serde_json::Value) -> Option<Vec<ZVal>> {
    j.as_array()?
        .iter()
        .map(|e| {
            if let Some(o) = e.get("one").and_then(|o| o.as_str()) {
                Val::parse(o).map(ZVal::One)
            } else {
                e.get("bytes").and_then(|b| b.as_str()).and_then(|h| hex::decode(h).ok()).map(ZVal::Bytes)
            }
        })
        .collect()
}
