//! C09 — circuit structure never depends on witness or instance values.
//!
//! The structural trace of `synthesize` (E6: regions, enabled selectors, fixed assignments with
//! values, table fills, copy constraints, positions of advice assignments, instance queries,
//! number of public inputs) is recorded with the unknown witness and with concrete witnesses
//! chosen to steer the off-circuit helpers down different branches; traces must be identical.
//! For a subset the verifying key generated from a concrete witness must be byte-identical to the
//! one generated without a witness. Sources: the operation catalogues of C04–C07 (included from
//! their modules), stdlib relations, generated circuits (control).

use midnight_curves::Fq as F;
use midnight_proofs::{circuit::Value, plonk::keygen_vk_with_k, utils::SerdeFormat};
use midnight_zk_stdlib::{MidnightCircuit, Relation};
use mzv::{
    common::*,
    engines::{
        catalogue::*,
        gen_circuit::*,
        plonk_util::{params_for, CS},
        ref_eval::{collect, CollectOpts},
        relations::*,
    },
};
use rand::Rng;
use serde_json::json;

#[allow(dead_code, unused_imports)]
#[path = "c04_ops/cat.rs"]
mod cat;
#[allow(dead_code, unused_imports)]
#[path = "c04_ops/entry.rs"]
mod entry;
// C05 catalogue (foreign fields, BigUint)
#[allow(dead_code, unused_imports)]
#[path = "c05_ops/attack.rs"]
mod attack;
#[allow(dead_code, unused_imports)]
#[path = "c05_ops/big.rs"]
mod big;
#[allow(dead_code, unused_imports)]
#[path = "c05_ops/cat_big.rs"]
mod cat_big;
#[allow(dead_code, unused_imports)]
#[path = "c05_ops/cat_field.rs"]
mod cat_field;
#[allow(dead_code, unused_imports)]
#[path = "c05_ops/ffield.rs"]
mod ffield;
#[allow(dead_code, unused_imports)]
#[path = "c05_ops/lattice.rs"]
mod lattice;
#[allow(dead_code, unused_imports)]
#[path = "c05_ops/repair.rs"]
mod repair;
// C06 catalogue (Jubjub, foreign secp256k1 / BLS12-381)
#[allow(dead_code, unused_imports)]
#[path = "c06_ops/cv.rs"]
mod cv;
#[allow(dead_code, unused_imports)]
#[path = "c06_ops/ops.rs"]
mod ops;
#[allow(dead_code, unused_imports)]
#[path = "c06_ops/structure.rs"]
mod structure;

/// Stdlib relation with several concrete (instance, witness) pairs.
fn relation_structure<R: Relation>(name: &str, rel: &R, samples: Vec<(R::Instance, R::Witness)>, vk_bytes: bool, rep: &mut Report) {
    let mbl = 8u8;
    let k = match catch_any(|| MidnightCircuit::new(rel, Value::unknown(), Value::unknown(), Some(mbl)).min_k()) {
        Ok(k) => k,
        Err(p) => {
            rep.inconclusive(&format!("{name}: min_k panicked: {}", p.message));
            return;
        }
    };
    rep.eval();
    let base = match relation_trace(rel, k, mbl, Value::unknown(), Value::unknown(), 0, false) {
        Ok(b) => b,
        Err(e) => {
            rep.violation(
                &format!("C09/{name}/unknown-witness-synthesis-fails"),
                &format!("synthesis with an unknown witness fails: {e}"),
                json!({"relation": name}),
            );
            return;
        }
    };
    let params = params_for(k);
    let vk0 = if vk_bytes {
        catch_any(|| {
            keygen_vk_with_k::<F, CS, _>(params, &MidnightCircuit::new(rel, Value::unknown(), Value::unknown(), Some(mbl)), k)
                .map(|vk| vk.to_bytes(SerdeFormat::RawBytes))
        })
        .ok()
        .and_then(|r| r.ok())
    } else {
        None
    };
    for (i, (inst, wit)) in samples.into_iter().enumerate() {
        rep.eval();
        let pi_len = R::format_instance(&inst).map(|v| v.len()).unwrap_or(base.1);
        match relation_trace(rel, k, mbl, Value::known(inst.clone()), Value::known(wit.clone()), pi_len, true) {
            Err(e) => rep.inconclusive(&format!("{name}: concrete witness {i} failed to synthesise: {e}")),
            Ok((trace, n_pi)) => {
                rep.nontrivial(&(name.to_string(), i));
                if n_pi != base.1 {
                    rep.violation(
                        &format!("C09/{name}/public-input-count-depends-on-witness"),
                        &format!("{} public inputs with unknown witness, {n_pi} with a concrete one", base.1),
                        json!({"relation": name, "sample": i}),
                    );
                }
                if let Some((idx, a, b)) = first_trace_divergence(&base.0, &trace) {
                    let ctx_a: Vec<String> = normalise_trace(&base.0).iter().skip(idx.saturating_sub(3)).take(8).map(|e| e.describe()).collect();
                    let ctx_b: Vec<String> = normalise_trace(&trace).iter().skip(idx.saturating_sub(3)).take(8).map(|e| e.describe()).collect();
                    rep.violation(
                        &format!("C09/{name}/structure-depends-on-witness"),
                        &format!("structural trace differs at event {idx}: unknown: {a} | concrete: {b}; context unknown={ctx_a:?} concrete={ctx_b:?}"),
                        json!({"relation": name, "sample": i, "event_index": idx, "unknown": a, "concrete": b}),
                    );
                } else {
                    rep.count_n("structural_events_compared", trace.len() as u64);
                }
            }
        }
        if let Some(vk0) = &vk0 {
            rep.eval();
            let vk1 = catch_any(|| {
                keygen_vk_with_k::<F, CS, _>(params, &MidnightCircuit::new(rel, Value::known(inst.clone()), Value::known(wit.clone()), Some(mbl)), k)
                    .map(|vk| vk.to_bytes(SerdeFormat::RawBytes))
            });
            match vk1 {
                Ok(Ok(b)) => {
                    rep.nontrivial(&(name.to_string(), "vk", i));
                    if &b != vk0 {
                        rep.violation(
                            &format!("C09/{name}/vk-depends-on-witness"),
                            "the verifying key generated with a concrete witness differs from the one generated without a witness",
                            json!({"relation": name, "sample": i}),
                        );
                    } else {
                        rep.count("vk_bytes_compared");
                    }
                }
                other => rep.inconclusive(&format!("{name}: keygen with concrete witness failed: {:?}", other.map(|r| r.map(|_| ())))),
            }
        }
    }
    rep.sample(json!({"relation": name, "k": k, "trace_events": base.0.len(), "public_inputs": base.1}));
}

fn main() {
    let ctx = Ctx::from_args("C09");
    let mut rep = Report::new(
        &ctx,
        "case = (circuit, concrete witness): the structural synthesis trace must equal the trace with the unknown witness (first differing event is the witness of a violation); \
         non-trivial = the concrete witness synthesised and the traces were compared; distinct = distinct (circuit, input).",
    );
    rep.assume("the harness' Assignment back-end records every structural call of synthesize; advice values are never part of the trace");
    let thorough = ctx.tier == Tier::Thorough;
    let mut rng = ctx.rng("c09");

    // ---- control: generated circuits are witness-independent by construction -----------------------
    for _ in 0..ctx.tier.pick(6, 30) {
        let knobs = GenKnobs::sample(&mut rng);
        let Some(spec) = gen_spec::<F>(&mut rng, &knobs, 8) else { continue };
        let unknown = GenCircuit {
            spec: spec.clone(),
            witness_seed: None,
            faults: vec![],
        };
        let inst0: Vec<Vec<F>> = instance_of::<F>(&spec, 1).iter().map(|c| vec![F::from(0); c.len()]).collect();
        let Ok(base) = collect::<F, _>(spec.k, &unknown, &inst0, CollectOpts { with_values: false, record_trace: true }) else {
            continue;
        };
        for _ in 0..3 {
            rep.eval();
            let ws: u64 = rng.gen();
            let c = GenCircuit::new(spec.clone(), ws);
            let inst = instance_of::<F>(&spec, ws);
            if let Ok(t) = collect::<F, _>(spec.k, &c, &inst, CollectOpts { with_values: true, record_trace: true }) {
                rep.nontrivial(&("family", spec.plan_seed, ws));
                if let Some((i, a, b)) = first_trace_divergence(&base.trace, &t.trace) {
                    rep.inconclusive(&format!("control failed: generated circuit trace differs at {i}: {a} | {b} (harness bug)"));
                } else {
                    rep.count("control.family_traces_equal");
                }
            }
        }
    }

    // ---- stdlib relations ----------------------------------------------------------------------------
    let n = ctx.tier.pick(6, 20);
    let zero = midnight_curves::Fq::from(0);
    let one = midnight_curves::Fq::from(1);
    let mut arith: Vec<_> = (0..n).map(|_| ArithRel::sample(&mut rng)).collect();
    arith.push(((zero, zero), (zero, zero, 0)));
    arith.push(((one + one, F::from(255)), (one, one, 255)));
    arith.push(((zero, zero), (-one, -one + -one, 0)));
    relation_structure("ArithRel", &ArithRel, arith, true, &mut rep);
    let mut pos: Vec<_> = (0..n).map(|_| PoseidonRel::sample(&mut rng)).collect();
    pos.push((zero, [zero, zero, zero]));
    relation_structure("PoseidonRel", &PoseidonRel, pos, true, &mut rep);
    let mut ecc: Vec<_> = (0..n.min(8)).map(|_| EccRel::sample(&mut rng)).collect();
    {
        use ff::Field;
        use group::Group;
        use midnight_curves::{Fr, JubjubSubgroup};
        ecc.push((JubjubSubgroup::identity(), Fr::ZERO));
        ecc.push((JubjubSubgroup::generator(), Fr::ONE));
        ecc.push((-JubjubSubgroup::generator(), -Fr::ONE));
    }
    relation_structure("EccRel", &EccRel, ecc, thorough, &mut rep);
    let mut sha: Vec<_> = (0..ctx.tier.pick(2, 8)).map(|_| ShaRel::sample(&mut rng)).collect();
    {
        use sha2::Digest;
        let w = [0u8; 24];
        sha.push((sha2::Sha256::digest(w).into(), w));
        let w = [0xffu8; 24];
        sha.push((sha2::Sha256::digest(w).into(), w));
    }
    relation_structure("ShaRel", &ShaRel, sha, false, &mut rep);

    // ---- operation catalogues (C04, C05, C06) -------------------------------------------------------------------
    let mut part = rep.fork();
    let n_ops = c09_catalogue::run(&ctx, &mut part);
    rep.merge(part);
    rep.set("catalogue_operations", json!(n_ops));

    rep.min_nontrivial = 40;
    rep.finish();
}

/// Glue to the C04 catalogue modules (kept separate so that their API changes stay local).
mod c09_catalogue {
    use super::*;

    pub fn run(ctx: &Ctx, rep: &mut Report) -> usize {
        let thorough = ctx.tier == Tier::Thorough;
        let per = if thorough { 8 } else { 4 };
        let mut jobs: Vec<Box<dyn FnOnce(&mut Report) + Send>> = vec![];
        macro_rules! add {
            ($entries:expr, $n:expr) => {
                for (entry, mut inputs) in $entries {
                    inputs.truncate($n);
                    jobs.push(Box::new(move |rep: &mut Report| structure_check(&entry, &inputs, 8, "C09", rep)));
                }
            };
        }
        add!(cat::catalogue_for_structure(thorough), 64);
        add!(cat_field::catalogue_for_structure::<midnight_curves::k256::Fq>(thorough), per);
        add!(cat_field::catalogue_for_structure::<midnight_curves::k256::Fp>(thorough), per);
        add!(cat_field::catalogue_for_structure::<midnight_curves::Fp>(thorough), per);
        add!(cat_big::catalogue_for_structure(thorough), per);
        add!(structure::catalogue_for_structure_jubjub(thorough), per);
        add!(structure::catalogue_for_structure_secp256k1(thorough), per);
        add!(structure::catalogue_for_structure_bls12_381(thorough), per);
        let n = jobs.len();
        use rayon::prelude::*;
        let forks: Vec<Report> = jobs.iter().map(|_| rep.fork()).collect();
        let parts: Vec<Report> = jobs
            .into_par_iter()
            .zip(forks)
            .map(|(job, mut part)| {
                job(&mut part);
                part
            })
            .collect();
        for p in parts {
            rep.merge(p);
        }
        n
    }
}
