//! C10 — every exported field type is the field it names.
//!
//! Oracle: the big-integer reference model `mzv::refs::field` (GF(p) over `BigUint`, towers by
//! schoolbook multiplication + linear solve). Library elements are converted to / from integers
//! only through their canonical byte encodings (`to_repr`/`from_repr`, component accessors for the
//! towers); every library call of a case runs inside `catch`.
//!
//! Layout of this file: (1) case arguments / outcomes, (2) the per-type adapter trait `Lf` and its
//! implementations, (3) `exec*`: one function that, for (op, args), runs the library and the
//! reference and returns the comparisons, (4) operand classes and generators, (5) shard planning
//! and the driver (`--stage san`, `--replay`).

use std::{
    collections::{BTreeMap, HashMap},
    fmt::Debug,
    sync::OnceLock,
};

use ff::{Field, FromUniformBytes, PrimeField, WithSmallOrderMulGroup};
use midnight_curves::{
    bls12_381 as bls, bn256 as bn, curve25519 as c25519,
    ff_ext::{ExtField, Legendre},
    k256 as k2,
    serde::{endian::EndianRepr, SerdeObject},
};
use mzv::{
    common::*,
    refs::field::{self as rfm, params, to_be, to_hex, to_le, El, RefField},
};
use num_bigint::{BigUint, RandBigInt};
use num_traits::{One, Zero};
use rand::{Rng, RngCore};
use rand_chacha::ChaCha8Rng;
use rayon::prelude::*;
use serde_json::{json, Value as Json};

// =============================================================================================
// (1) arguments and outcomes
// =============================================================================================

/// Argument of a case. Everything is plain data so that a witness can be replayed.
#[derive(Clone, Debug, PartialEq)]
enum Arg {
    /// field element as flattened coefficient vector (each coefficient < p)
    E(El),
    /// list of field elements
    Es(Vec<El>),
    /// byte string
    B(Vec<u8>),
    /// u64 words (exponent limbs, integer limbs, small parameters)
    W(Vec<u64>),
}

fn el_json(e: &[BigUint]) -> Json {
    Json::Array(e.iter().map(|c| json!(to_hex(c))).collect())
}
fn el_from_json(j: &Json) -> Option<El> {
    j.as_array()?.iter().map(|c| Some(rfm::hex(c.as_str()?))).collect()
}
impl Arg {
    fn j(&self) -> Json {
        match self {
            Arg::E(e) => json!({ "E": el_json(e) }),
            Arg::Es(v) => json!({ "Es": v.iter().map(|e| el_json(e)).collect::<Vec<_>>() }),
            Arg::B(b) => json!({ "B": hx(b) }),
            Arg::W(w) => json!({ "W": w.iter().map(|x| format!("{x:#x}")).collect::<Vec<_>>() }),
        }
    }
    fn from_json(j: &Json) -> Option<Arg> {
        let o = j.as_object()?;
        if let Some(e) = o.get("E") {
            return Some(Arg::E(el_from_json(e)?));
        }
        if let Some(v) = o.get("Es") {
            return Some(Arg::Es(v.as_array()?.iter().map(el_from_json).collect::<Option<_>>()?));
        }
        if let Some(b) = o.get("B") {
            return Some(Arg::B(hex::decode(b.as_str()?).ok()?));
        }
        if let Some(w) = o.get("W") {
            return Some(Arg::W(
                w.as_array()?
                    .iter()
                    .map(|x| u64::from_str_radix(x.as_str()?.trim_start_matches("0x"), 16).ok())
                    .collect::<Option<_>>()?,
            ));
        }
        None
    }
    fn hash_into(&self, h: &mut u64) {
        let mut mix = |b: &[u8]| {
            for x in b {
                *h ^= *x as u64;
                *h = h.wrapping_mul(0x100000001b3);
            }
        };
        match self {
            Arg::E(e) => e.iter().for_each(|c| mix(&c.to_bytes_le())),
            Arg::Es(v) => v.iter().flatten().for_each(|c| mix(&c.to_bytes_le())),
            Arg::B(b) => mix(b),
            Arg::W(w) => w.iter().for_each(|x| mix(&x.to_le_bytes())),
        }
    }
}
fn a_el(a: &[Arg], i: usize) -> &El {
    match &a[i] {
        Arg::E(e) => e,
        _ => panic!("harness: argument {i} is not an element"),
    }
}
fn a_els(a: &[Arg], i: usize) -> &Vec<El> {
    match &a[i] {
        Arg::Es(e) => e,
        _ => panic!("harness: argument {i} is not an element list"),
    }
}
fn a_bytes(a: &[Arg], i: usize) -> &Vec<u8> {
    match &a[i] {
        Arg::B(e) => e,
        _ => panic!("harness: argument {i} is not a byte string"),
    }
}
fn a_words(a: &[Arg], i: usize) -> &Vec<u64> {
    match &a[i] {
        Arg::W(e) => e,
        _ => panic!("harness: argument {i} is not a word list"),
    }
}

/// Outcome of a library call / of the reference.
#[derive(Clone, Debug, PartialEq)]
enum Out {
    E(El),
    O(Option<El>),
    Es(Vec<El>),
    B(bool),
    I(i64),
    Y(Vec<u8>),
    S(String),
    T(Vec<Out>),
}
impl Out {
    fn j(&self) -> Json {
        match self {
            Out::E(e) => el_json(e),
            Out::O(None) => json!("None"),
            Out::O(Some(e)) => json!({ "Some": el_json(e) }),
            Out::Es(v) => Json::Array(v.iter().map(|e| el_json(e)).collect()),
            Out::B(b) => json!(b),
            Out::I(i) => json!(i),
            Out::Y(b) => json!(hx(b)),
            Out::S(s) => json!(s),
            Out::T(v) => Json::Array(v.iter().map(|o| o.j()).collect()),
        }
    }
}

/// One comparison between library and reference.
struct Cmp {
    label: &'static str,
    pass: bool,
    got: Out,
    want: Out,
    /// violation kind used in the signature when the comparison fails
    kind: &'static str,
}
fn eq(label: &'static str, got: Out, want: Out) -> Cmp {
    Cmp {
        label,
        pass: got == want,
        got,
        want,
        kind: if label.starts_with("const/") { "wrong" } else { "mismatch" },
    }
}
fn judged(label: &'static str, pass: bool, got: Out, want: &str) -> Cmp {
    Cmp {
        label,
        pass,
        got,
        want: Out::S(want.to_string()),
        kind: if label.starts_with("const/") { "wrong" } else { "mismatch" },
    }
}

// ---- re-entrancy probe for `Sum<&T>` / `Product<&T>` ------------------------------------------
//
// `Iterator::sum` / `Iterator::product` are provided methods that an iterator may override. The
// probe iterator counts how often they are entered *while no item has been consumed*. An
// implementation of `Sum<&T> for T` that forwards to `iter.sum()` re-enters itself with the same
// unconsumed iterator for ever (a stack overflow or, with tail calls, an endless loop); the probe
// turns that into a panic after `PROBE_LIMIT` re-entries, i.e. into a deterministic observation
// that needs no wall clock. Implementations that fold, loop, or adapt the iterator
// (`iter.copied().sum()`) never enter the probe's `sum` more than once.
const PROBE_LIMIT: u32 = 64;
const PROBE_MSG: &str = "C10-PROBE: Iterator::sum/product re-entered without consuming an item";
struct Probe<'a, F> {
    it: std::slice::Iter<'a, F>,
    reentered: u32,
    consumed: u32,
}
impl<'a, F> Probe<'a, F> {
    fn new(s: &'a [F]) -> Self {
        Probe { it: s.iter(), reentered: 0, consumed: 0 }
    }
    fn enter(&mut self) {
        if self.consumed == 0 {
            self.reentered += 1;
            if self.reentered > PROBE_LIMIT {
                panic!("{}", PROBE_MSG);
            }
        }
    }
}
impl<'a, F> Iterator for Probe<'a, F> {
    type Item = &'a F;
    fn next(&mut self) -> Option<&'a F> {
        self.consumed += 1;
        self.it.next()
    }
    fn sum<S: std::iter::Sum<&'a F>>(mut self) -> S {
        self.enter();
        S::sum(self)
    }
    fn product<S: std::iter::Product<&'a F>>(mut self) -> S {
        self.enter();
        S::product(self)
    }
}
/// Runs `f`; `Err(())` iff the probe fired. Other panics propagate unchanged.
fn probed<T>(f: impl FnOnce() -> T) -> Result<T, ()> {
    match std::panic::catch_unwind(std::panic::AssertUnwindSafe(f)) {
        Ok(v) => Ok(v),
        Err(payload) => {
            let fired = payload.downcast_ref::<String>().map(|s| s == PROBE_MSG).unwrap_or(false)
                || payload.downcast_ref::<&str>().map(|s| *s == PROBE_MSG).unwrap_or(false);
            if fired {
                Err(())
            } else {
                std::panic::resume_unwind(payload)
            }
        }
    }
}
fn nonterminating(label: &'static str) -> Cmp {
    Cmp {
        label,
        pass: false,
        got: Out::S(format!(
            "unbounded self-recursion: the implementation called Iterator::{} on the unconsumed iterator {} times in a row (never returns: stack overflow or endless loop)",
            if label.starts_with("sum") { "sum" } else { "product" },
            PROBE_LIMIT
        )),
        want: Out::S("terminates with the sum/product of the items".into()),
        kind: "nontermination",
    }
}

/// Interns a dynamically built label (bounded number of distinct labels).
fn intern(s: String) -> &'static str {
    static TABLE: OnceLock<std::sync::Mutex<HashMap<String, &'static str>>> = OnceLock::new();
    let mut t = TABLE.get_or_init(Default::default).lock().unwrap();
    if let Some(v) = t.get(&s) {
        return v;
    }
    let l: &'static str = Box::leak(s.clone().into_boxed_str());
    t.insert(s, l);
    l
}

// =============================================================================================
// (2) adapters
// =============================================================================================

/// A named byte-level decoder / encoder of a type.
struct Codec<F> {
    name: &'static str,
    /// total length in bytes
    len: usize,
    /// byte order inside each part
    le: bool,
    /// number of base-field coefficients encoded one after another
    parts: usize,
    dec: Option<fn(&[u8]) -> Option<F>>,
    enc: Option<fn(&F) -> Vec<u8>>,
}

/// Adapter between a library field type and the reference model.
trait Lf: Field + Debug + Send + Sync + 'static {
    const NAME: &'static str;
    /// file of the repository (or external crate) that implements the type
    const SRC: &'static str;
    fn rf() -> &'static RefField;
    /// coefficients (each < p) → element, through the checked canonical decoder
    fn from_c(c: &[BigUint]) -> Self;
    /// element → coefficients, through the canonical encoder
    fn to_c(&self) -> El;

    fn legendre(_x: &Self) -> Option<i64> {
        None
    }
    /// lengths for which `from_uniform_bytes` (or `from_bytes_wide`) exists
    fn uniform_lens() -> &'static [usize] {
        &[]
    }
    fn uniform(_b: &[u8]) -> Option<Self> {
        None
    }
    /// names of additional unary operations with a parameter k (see `ref_extra`)
    fn extras() -> &'static [&'static str] {
        &[]
    }
    fn extra(_op: &str, _x: &Self, _k: usize) -> Option<El> {
        None
    }
    /// inherent `pow` / `pow_vartime` that are *not* reached through `ff::Field::pow`
    fn inherent_pow(_x: &Self, _e: &[u64]) -> Option<(Self, Self)> {
        None
    }
    /// `from_raw(limbs)`: integer given by little-endian limbs → congruent element
    fn from_raw_limbs(_l: &[u64]) -> Option<Self> {
        None
    }
    fn codecs() -> Vec<Codec<Self>> {
        vec![]
    }
    /// SerdeObject: (to_raw_bytes, write_raw)
    fn raw_to(_x: &Self) -> Option<(Vec<u8>, Vec<u8>)> {
        None
    }
    /// SerdeObject: (from_raw_bytes, read_raw) of the same bytes
    fn raw_from(_b: &[u8]) -> Option<(Option<Self>, Option<Self>)> {
        None
    }
    fn raw_from_unchecked(_b: &[u8]) -> Option<(Self, Self)> {
        None
    }
    fn to_json(_x: &Self) -> Option<Result<String, String>> {
        None
    }
    fn from_json(_s: &str) -> Option<Result<Self, String>> {
        None
    }
    /// named constants of extension types (prime fields are handled generically)
    fn consts() -> Vec<(&'static str, El)> {
        vec![]
    }
}

fn detect_le<F: PrimeField>() -> bool {
    let r = F::from(0x0102u64).to_repr();
    let r = r.as_ref();
    let n = r.len();
    if r[0] == 0x02 && r[1] == 0x01 {
        true
    } else if r[n - 1] == 0x02 && r[n - 2] == 0x01 {
        false
    } else {
        panic!("harness: cannot determine the byte order of to_repr")
    }
}
fn repr_of<F: PrimeField>(b: &[u8]) -> F::Repr {
    let mut r = F::Repr::default();
    r.as_mut().copy_from_slice(b);
    r
}
fn p_from<F: PrimeField>(v: &BigUint, le: bool) -> F {
    let n = F::Repr::default().as_ref().len();
    let b = if le { to_le(v, n) } else { to_be(v, n) };
    Option::<F>::from(F::from_repr(repr_of::<F>(&b)))
        .expect("harness: canonical value rejected by from_repr")
}
fn p_to<F: PrimeField>(x: &F, le: bool) -> BigUint {
    let r = x.to_repr();
    if le {
        BigUint::from_bytes_le(r.as_ref())
    } else {
        BigUint::from_bytes_be(r.as_ref())
    }
}

fn serde_raw_to<F: SerdeObject>(x: &F) -> (Vec<u8>, Vec<u8>) {
    let a = x.to_raw_bytes();
    let mut w = vec![];
    x.write_raw(&mut w).expect("write_raw to a Vec");
    (a, w)
}
fn serde_raw_from<F: SerdeObject>(b: &[u8]) -> (Option<F>, Option<F>) {
    let a = F::from_raw_bytes(b);
    let r = F::read_raw(&mut &b[..]).ok();
    (a, r)
}
fn serde_raw_from_unchecked<F: SerdeObject>(b: &[u8]) -> (F, F) {
    (F::from_raw_bytes_unchecked(b), F::read_raw_unchecked(&mut &b[..]))
}
fn json_to<F: serde::Serialize>(x: &F) -> Result<String, String> {
    serde_json::to_string(x).map_err(|e| e.to_string())
}
fn json_from<F: serde::de::DeserializeOwned>(s: &str) -> Result<F, String> {
    serde_json::from_str(s).map_err(|e| e.to_string())
}

macro_rules! lf_static {
    ($ctor:expr) => {
        fn rf() -> &'static RefField {
            static R: OnceLock<RefField> = OnceLock::new();
            R.get_or_init(|| $ctor)
        }
    };
}
macro_rules! lf_prime_conv {
    ($t:ty) => {
        fn from_c(c: &[BigUint]) -> Self {
            static L: OnceLock<bool> = OnceLock::new();
            p_from::<$t>(&c[0], *L.get_or_init(detect_le::<$t>))
        }
        fn to_c(&self) -> El {
            static L: OnceLock<bool> = OnceLock::new();
            vec![p_to::<$t>(self, *L.get_or_init(detect_le::<$t>))]
        }
    };
}
macro_rules! lf_serdeobject {
    ($t:ty) => {
        fn raw_to(x: &Self) -> Option<(Vec<u8>, Vec<u8>)> {
            Some(serde_raw_to::<$t>(x))
        }
        fn raw_from(b: &[u8]) -> Option<(Option<Self>, Option<Self>)> {
            Some(serde_raw_from::<$t>(b))
        }
        fn raw_from_unchecked(b: &[u8]) -> Option<(Self, Self)> {
            Some(serde_raw_from_unchecked::<$t>(b))
        }
    };
}
macro_rules! lf_json {
    ($t:ty) => {
        fn to_json(x: &Self) -> Option<Result<String, String>> {
            Some(json_to::<$t>(x))
        }
        fn from_json(s: &str) -> Option<Result<Self, String>> {
            Some(json_from::<$t>(s))
        }
    };
}
macro_rules! lf_legendre {
    () => {
        fn legendre(x: &Self) -> Option<i64> {
            Some(Legendre::legendre(x))
        }
    };
}
fn arr<const N: usize>(b: &[u8]) -> [u8; N] {
    let mut a = [0u8; N];
    a.copy_from_slice(b);
    a
}
fn limbs_of<const N: usize>(b: &[u8]) -> [u64; N] {
    let mut l = [0u64; N];
    for i in 0..N {
        l[i] = u64::from_le_bytes(arr::<8>(&b[i * 8..i * 8 + 8]));
    }
    l
}
fn limb_arr<const N: usize>(l: &[u64]) -> [u64; N] {
    let mut a = [0u64; N];
    a.copy_from_slice(l);
    a
}
fn ct<T>(o: subtle::CtOption<T>) -> Option<T> {
    Option::from(o)
}

// ---- BLS12-381 scalar field --------------------------------------------------------------------
impl Lf for bls::Fq {
    const NAME: &'static str = "bls12_381.Fq";
    const SRC: &'static str = "curves/src/bls12_381/fq.rs";
    lf_static!(params::bls12_381_fr());
    lf_prime_conv!(bls::Fq);
    lf_legendre!();
    lf_serdeobject!(bls::Fq);
    lf_json!(bls::Fq);
    fn uniform_lens() -> &'static [usize] {
        &[64]
    }
    fn uniform(b: &[u8]) -> Option<Self> {
        (b.len() == 64).then(|| <bls::Fq as FromUniformBytes<64>>::from_uniform_bytes(&arr::<64>(b)))
    }
    fn extras() -> &'static [&'static str] {
        &["mul3", "square_assign"]
    }
    fn extra(op: &str, x: &Self, _k: usize) -> Option<El> {
        match op {
            "mul3" => Some(x.mul3().to_c()),
            "square_assign" => {
                let mut t = *x;
                t.square_assign();
                Some(t.to_c())
            }
            _ => None,
        }
    }
    fn from_raw_limbs(l: &[u64]) -> Option<Self> {
        Some(bls::Fq::from_raw(limb_arr::<4>(l)))
    }
    fn codecs() -> Vec<Codec<Self>> {
        vec![
            Codec {
                name: "bytes_le",
                len: 32,
                le: true,
                parts: 1,
                dec: Some(|b| ct(bls::Fq::from_bytes_le(&arr::<32>(b)))),
                enc: Some(|x| x.to_bytes_le().to_vec()),
            },
            Codec {
                name: "bytes_be",
                len: 32,
                le: false,
                parts: 1,
                dec: Some(|b| ct(bls::Fq::from_bytes_be(&arr::<32>(b)))),
                enc: Some(|x| x.to_bytes_be().to_vec()),
            },
            Codec {
                name: "u64s_le",
                len: 32,
                le: true,
                parts: 1,
                dec: Some(|b| ct(bls::Fq::from_u64s_le(&limbs_of::<4>(b)))),
                enc: None,
            },
            Codec {
                name: "repr_vartime",
                len: 32,
                le: true,
                parts: 1,
                dec: Some(|b| bls::Fq::from_repr_vartime(arr::<32>(b))),
                enc: None,
            },
        ]
    }
}

// ---- BLS12-381 base field ----------------------------------------------------------------------
impl Lf for bls::Fp {
    const NAME: &'static str = "bls12_381.Fp";
    const SRC: &'static str = "curves/src/bls12_381/fp.rs";
    lf_static!(params::bls12_381_fp());
    lf_prime_conv!(bls::Fp);
    lf_legendre!();
    lf_serdeobject!(bls::Fp);
    lf_json!(bls::Fp);
    fn extras() -> &'static [&'static str] {
        &["mul3", "mul8", "square_assign"]
    }
    fn extra(op: &str, x: &Self, _k: usize) -> Option<El> {
        match op {
            "mul3" => Some(x.mul3().to_c()),
            "mul8" => Some(x.mul8().to_c()),
            "square_assign" => {
                let mut t = *x;
                t.square_assign();
                Some(t.to_c())
            }
            _ => None,
        }
    }
    fn codecs() -> Vec<Codec<Self>> {
        vec![
            Codec {
                name: "bytes_le",
                len: 48,
                le: true,
                parts: 1,
                dec: Some(|b| ct(bls::Fp::from_bytes_le(&arr::<48>(b)))),
                enc: Some(|x| x.to_bytes_le().to_vec()),
            },
            Codec {
                name: "bytes_be",
                len: 48,
                le: false,
                parts: 1,
                dec: Some(|b| ct(bls::Fp::from_bytes_be(&arr::<48>(b)))),
                enc: Some(|x| x.to_bytes_be().to_vec()),
            },
            Codec {
                name: "u64s_le",
                len: 48,
                le: true,
                parts: 1,
                dec: Some(|b| ct(bls::Fp::from_u64s_le(&limbs_of::<6>(b)))),
                enc: None,
            },
        ]
    }
}

// ---- BLS12-381 towers --------------------------------------------------------------------------
fn fp2_from(c: &[BigUint]) -> bls::Fp2 {
    bls::Fp2::new(bls::Fp::from_c(&c[0..1]), bls::Fp::from_c(&c[1..2]))
}
fn fp2_to(x: &bls::Fp2) -> El {
    [x.c0().to_c(), x.c1().to_c()].concat()
}
fn fp6_from(c: &[BigUint]) -> bls::Fp6 {
    bls::Fp6::new(fp2_from(&c[0..2]), fp2_from(&c[2..4]), fp2_from(&c[4..6]))
}
fn fp6_to(x: &bls::Fp6) -> El {
    [fp2_to(&x.c0()), fp2_to(&x.c1()), fp2_to(&x.c2())].concat()
}
impl Lf for bls::Fp2 {
    const NAME: &'static str = "bls12_381.Fp2";
    const SRC: &'static str = "curves/src/bls12_381/fp2.rs";
    lf_static!(params::bls12_381_fp2());
    lf_legendre!();
    lf_json!(bls::Fp2);
    fn from_c(c: &[BigUint]) -> Self {
        fp2_from(c)
    }
    fn to_c(&self) -> El {
        fp2_to(self)
    }
    fn extras() -> &'static [&'static str] {
        &["mul3", "mul8", "mul_by_nonresidue", "frobenius_map", "norm"]
    }
    fn extra(op: &str, x: &Self, k: usize) -> Option<El> {
        let mut t = *x;
        match op {
            "mul3" => Some(x.mul3().to_c()),
            "mul8" => Some(x.mul8().to_c()),
            "mul_by_nonresidue" => {
                t.mul_by_nonresidue();
                Some(t.to_c())
            }
            "frobenius_map" => {
                t.frobenius_map(k);
                Some(t.to_c())
            }
            "norm" => Some(x.norm().to_c()),
            _ => None,
        }
    }
    fn consts() -> Vec<(&'static str, El)> {
        vec![
            ("ZERO", Self::ZERO.to_c()),
            ("ONE", Self::ONE.to_c()),
            ("ZETA", <Self as WithSmallOrderMulGroup<3>>::ZETA.to_c()),
        ]
    }
}
impl Lf for bls::Fp6 {
    const NAME: &'static str = "bls12_381.Fp6";
    const SRC: &'static str = "curves/src/bls12_381/fp6.rs";
    lf_static!(params::bls12_381_fp6());
    lf_json!(bls::Fp6);
    fn from_c(c: &[BigUint]) -> Self {
        fp6_from(c)
    }
    fn to_c(&self) -> El {
        fp6_to(self)
    }
    fn extras() -> &'static [&'static str] {
        &["mul_by_nonresidue", "frobenius_map"]
    }
    fn extra(op: &str, x: &Self, k: usize) -> Option<El> {
        let mut t = *x;
        match op {
            "mul_by_nonresidue" => {
                t.mul_by_nonresidue();
                Some(t.to_c())
            }
            "frobenius_map" => {
                t.frobenius_map(k);
                Some(t.to_c())
            }
            _ => None,
        }
    }
    fn consts() -> Vec<(&'static str, El)> {
        vec![("ZERO", Self::ZERO.to_c()), ("ONE", Self::ONE.to_c())]
    }
}
impl Lf for bls::Fp12 {
    const NAME: &'static str = "bls12_381.Fp12";
    const SRC: &'static str = "curves/src/bls12_381/fp12.rs";
    lf_static!(params::bls12_381_fp12());
    lf_json!(bls::Fp12);
    fn from_c(c: &[BigUint]) -> Self {
        bls::Fp12::new(fp6_from(&c[0..6]), fp6_from(&c[6..12]))
    }
    fn to_c(&self) -> El {
        [fp6_to(&self.c0()), fp6_to(&self.c1())].concat()
    }
    fn extras() -> &'static [&'static str] {
        &["frobenius_map", "conjugate"]
    }
    fn extra(op: &str, x: &Self, k: usize) -> Option<El> {
        let mut t = *x;
        match op {
            "frobenius_map" => {
                t.frobenius_map(k);
                Some(t.to_c())
            }
            "conjugate" => {
                t.conjugate();
                Some(t.to_c())
            }
            _ => None,
        }
    }
    fn consts() -> Vec<(&'static str, El)> {
        vec![("ZERO", Self::ZERO.to_c()), ("ONE", Self::ONE.to_c())]
    }
}

// ---- Jubjub scalar field -----------------------------------------------------------------------
impl Lf for midnight_curves::Fr {
    const NAME: &'static str = "jubjub.Fr";
    const SRC: &'static str = "curves/src/jubjub/fr.rs";
    lf_static!(params::jubjub_fr());
    lf_prime_conv!(midnight_curves::Fr);
    fn uniform_lens() -> &'static [usize] {
        &[64]
    }
    fn uniform(b: &[u8]) -> Option<Self> {
        (b.len() == 64).then(|| midnight_curves::Fr::from_bytes_wide(&arr::<64>(b)))
    }
    fn inherent_pow(x: &Self, e: &[u64]) -> Option<(Self, Self)> {
        (e.len() == 4).then(|| {
            let e = limb_arr::<4>(e);
            (midnight_curves::Fr::pow(x, &e), midnight_curves::Fr::pow_vartime(x, &e))
        })
    }
    fn from_raw_limbs(l: &[u64]) -> Option<Self> {
        Some(midnight_curves::Fr::from_raw(limb_arr::<4>(l)))
    }
    fn codecs() -> Vec<Codec<Self>> {
        vec![Codec {
            name: "bytes",
            len: 32,
            le: true,
            parts: 1,
            dec: Some(|b| ct(midnight_curves::Fr::from_bytes(&arr::<32>(b)))),
            enc: Some(|x| x.to_bytes().to_vec()),
        }]
    }
}

// ---- secp256k1 ---------------------------------------------------------------------------------
impl Lf for k2::Fp {
    const NAME: &'static str = "k256.Fp";
    const SRC: &'static str = "curves/src/k256/base_field.rs";
    lf_static!(params::secp256k1_fp());
    lf_prime_conv!(k2::Fp);
    fn codecs() -> Vec<Codec<Self>> {
        vec![Codec {
            name: "bytes",
            len: 32,
            le: false,
            parts: 1,
            dec: Some(|b| ct(k2::Fp::from_bytes(&repr_of::<k2::Fp>(b)))),
            enc: Some(|x| x.to_bytes().to_vec()),
        }]
    }
}
impl Lf for k2::Fq {
    const NAME: &'static str = "k256.Fq";
    const SRC: &'static str = "k256::Scalar (re-exported by curves/src/k256/mod.rs)";
    lf_static!(params::secp256k1_fq());
    lf_prime_conv!(k2::Fq);
}

// ---- Curve25519 --------------------------------------------------------------------------------
impl Lf for c25519::Fp {
    const NAME: &'static str = "curve25519.Fp";
    const SRC: &'static str = "curves/src/curve25519/fp.rs";
    lf_static!(params::curve25519_fp());
    lf_prime_conv!(c25519::Fp);
    lf_legendre!();
    lf_serdeobject!(c25519::Fp);
    lf_json!(c25519::Fp);
    fn uniform_lens() -> &'static [usize] {
        &[64, 48]
    }
    fn uniform(b: &[u8]) -> Option<Self> {
        match b.len() {
            64 => Some(<c25519::Fp as FromUniformBytes<64>>::from_uniform_bytes(&arr::<64>(b))),
            48 => Some(<c25519::Fp as FromUniformBytes<48>>::from_uniform_bytes(&arr::<48>(b))),
            _ => None,
        }
    }
    fn from_raw_limbs(l: &[u64]) -> Option<Self> {
        Some(c25519::Fp::from_raw(limb_arr::<4>(l)))
    }
    fn codecs() -> Vec<Codec<Self>> {
        vec![
            Codec {
                name: "bytes",
                len: 32,
                le: true,
                parts: 1,
                dec: Some(|b| ct(c25519::Fp::from_bytes(&arr::<32>(b)))),
                enc: Some(|x| c25519::Fp::to_bytes(x).to_vec()),
            },
            Codec {
                name: "endian_repr",
                len: 32,
                le: true,
                parts: 1,
                dec: Some(|b| ct(<c25519::Fp as EndianRepr>::from_bytes(b))),
                enc: Some(|x| <c25519::Fp as EndianRepr>::to_bytes(x)),
            },
        ]
    }
}
impl Lf for c25519::Scalar {
    const NAME: &'static str = "curve25519.Scalar";
    const SRC: &'static str = "curve25519_dalek::Scalar (re-exported by curves/src/curve25519/mod.rs)";
    lf_static!(params::curve25519_scalar());
    lf_prime_conv!(c25519::Scalar);
    fn uniform_lens() -> &'static [usize] {
        &[64]
    }
    fn uniform(b: &[u8]) -> Option<Self> {
        (b.len() == 64)
            .then(|| <c25519::Scalar as FromUniformBytes<64>>::from_uniform_bytes(&arr::<64>(b)))
    }
    fn codecs() -> Vec<Codec<Self>> {
        vec![Codec {
            name: "canonical_bytes",
            len: 32,
            le: true,
            parts: 1,
            dec: Some(|b| ct(c25519::Scalar::from_canonical_bytes(arr::<32>(b)))),
            enc: Some(|x| x.to_bytes().to_vec()),
        }]
    }
}

// ---- BN254 (dev-curves) ------------------------------------------------------------------------
macro_rules! bn_prime {
    ($t:ty, $name:literal, $src:literal, $ctor:expr) => {
        impl Lf for $t {
            const NAME: &'static str = $name;
            const SRC: &'static str = $src;
            lf_static!($ctor);
            lf_prime_conv!($t);
            lf_legendre!();
            lf_serdeobject!($t);
            lf_json!($t);
            fn uniform_lens() -> &'static [usize] {
                &[64, 48]
            }
            fn uniform(b: &[u8]) -> Option<Self> {
                match b.len() {
                    64 => Some(<$t as FromUniformBytes<64>>::from_uniform_bytes(&arr::<64>(b))),
                    48 => Some(<$t as FromUniformBytes<48>>::from_uniform_bytes(&arr::<48>(b))),
                    _ => None,
                }
            }
            fn from_raw_limbs(l: &[u64]) -> Option<Self> {
                Some(<$t>::from_raw(limb_arr::<4>(l)))
            }
            fn codecs() -> Vec<Codec<Self>> {
                vec![
                    Codec {
                        name: "bytes",
                        len: 32,
                        le: true,
                        parts: 1,
                        dec: Some(|b| ct(<$t>::from_bytes(&arr::<32>(b)))),
                        enc: Some(|x| <$t>::to_bytes(x).to_vec()),
                    },
                    Codec {
                        name: "endian_repr",
                        len: 32,
                        le: true,
                        parts: 1,
                        dec: Some(|b| ct(<$t as EndianRepr>::from_bytes(b))),
                        enc: Some(|x| <$t as EndianRepr>::to_bytes(x)),
                    },
                ]
            }
        }
    };
}
bn_prime!(bn::Fq, "bn256.Fq", "curves/src/bn256/fq.rs", params::bn254_fq());
bn_prime!(bn::Fr, "bn256.Fr", "curves/src/bn256/fr.rs", params::bn254_fr());

fn bn_fq2_from(c: &[BigUint]) -> bn::Fq2 {
    bn::Fq2::new(bn::Fq::from_c(&c[0..1]), bn::Fq::from_c(&c[1..2]))
}
fn bn_fq6_from(c: &[BigUint]) -> bn::Fq6 {
    bn::Fq6::new(bn_fq2_from(&c[0..2]), bn_fq2_from(&c[2..4]), bn_fq2_from(&c[4..6]))
}
/// The BN254 towers above Fq2 expose no component accessor and no byte encoding; their `Debug`
/// output prints every Fq coefficient as `0x…` (big-endian hex of `to_repr`) in tower order.
fn debug_coeffs<T: Debug>(x: &T, n: usize) -> El {
    let s = format!("{x:?}");
    let mut out = vec![];
    let mut rest = s.as_str();
    while let Some(i) = rest.find("0x") {
        let t = &rest[i + 2..];
        let end = t.find(|c: char| !c.is_ascii_hexdigit()).unwrap_or(t.len());
        out.push(rfm::hex(&t[..end]));
        rest = &t[end..];
    }
    assert_eq!(out.len(), n, "harness: Debug output of a tower element has {} coefficients", out.len());
    out
}
impl Lf for bn::Fq2 {
    const NAME: &'static str = "bn256.Fq2";
    const SRC: &'static str = "curves/src/derive/field/tower.rs";
    lf_static!(params::bn254_fq2());
    lf_legendre!();
    lf_serdeobject!(bn::Fq2);
    lf_json!(bn::Fq2);
    fn from_c(c: &[BigUint]) -> Self {
        bn_fq2_from(c)
    }
    fn to_c(&self) -> El {
        let b = self.to_bytes();
        vec![BigUint::from_bytes_le(&b[..32]), BigUint::from_bytes_le(&b[32..])]
    }
    fn uniform_lens() -> &'static [usize] {
        &[96]
    }
    fn uniform(b: &[u8]) -> Option<Self> {
        (b.len() == 96).then(|| <bn::Fq2 as FromUniformBytes<96>>::from_uniform_bytes(&arr::<96>(b)))
    }
    fn extras() -> &'static [&'static str] {
        &["mul_by_nonresidue", "frobenius_map", "conjugate", "norm"]
    }
    fn extra(op: &str, x: &Self, k: usize) -> Option<El> {
        let mut t = *x;
        match op {
            "mul_by_nonresidue" => Some(ExtField::mul_by_nonresidue(x).to_c()),
            "frobenius_map" => {
                ExtField::frobenius_map(&mut t, k);
                Some(t.to_c())
            }
            "conjugate" => {
                t.conjugate();
                Some(t.to_c())
            }
            "norm" => Some(x.norm().to_c()),
            _ => None,
        }
    }
    fn codecs() -> Vec<Codec<Self>> {
        vec![
            Codec {
                name: "bytes",
                len: 64,
                le: true,
                parts: 2,
                dec: Some(|b| ct(bn::Fq2::from_bytes(&arr::<64>(b)))),
                enc: Some(|x| x.to_bytes().to_vec()),
            },
            Codec {
                name: "repr",
                len: 64,
                le: true,
                parts: 2,
                dec: Some(|b| ct(<bn::Fq2 as PrimeField>::from_repr(b.into()))),
                enc: Some(|x| <bn::Fq2 as PrimeField>::to_repr(x).as_ref().to_vec()),
            },
        ]
    }
    fn consts() -> Vec<(&'static str, El)> {
        vec![
            ("ZERO", Self::ZERO.to_c()),
            ("ONE", Self::ONE.to_c()),
            ("ZETA", <Self as WithSmallOrderMulGroup<3>>::ZETA.to_c()),
            ("TWO_INV", <Self as PrimeField>::TWO_INV.to_c()),
            ("NON_RESIDUE", <Self as ExtField>::NON_RESIDUE.to_c()),
        ]
    }
}
impl Lf for bn::Fq6 {
    const NAME: &'static str = "bn256.Fq6";
    const SRC: &'static str = "curves/src/ff_ext/cubic.rs";
    lf_static!(params::bn254_fq6());
    fn from_c(c: &[BigUint]) -> Self {
        bn_fq6_from(c)
    }
    fn to_c(&self) -> El {
        debug_coeffs(self, 6)
    }
    fn extras() -> &'static [&'static str] {
        &["mul_by_nonresidue", "frobenius_map"]
    }
    fn extra(op: &str, x: &Self, k: usize) -> Option<El> {
        let mut t = *x;
        match op {
            "mul_by_nonresidue" => Some(ExtField::mul_by_nonresidue(x).to_c()),
            "frobenius_map" => {
                ExtField::frobenius_map(&mut t, k);
                Some(t.to_c())
            }
            _ => None,
        }
    }
    fn consts() -> Vec<(&'static str, El)> {
        vec![
            ("ZERO", Self::ZERO.to_c()),
            ("ONE", Self::ONE.to_c()),
            ("NON_RESIDUE", <Self as ExtField>::NON_RESIDUE.to_c()),
        ]
    }
}
impl Lf for bn::Fq12 {
    const NAME: &'static str = "bn256.Fq12";
    const SRC: &'static str = "curves/src/ff_ext/quadratic.rs";
    lf_static!(params::bn254_fq12());
    fn from_c(c: &[BigUint]) -> Self {
        bn::Fq12::new(bn_fq6_from(&c[0..6]), bn_fq6_from(&c[6..12]))
    }
    fn to_c(&self) -> El {
        debug_coeffs(self, 12)
    }
    fn extras() -> &'static [&'static str] {
        &["frobenius_map", "conjugate"]
    }
    fn extra(op: &str, x: &Self, k: usize) -> Option<El> {
        let mut t = *x;
        match op {
            "frobenius_map" => {
                ExtField::frobenius_map(&mut t, k);
                Some(t.to_c())
            }
            "conjugate" => {
                t.conjugate();
                Some(t.to_c())
            }
            _ => None,
        }
    }
    fn consts() -> Vec<(&'static str, El)> {
        vec![("ZERO", Self::ZERO.to_c()), ("ONE", Self::ONE.to_c())]
    }
}

// =============================================================================================
// (3) exec: library vs reference for one (op, args)
// =============================================================================================

fn words_to_big(w: &[u64]) -> BigUint {
    let mut b = vec![];
    for x in w {
        b.extend_from_slice(&x.to_le_bytes());
    }
    BigUint::from_bytes_le(&b)
}

/// The element of `K` by which `mul_by_nonresidue` of the library type multiplies (the constant
/// that defines the next extension step), by type name.
fn next_nonresidue(name: &str, rf: &RefField) -> El {
    let mut e = rf.zero();
    match name {
        // ξ = 1 + u
        "bls12_381.Fp2" => {
            e[0] = BigUint::one();
            e[1] = BigUint::one();
        }
        // ξ = 9 + u
        "bn256.Fq2" => {
            e[0] = BigUint::from(9u32);
            e[1] = BigUint::one();
        }
        // v
        "bls12_381.Fp6" | "bn256.Fq6" => e[2] = BigUint::one(),
        _ => panic!("harness: no next non-residue for {name}"),
    }
    e
}

fn ref_extra(name: &str, rf: &RefField, op: &str, x: &El, k: usize) -> El {
    match op {
        "mul3" => rf.mul(x, &rf.from_int(&BigUint::from(3u32))),
        "mul8" => rf.mul(x, &rf.from_int(&BigUint::from(8u32))),
        "square_assign" => rf.square(x),
        "mul_by_nonresidue" => rf.mul(x, &next_nonresidue(name, rf)),
        "frobenius_map" => rf.frobenius(x, k),
        "conjugate" => {
            let h = x.len() / 2;
            [x[..h].to_vec(), rf_half_neg(rf, &x[h..])].concat()
        }
        "norm" => {
            let h = x.len() / 2;
            let conj = [x[..h].to_vec(), rf_half_neg(rf, &x[h..])].concat();
            let n = rf.mul(x, &conj);
            assert!(n[h..].iter().all(|c| c.is_zero()), "harness: norm not in the sub-field");
            n[..h].to_vec()
        }
        _ => panic!("harness: unknown extra {op}"),
    }
}
fn rf_half_neg(rf: &RefField, h: &[BigUint]) -> El {
    let f = rf.prime_field();
    h.iter().map(|c| f.neg(c)).collect()
}

/// Element-valued result: compared through the canonical encoding and, when that agrees, also
/// through the library's own equality against the canonical element (a result whose encoding is
/// right but which the type itself does not consider equal to that element is an unreduced
/// internal representation).
fn el_cmp<F: Lf>(out: &mut Vec<Cmp>, label: &'static str, res: F, want: &El) {
    let c = eq(label, Out::E(res.to_c()), Out::E(want.clone()));
    let ok = c.pass;
    out.push(c);
    if ok {
        let same = res == F::from_c(want);
        out.push(Cmp {
            label: intern(format!("{label}~eq")),
            pass: same,
            got: Out::S(format!("result == canonical element: {same} (result {res:?})")),
            want: Out::S("the result equals (==) the element decoded from the canonical encoding of the expected value".into()),
            kind: "noncanonical",
        });
    }
}

/// Operations that exist for every type (`ff::Field` surface + adapter hooks).
fn exec_field<F: Lf>(op: &str, a: &[Arg]) -> Option<Vec<Cmp>> {
    let rf = F::rf();
    let mut out = vec![];
    macro_rules! binop {
        ($name:literal, $nr:literal, $na:literal, $nar:literal, $op:tt, $opa:tt, $rfop:ident) => {{
            let (x, y) = (a_el(a, 0), a_el(a, 1));
            let (lx, ly) = (F::from_c(x), F::from_c(y));
            let want = rf.$rfop(x, y);
            el_cmp::<F>(&mut out, $name, lx $op ly, &want);
            out.push(eq($nr, Out::E((lx $op &ly).to_c()), Out::E(want.clone())));
            let mut t = lx;
            t $opa ly;
            el_cmp::<F>(&mut out, $na, t, &want);
            let mut t = lx;
            t $opa &ly;
            out.push(eq($nar, Out::E(t.to_c()), Out::E(want)));
        }};
    }
    match op {
        "add" => binop!("add", "add_ref", "add_assign", "add_assign_ref", +, +=, add),
        "sub" => binop!("sub", "sub_ref", "sub_assign", "sub_assign_ref", -, -=, sub),
        "mul" => binop!("mul", "mul_ref", "mul_assign", "mul_assign_ref", *, *=, mul),
        "eq" => {
            let (x, y) = (a_el(a, 0), a_el(a, 1));
            let (lx, ly) = (F::from_c(x), F::from_c(y));
            out.push(eq("eq", Out::B(lx == ly), Out::B(x == y)));
            out.push(eq("ct_eq", Out::B(bool::from(subtle::ConstantTimeEq::ct_eq(&lx, &ly))), Out::B(x == y)));
        }
        "neg" => {
            let x = a_el(a, 0);
            el_cmp::<F>(&mut out, "neg", -F::from_c(x), &rf.neg(x));
        }
        "square" => {
            let x = a_el(a, 0);
            el_cmp::<F>(&mut out, "square", F::from_c(x).square(), &rf.square(x));
        }
        "double" => {
            let x = a_el(a, 0);
            el_cmp::<F>(&mut out, "double", F::from_c(x).double(), &rf.double(x));
        }
        "cube" => {
            let x = a_el(a, 0);
            out.push(eq("cube", Out::E(F::from_c(x).cube().to_c()), Out::E(rf.mul(&rf.square(x), x))));
        }
        "invert" => {
            let x = a_el(a, 0);
            let got = ct(F::from_c(x).invert());
            let want = rf.invert(x);
            match (got, &want) {
                (Some(g), Some(w)) => el_cmp::<F>(&mut out, "invert", g, w),
                (g, _) => out.push(eq("invert", Out::O(g.map(|v| v.to_c())), Out::O(want))),
            }
        }
        "is_zero" => {
            let x = a_el(a, 0);
            let lx = F::from_c(x);
            out.push(eq("is_zero", Out::B(bool::from(lx.is_zero())), Out::B(rf.is_zero(x))));
            out.push(eq("is_zero_vartime", Out::B(lx.is_zero_vartime()), Out::B(rf.is_zero(x))));
        }
        "roundtrip" => {
            let x = a_el(a, 0);
            out.push(eq("roundtrip", Out::E(F::from_c(x).to_c()), Out::E(x.clone())));
        }
        "sum" | "product" => {
            let xs = a_els(a, 0);
            let ls: Vec<F> = xs.iter().map(|x| F::from_c(x)).collect();
            if op == "sum" {
                let want = Out::E(xs.iter().fold(rf.zero(), |acc, x| rf.add(&acc, x)));
                out.push(eq("sum", Out::E(ls.iter().copied().sum::<F>().to_c()), want.clone()));
                match probed(|| <F as std::iter::Sum<&F>>::sum(Probe::new(&ls))) {
                    Ok(v) => out.push(eq("sum_ref", Out::E(v.to_c()), want)),
                    Err(()) => out.push(nonterminating("sum_ref")),
                }
            } else {
                let want = Out::E(xs.iter().fold(rf.one(), |acc, x| rf.mul(&acc, x)));
                out.push(eq("product", Out::E(ls.iter().copied().product::<F>().to_c()), want.clone()));
                match probed(|| <F as std::iter::Product<&F>>::product(Probe::new(&ls))) {
                    Ok(v) => out.push(eq("product_ref", Out::E(v.to_c()), want)),
                    Err(()) => out.push(nonterminating("product_ref")),
                }
            }
        }
        "batch_invert" => {
            use ff::{BatchInvert, BatchInverter};
            let xs = a_els(a, 0);
            let want_each: Vec<El> =
                xs.iter().map(|x| rf.invert(x).unwrap_or_else(|| rf.zero())).collect();
            let prod = xs.iter().filter(|x| !rf.is_zero(x)).fold(rf.one(), |acc, x| rf.mul(&acc, x));
            let want = Out::T(vec![Out::Es(want_each), Out::O(rf.invert(&prod))]);
            let mut ls: Vec<F> = xs.iter().map(|x| F::from_c(x)).collect();
            let all = ls.iter_mut().batch_invert();
            out.push(eq(
                "batch_invert",
                Out::T(vec![Out::Es(ls.iter().map(|v| v.to_c()).collect()), Out::O(Some(all.to_c()))]),
                want.clone(),
            ));
            let mut ls: Vec<F> = xs.iter().map(|x| F::from_c(x)).collect();
            let mut scratch = vec![F::ZERO; ls.len()];
            let all = BatchInverter::invert_with_external_scratch(&mut ls, &mut scratch);
            out.push(eq(
                "batch_invert_scratch",
                Out::T(vec![Out::Es(ls.iter().map(|v| v.to_c()).collect()), Out::O(Some(all.to_c()))]),
                want,
            ));
        }
        "pow" => {
            let (x, e) = (a_el(a, 0), a_words(a, 1));
            let lx = F::from_c(x);
            let want = rf.pow(x, &words_to_big(e));
            el_cmp::<F>(&mut out, "pow", lx.pow(e), &want);
            let want = Out::E(want);
            out.push(eq("pow_vartime", Out::E(lx.pow_vartime(e).to_c()), want.clone()));
            if let Some((p1, p2)) = F::inherent_pow(&lx, e) {
                out.push(eq("inherent_pow", Out::E(p1.to_c()), want.clone()));
                out.push(eq("inherent_pow_vartime", Out::E(p2.to_c()), want));
            }
        }
        "sqrt" => {
            let x = a_el(a, 0);
            let got = ct(F::from_c(x).sqrt()).map(|v| v.to_c());
            let pass = match &got {
                Some(r) => &rf.square(r) == x,
                None => rf.sqrt(x).is_none(),
            };
            out.push(judged("sqrt", pass, Out::O(got), "Some(r) with r*r = x if x is a square, None otherwise"));
        }
        "sqrt_ratio" => {
            let (n, d) = (a_el(a, 0), a_el(a, 1));
            let (flag, r) = F::sqrt_ratio(&F::from_c(n), &F::from_c(d));
            let (flag, r) = (bool::from(flag), r.to_c());
            let (nz, dz) = (rf.is_zero(n), rf.is_zero(d));
            // ff::Field::sqrt_ratio: (true, sqrt(n/d)) | (true, 0) if n = 0 | (false, 0) if n != 0, d = 0
            // | (false, sqrt(G·n/d)) for some non-square G otherwise
            let pass = if nz {
                flag && rf.is_zero(&r)
            } else if dz {
                !flag && rf.is_zero(&r)
            } else {
                let q = rf.mul(n, &rf.invert(d).unwrap());
                let r2 = rf.square(&r);
                if rf.sqrt(&q).is_some() {
                    flag && r2 == q
                } else {
                    // r² / q must be a non-square (and r ≠ 0)
                    !flag && !rf.is_zero(&r) && rf.sqrt(&rf.mul(&r2, &rf.invert(&q).unwrap())).is_none()
                }
            };
            out.push(judged("sqrt_ratio", pass, Out::T(vec![Out::B(flag), Out::E(r)]), "ff::Field::sqrt_ratio contract"));
        }
        "legendre" => {
            let x = a_el(a, 0);
            let got = F::legendre(&F::from_c(x))?;
            // quadratic towers: the symbol of x in K; reference through sqrt (norm based) to stay cheap
            let want = if rf.is_zero(x) {
                0
            } else if rf.sqrt(x).is_some() {
                1
            } else {
                -1
            };
            out.push(eq("legendre", Out::I(got), Out::I(want)));
        }
        "uniform" => {
            let b = a_bytes(a, 0);
            let got = F::uniform(b)?.to_c();
            let f = rf.prime_field();
            let label = intern(format!("from_uniform_bytes{}", b.len()));
            if rf.degree() == 1 {
                let _ = got;
                el_cmp::<F>(&mut out, label, F::uniform(b)?, &vec![f.reduce_le_bytes(b)]);
            } else {
                // quadratic tower: each half reduces to one coefficient; the assignment of halves
                // to coefficients is not specified anywhere, either order is accepted
                let h = b.len() / 2;
                let (lo, hi) = (f.reduce_le_bytes(&b[..h]), f.reduce_le_bytes(&b[h..]));
                let pass = got == vec![lo.clone(), hi.clone()] || got == vec![hi, lo];
                out.push(judged(label, pass, Out::E(got), "coefficients = the two halves as little-endian integers mod p"));
            }
        }
        "extra" => {
            let (x, w) = (a_el(a, 0), a_words(a, 1));
            let (name, k) = (F::extras()[w[0] as usize], w[1] as usize);
            let got = F::extra(name, &F::from_c(x), k)?;
            out.push(eq(intern(name.to_string()), Out::E(got), Out::E(ref_extra(F::NAME, rf, name, x, k))));
        }
        "from_raw" => {
            let w = a_words(a, 0);
            el_cmp::<F>(&mut out, "from_raw", F::from_raw_limbs(w)?, &vec![words_to_big(w) % rf.p()]);
        }
        "dec" => {
            let (w, b) = (a_words(a, 0), a_bytes(a, 1));
            let cs = F::codecs();
            let c = &cs[w[0] as usize];
            let dec = c.dec?;
            let plen = c.len / c.parts;
            let ints: Vec<BigUint> = (0..c.parts)
                .map(|i| {
                    let s = &b[i * plen..(i + 1) * plen];
                    if c.le { BigUint::from_bytes_le(s) } else { BigUint::from_bytes_be(s) }
                })
                .collect();
            let want = ints.iter().all(|v| v < rf.p()).then(|| ints.clone());
            let got = dec(b);
            let label = intern(format!("dec/{}", c.name));
            out.push(eq(label, Out::O(got.as_ref().map(|v| v.to_c())), Out::O(want)));
            if let (Some(v), Some(enc)) = (got, c.enc) {
                out.push(eq(intern(format!("dec_enc/{}", c.name)), Out::Y(enc(&v)), Out::Y(b.clone())));
            }
        }
        "enc" => {
            let (w, x) = (a_words(a, 0), a_el(a, 1));
            let cs = F::codecs();
            let c = &cs[w[0] as usize];
            let enc = c.enc?;
            let plen = c.len / c.parts;
            let want: Vec<u8> =
                x.iter().flat_map(|v| if c.le { to_le(v, plen) } else { to_be(v, plen) }).collect();
            out.push(eq(intern(format!("enc/{}", c.name)), Out::Y(enc(&F::from_c(x))), Out::Y(want)));
        }
        "raw" => {
            // SerdeObject round trips of a valid element
            let x = a_el(a, 0);
            let lx = F::from_c(x);
            let (b1, b2) = F::raw_to(&lx)?;
            out.push(eq("raw/write_raw=to_raw_bytes", Out::Y(b2), Out::Y(b1.clone())));
            let (r1, r2) = F::raw_from(&b1)?;
            out.push(eq("raw/from_raw_bytes", Out::O(r1.map(|v| v.to_c())), Out::O(Some(x.clone()))));
            out.push(eq("raw/read_raw", Out::O(r2.map(|v| v.to_c())), Out::O(Some(x.clone()))));
            let (u1, u2) = F::raw_from_unchecked(&b1)?;
            out.push(eq("raw/from_raw_bytes_unchecked", Out::E(u1.to_c()), Out::E(x.clone())));
            out.push(eq("raw/read_raw_unchecked", Out::E(u2.to_c()), Out::E(x.clone())));
            // wrong length must be refused by the checked decoder
            let (s1, _) = F::raw_from(&b1[..b1.len() - 1])?;
            out.push(eq("raw/short_input", Out::B(s1.is_some()), Out::B(false)));
        }
        "raw_alias" => {
            // a second byte string for the same residue (internal integer + p) must be refused by
            // the *checked* raw decoder. Only run when the layout is understood: the raw bytes of
            // every coefficient are a little-endian integer m < p with m ≡ x·R or m = x.
            let x = a_el(a, 0);
            let lx = F::from_c(x);
            let (b1, _) = F::raw_to(&lx)?;
            let d = rf.degree();
            let plen = b1.len() / d;
            let p = rf.p();
            let r = (BigUint::one() << (8 * plen)) % p;
            let f = rf.prime_field();
            let mut alias = vec![];
            let mut understood = b1.len() % d == 0;
            let mut changed = false;
            for i in 0..d {
                let m = BigUint::from_bytes_le(&b1[i * plen..(i + 1) * plen]);
                understood &= m < *p && (m == f.mul(&x[i], &r) || m == x[i]);
                let m2 = &m + p;
                // alias the coefficient selected by the second argument
                if i as u64 == a_words(a, 1)[0] % d as u64 && m2.bits() <= 8 * plen as u64 {
                    alias.extend(to_le(&m2, plen));
                    changed = true;
                } else {
                    alias.extend(to_le(&m, plen));
                }
            }
            if !understood || !changed {
                return None;
            }
            let (r1, r2) = F::raw_from(&alias)?;
            let eq_canonical = r1.map(|v| format!("decoded value == canonical element: {}", v == lx)).unwrap_or_default();
            out.push(judged(
                "raw_checked/from_raw_bytes",
                r1.is_none(),
                Out::T(vec![Out::Y(alias.clone()), Out::O(r1.map(|v| v.to_c())), Out::S(eq_canonical)]),
                "None: the internal integer is >= p (second encoding of the same residue)",
            ));
            out.push(judged(
                "raw_checked/read_raw",
                r2.is_none(),
                Out::T(vec![Out::Y(alias), Out::O(r2.map(|v| v.to_c()))]),
                "Err: the internal integer is >= p (second encoding of the same residue)",
            ));
        }
        "json" => {
            let x = a_el(a, 0);
            let s = F::to_json(&F::from_c(x))?;
            let back = match &s {
                Ok(s) => F::from_json(s)?.map(|v| v.to_c()).map_err(|e| format!("{s}: {e}")),
                Err(e) => Err(e.clone()),
            };
            let got = match back {
                Ok(v) => Out::E(v),
                Err(e) => Out::S(e),
            };
            out.push(eq("json_roundtrip", got, Out::E(x.clone())));
        }
        "const_ext" => {
            for (name, v) in F::consts() {
                let label = intern(format!("const/{name}"));
                match name {
                    "ZERO" => out.push(eq(label, Out::E(v), Out::E(rf.zero()))),
                    "ONE" => out.push(eq(label, Out::E(v), Out::E(rf.one()))),
                    "TWO_INV" => {
                        let two = rf.from_int(&BigUint::from(2u32));
                        out.push(judged(label, rf.mul(&v, &two) == rf.one(), Out::E(v), "2 * TWO_INV = 1"));
                    }
                    "ZETA" => {
                        let c = rf.mul(&rf.square(&v), &v);
                        out.push(judged(label, c == rf.one() && v != rf.one(), Out::E(v), "ZETA^3 = 1, ZETA != 1"));
                    }
                    "NON_RESIDUE" => {
                        let want = if rf.degree() == 1 { rf.neg(&rf.one()) } else { next_nonresidue(F::NAME, rf) };
                        out.push(eq(label, Out::E(v), Out::E(want)));
                    }
                    _ => {}
                }
            }
        }
        _ => return None,
    }
    Some(out)
}

/// Small prime factors (< 2^16) of `n` and the remaining cofactor.
fn small_factors(n: &BigUint) -> (Vec<u32>, BigUint) {
    let mut n = n.clone();
    let mut fs = vec![];
    for q in 2u32..65536 {
        if (&n % q).is_zero() {
            fs.push(q);
            while (&n % q).is_zero() {
                n /= q;
            }
        }
    }
    (fs, n)
}

/// Operations of `ff::PrimeField` (prime fields only).
fn exec_prime<F: Lf + PrimeField>(op: &str, a: &[Arg]) -> Option<Vec<Cmp>> {
    let rf = F::rf();
    let f = rf.prime_field();
    let p = &f.p;
    let mut out = vec![];
    let le = detect_le::<F>();
    let int_of = |b: &[u8]| if le { BigUint::from_bytes_le(b) } else { BigUint::from_bytes_be(b) };
    match op {
        "from_repr" => {
            let b = a_bytes(a, 0);
            let v = int_of(b);
            let want = (v < *p).then(|| vec![v]);
            let got = ct(F::from_repr(repr_of::<F>(b)));
            out.push(eq("from_repr", Out::O(got.map(|x| x.to_c())), Out::O(want.clone())));
            if let Some(x) = got {
                out.push(eq("from_repr/to_repr", Out::Y(x.to_repr().as_ref().to_vec()), Out::Y(b.clone())));
            }
            let got = F::from_repr_vartime(repr_of::<F>(b));
            out.push(eq("from_repr_vartime", Out::O(got.map(|x| x.to_c())), Out::O(want)));
        }
        "from_u64" => {
            let w = a_words(a, 0);
            out.push(eq("from_u64", Out::E(F::from(w[0]).to_c()), Out::E(vec![BigUint::from(w[0]) % p])));
        }
        "from_u128" => {
            let w = a_words(a, 0);
            let v = (w[0] as u128) | ((w[1] as u128) << 64);
            out.push(eq("from_u128", Out::E(F::from_u128(v).to_c()), Out::E(vec![BigUint::from(v) % p])));
        }
        "is_odd" => {
            let x = a_el(a, 0);
            let lx = F::from_c(x);
            out.push(eq("is_odd", Out::B(bool::from(lx.is_odd())), Out::B(x[0].bit(0))));
            out.push(eq("is_even", Out::B(bool::from(lx.is_even())), Out::B(!x[0].bit(0))));
        }
        "const" => {
            let c = |x: F| x.to_c()[0].clone();
            let e1 = |v: BigUint| Out::E(vec![v]);
            // MODULUS: hexadecimal, optional 0x
            let ms = F::MODULUS.trim_start_matches("0x").trim_start_matches("0X");
            match BigUint::parse_bytes(ms.as_bytes(), 16) {
                Some(m) => out.push(eq("const/MODULUS", e1(m), e1(p.clone()))),
                None => out.push(judged("const/MODULUS", false, Out::S(F::MODULUS.into()), "hexadecimal modulus")),
            }
            out.push(eq("const/NUM_BITS", Out::I(F::NUM_BITS as i64), Out::I(p.bits() as i64)));
            out.push(eq("const/CAPACITY", Out::I(F::CAPACITY as i64), Out::I(p.bits() as i64 - 1)));
            let (s, t) = f.two_adicity();
            out.push(eq("const/S", Out::I(F::S as i64), Out::I(s as i64)));
            out.push(eq("const/ZERO", e1(c(F::ZERO)), e1(BigUint::zero())));
            out.push(eq("const/ONE", e1(c(F::ONE)), e1(BigUint::one())));
            let two_inv = c(F::TWO_INV);
            out.push(judged("const/TWO_INV", f.mul(&two_inv, &BigUint::from(2u32)).is_one(), e1(two_inv), "2 * TWO_INV = 1"));
            let g = c(F::MULTIPLICATIVE_GENERATOR);
            out.push(judged("const/MULTIPLICATIVE_GENERATOR", f.legendre(&g) == -1, e1(g.clone()), "a quadratic non-residue"));
            // generator: g^((p-1)/q) != 1 for every small prime factor q of p-1 (always includes 2)
            let (qs, _cof) = small_factors(&(p - 1u32));
            let bad: Vec<u32> = qs.iter().copied().filter(|q| f.pow(&g, &((p - 1u32) / *q)).is_one()).collect();
            out.push(judged(
                "const/MULTIPLICATIVE_GENERATOR/order",
                bad.is_empty(),
                Out::S(format!("g^((p-1)/q) = 1 for q in {bad:?}")),
                "g^((p-1)/q) != 1 for every prime q < 2^16 dividing p-1",
            ));
            // the equations about ROOT_OF_UNITY and DELTA use the S declared by the type, so that a
            // wrong S is reported once (const/S) and not again through every dependent constant
            let rou = c(F::ROOT_OF_UNITY);
            out.push(judged(
                "const/ROOT_OF_UNITY",
                f.has_order_pow2(&rou, F::S),
                e1(rou.clone()),
                "multiplicative order exactly 2^S (S as declared by the type)",
            ));
            let rou_inv = c(F::ROOT_OF_UNITY_INV);
            out.push(judged(
                "const/ROOT_OF_UNITY_INV",
                f.mul(&rou, &rou_inv).is_one(),
                e1(rou_inv),
                "ROOT_OF_UNITY * ROOT_OF_UNITY_INV = 1",
            ));
            let delta = c(F::DELTA);
            out.push(eq("const/DELTA", e1(delta), e1(f.pow(&g, &(BigUint::one() << F::S)))));
            let _ = t;
        }
        _ => return None,
    }
    Some(out)
}

/// `WithSmallOrderMulGroup<3>::ZETA` of prime fields that have it.
fn exec_zeta<F: Lf + WithSmallOrderMulGroup<3>>() -> Vec<Cmp> {
    let f = F::rf().prime_field();
    let z = F::ZETA.to_c()[0].clone();
    let ok = f.mul(&f.square(&z), &z).is_one() && !z.is_one();
    vec![judged("const/ZETA", ok, Out::E(vec![z]), "ZETA^3 = 1, ZETA != 1")]
}

/// Dispatch of one case of a type. `prime`/`zeta` are set by the instantiation macros.
type ExecFn = fn(&str, &[Arg]) -> Option<Vec<Cmp>>;

fn exec_ext_type<F: Lf>(op: &str, a: &[Arg]) -> Option<Vec<Cmp>> {
    exec_field::<F>(op, a)
}
fn exec_prime_type<F: Lf + PrimeField>(op: &str, a: &[Arg]) -> Option<Vec<Cmp>> {
    exec_field::<F>(op, a).or_else(|| exec_prime::<F>(op, a))
}
fn exec_prime_zeta_type<F: Lf + PrimeField + WithSmallOrderMulGroup<3>>(
    op: &str,
    a: &[Arg],
) -> Option<Vec<Cmp>> {
    if op == "const_zeta" {
        return Some(exec_zeta::<F>());
    }
    exec_prime_type::<F>(op, a)
}

/// Static description of a type for planning and dispatch.
#[derive(Clone)]
struct Ty {
    name: &'static str,
    src: &'static str,
    rf: &'static RefField,
    exec: ExecFn,
    prime: bool,
    zeta: bool,
    repr_len: usize,
    repr_le: bool,
    uniform_lens: &'static [usize],
    extras: &'static [&'static str],
    /// (name, len, has_dec, has_enc, little-endian, parts)
    codecs: Vec<(&'static str, usize, bool, bool, bool, usize)>,
    has_legendre: bool,
    has_raw: bool,
    has_json: bool,
    has_from_raw: bool,
    has_consts: bool,
    /// backed by blst (weighted up in the sanitizer stage)
    blst: bool,
}

fn ty_common<F: Lf>(exec: ExecFn) -> Ty {
    let one = F::ONE;
    Ty {
        name: F::NAME,
        src: F::SRC,
        rf: F::rf(),
        exec,
        prime: false,
        zeta: false,
        repr_len: 0,
        repr_le: true,
        uniform_lens: F::uniform_lens(),
        extras: F::extras(),
        codecs: F::codecs().iter().map(|c| (c.name, c.len, c.dec.is_some(), c.enc.is_some(), c.le, c.parts)).collect(),
        has_legendre: F::legendre(&one).is_some(),
        has_raw: F::raw_to(&one).is_some(),
        has_json: F::to_json(&one).is_some(),
        has_from_raw: F::from_raw_limbs(&[0, 0, 0, 0]).is_some(),
        has_consts: !F::consts().is_empty(),
        blst: F::NAME.starts_with("bls12_381"),
    }
}
fn ty_ext<F: Lf>() -> Ty {
    ty_common::<F>(exec_ext_type::<F>)
}
fn ty_prime<F: Lf + PrimeField>() -> Ty {
    let mut t = ty_common::<F>(exec_prime_type::<F>);
    t.prime = true;
    t.repr_len = F::Repr::default().as_ref().len();
    t.repr_le = detect_le::<F>();
    t
}
fn ty_prime_zeta<F: Lf + PrimeField + WithSmallOrderMulGroup<3>>() -> Ty {
    let mut t = ty_prime::<F>();
    t.exec = exec_prime_zeta_type::<F>;
    t.zeta = true;
    t
}

fn all_types() -> Vec<Ty> {
    vec![
        ty_prime_zeta::<bls::Fq>(),
        ty_prime_zeta::<bls::Fp>(),
        ty_ext::<bls::Fp2>(),
        ty_ext::<bls::Fp6>(),
        ty_ext::<bls::Fp12>(),
        ty_prime::<midnight_curves::Fr>(),
        ty_prime::<k2::Fp>(),
        ty_prime::<k2::Fq>(),
        ty_prime_zeta::<c25519::Fp>(),
        ty_prime::<c25519::Scalar>(),
        ty_prime_zeta::<bn::Fq>(),
        ty_prime_zeta::<bn::Fr>(),
        ty_ext::<bn::Fq2>(),
        ty_ext::<bn::Fq6>(),
        ty_ext::<bn::Fq12>(),
    ]
}

// =============================================================================================
// (4) operand classes and generators
// =============================================================================================

/// Boundary values of GF(p), by class. Independent of the seed.
fn prime_classes(p: &BigUint) -> Vec<(&'static str, Vec<BigUint>)> {
    let n = ((p.bits() + 63) / 64) as usize; // 64-bit limbs
    let one = BigUint::one();
    let r = (&one << (64 * n)) % p; // Montgomery R as a *value*
    let r_inv = rfm::RefPrime::new(p.clone()).invert(&r).unwrap();
    let m = |v: BigUint| v % p;
    let mut pow64 = vec![];
    let mut allones = vec![];
    let mut pminus = vec![];
    for k in 1..=n {
        let t = &one << (64 * k);
        pow64.push(m(&t - 1u32));
        pow64.push(m(t.clone()));
        pow64.push(m(&t + 1u32));
        allones.push(m(&t - 1u32));
        if &t < p {
            pminus.push(p - &t);
            pminus.push(p - &t - 1u32);
            pminus.push(m(p - &t + 1u32));
        }
    }
    allones.push(m((&one << p.bits()) - 1u32));
    allones.push(m((&one << (p.bits() - 1)) - 1u32));
    let mut v = vec![
        ("zero", vec![BigUint::zero()]),
        ("one", vec![one.clone()]),
        ("minus_one", vec![p - 1u32]),
        ("two", vec![BigUint::from(2u32), p - 2u32, BigUint::from(3u32)]),
        ("pow64", pow64),
        ("half", vec![(p - 1u32) >> 1, (p + 1u32) >> 1]),
        ("mont", vec![r.clone(), m(&r * &r), m(&r * &r * &r), r_inv.clone()]),
        ("allones", allones),
        ("p_minus_pow64", pminus),
        // values whose Montgomery form (v·R mod p) is extreme: p−1, all-ones, 2^64−1, 2^(64(n−1))
        (
            "mont_pattern",
            vec![
                m((p - 1u32) * &r_inv),
                m(m((&one << (64 * n)) - 1u32) * &r_inv),
                m(BigUint::from(u64::MAX) * &r_inv),
                m((&one << (64 * (n - 1))) * &r_inv),
            ],
        ),
    ];
    for (_, vals) in v.iter_mut() {
        vals.sort();
        vals.dedup();
    }
    v
}

/// Fixed operands of a type: (class name, element). `cap` bounds the values taken per class.
fn fixed_operands(rf: &RefField, cap: usize) -> Vec<(&'static str, El)> {
    let p = rf.p();
    let d = rf.degree();
    let pc = prime_classes(p);
    let mut out = vec![];
    if d == 1 {
        for (name, vals) in &pc {
            for v in vals.iter().take(cap) {
                out.push((*name, vec![v.clone()]));
            }
        }
        return out;
    }
    // towers: constants, every coefficient from one class (two rotations), sparse elements
    out.push(("zero", rf.zero()));
    out.push(("one", rf.one()));
    out.push(("minus_one", rf.neg(&rf.one())));
    for (name, vals) in pc.iter().skip(3) {
        for rot in 0..2usize.min(cap) {
            let e: El = (0..d).map(|i| vals[(i + rot * 3) % vals.len()].clone()).collect();
            out.push((*name, e));
        }
        // embedded in the prime field
        out.push(("embedded", rf.from_int(&vals[0])));
    }
    for i in 0..d {
        if cap < 2 && i % 3 != 0 {
            continue;
        }
        let mut e = rf.zero();
        e[i] = BigUint::one();
        out.push(("sparse", e.clone()));
        e[i] = p - 1u32;
        out.push(("sparse", e));
    }
    // only the last coefficient block non-zero (exercises is_zero / inversion corner cases)
    let mut e = rf.zero();
    e[d - 1] = BigUint::from(7u32);
    e[d - 2] = p - 3u32;
    out.push(("sparse_top", e));
    out
}

/// A random coefficient: uniform, limb pattern, or near a boundary.
fn rand_coeff(p: &BigUint, rng: &mut ChaCha8Rng) -> BigUint {
    let n = ((p.bits() + 63) / 64) as usize;
    match rng.gen_range(0..10) {
        0..=5 => rng.gen_biguint_below(p),
        6 | 7 => {
            // limbs from {0, MAX, 1, MAX−1, random}
            let mut b = vec![];
            for _ in 0..n {
                let l: u64 = match rng.gen_range(0..5) {
                    0 => 0,
                    1 => u64::MAX,
                    2 => 1,
                    3 => u64::MAX - 1,
                    _ => rng.next_u64(),
                };
                b.extend_from_slice(&l.to_le_bytes());
            }
            BigUint::from_bytes_le(&b) % p
        }
        8 => {
            let s = BigUint::from(rng.gen_range(0u64..1 << 16));
            if rng.gen() { s } else { p - 1u32 - s }
        }
        _ => {
            // Montgomery form is a limb pattern
            let r = (BigUint::one() << (64 * n)) % p;
            let r_inv = rfm::RefPrime::new(p.clone()).invert(&r).unwrap();
            let l = BigUint::from(rng.next_u64()) << (64 * rng.gen_range(0..n));
            (l % p) * r_inv % p
        }
    }
}
fn rand_el(rf: &RefField, rng: &mut ChaCha8Rng) -> El {
    let d = rf.degree();
    let mut e: El = (0..d).map(|_| rand_coeff(rf.p(), rng)).collect();
    // towers: sometimes zero out a random subset of coefficients
    if d > 1 && rng.gen_range(0..4) == 0 {
        for c in e.iter_mut() {
            if rng.gen() {
                *c = BigUint::zero();
            }
        }
    }
    e
}

/// Byte strings around the modulus for a decoder of `len` bytes made of `parts` coefficients.
fn decoder_inputs(p: &BigUint, len: usize, parts: usize, le: bool) -> Vec<(&'static str, Vec<u8>)> {
    let plen = len / parts;
    let enc = |v: &BigUint| if le { to_le(v, plen) } else { to_be(v, plen) };
    let max = (BigUint::one() << (8 * plen)) - 1u32;
    let mut singles: Vec<(&'static str, BigUint)> = vec![
        ("zero", BigUint::zero()),
        ("one", BigUint::one()),
        ("p-2", p - 2u32),
        ("p-1", p - 1u32),
        ("p", p.clone()),
        ("p+1", p + 1u32),
        ("p+2", p + 2u32),
        ("2^bits-1", (BigUint::one() << p.bits()) - 1u32),
        ("2^bits", BigUint::one() << p.bits()),
        ("max", max.clone()),
        ("2p", p * 2u32),
        ("2p-1", p * 2u32 - 1u32),
    ];
    for k in 0..plen / 8 {
        let l = BigUint::one() << (64 * k);
        singles.push(("p+limb", p + &l));
        if *p > l {
            singles.push(("p-limb", p - &l));
        }
        // top bit of the limb flipped
        singles.push(("p^limbtop", p ^ (BigUint::one() << (64 * k + 63))));
    }
    let singles: Vec<(&'static str, BigUint)> =
        singles.into_iter().filter(|(_, v)| *v <= max).collect();
    let mut out = vec![];
    if parts == 1 {
        for (n, v) in &singles {
            out.push((*n, enc(v)));
        }
    } else {
        // every part in turn takes the boundary value, the others a canonical value
        for i in 0..parts {
            for (n, v) in &singles {
                let mut b = vec![];
                for j in 0..parts {
                    b.extend(if i == j { enc(v) } else { enc(&BigUint::from(5u32 + j as u32)) });
                }
                out.push((*n, b));
            }
        }
        let b: Vec<u8> = (0..parts).flat_map(|_| enc(p)).collect();
        out.push(("p", b));
    }
    out
}
fn rand_decoder_input(p: &BigUint, len: usize, parts: usize, le: bool, rng: &mut ChaCha8Rng) -> Vec<u8> {
    let plen = len / parts;
    let enc = |v: &BigUint| if le { to_le(v, plen) } else { to_be(v, plen) };
    let max = (BigUint::one() << (8 * plen)) - 1u32;
    (0..parts)
        .flat_map(|_| {
            let v = match rng.gen_range(0..6) {
                0 | 1 => rng.gen_biguint_below(p),
                2 => rng.gen_biguint_below(&(&max + 1u32)),
                3 => (p + BigUint::from(rng.gen_range(0u64..1 << 20))).min(max.clone()),
                4 => p - 1u32 - BigUint::from(rng.gen_range(0u64..1 << 20)),
                _ => {
                    // p with one random bit flipped
                    let v = p ^ (BigUint::one() << rng.gen_range(0..8 * plen as u64));
                    v.min(max.clone())
                }
            };
            enc(&v)
        })
        .collect()
}

/// 64-/48-/96-byte patterns for the wide reduction.
fn uniform_inputs(p: &BigUint, len: usize) -> Vec<(&'static str, Vec<u8>)> {
    let half = len / 2;
    let le = |v: BigUint| to_le(&v, len);
    let max = (BigUint::one() << (8 * len)) - 1u32;
    let fit = |v: BigUint| if v > max { v % (&max + 1u32) } else { v };
    let mut out = vec![
        ("zero", vec![0u8; len]),
        ("all_ones", vec![0xffu8; len]),
        ("low_half_ones", [vec![0xffu8; half], vec![0u8; len - half]].concat()),
        ("high_half_ones", [vec![0u8; half], vec![0xffu8; len - half]].concat()),
        ("low32_ones", [vec![0xffu8; 32.min(len)], vec![0u8; len - 32.min(len)]].concat()),
        ("p", le(p.clone())),
        ("p-1", le(p - 1u32)),
        ("p+1", le(p + 1u32)),
        ("p<<256", le(fit(p << 256))),
        ("(p-1)<<256", le(fit((p - 1u32) << 256))),
        ("p<<256|p", le(fit((p << 256) + p))),
        ("p*p", le(fit(p * p))),
        ("p*p-1", le(fit(p * p - 1u32))),
        ("2^256", le(fit(BigUint::one() << 256))),
        ("2^256-1", le(fit((BigUint::one() << 256) - 1u32))),
        ("2^(8len)-p", le(&max + 1u32 - p)),
    ];
    for k in 0..len / 8 {
        out.push(("limb_ones", le(BigUint::from(u64::MAX) << (64 * k))));
    }
    out
}

// =============================================================================================
// (5) driver
// =============================================================================================

/// Worker-local report with a cheap (type, label) → count matrix.
struct Part {
    rep: Report,
    m: HashMap<(&'static str, &'static str), u64>,
    samples_left: usize,
}
impl Part {
    fn new(rep: &Report) -> Part {
        Part {
            rep: rep.fork(),
            m: HashMap::new(),
            samples_left: 1,
        }
    }
    fn bump(&mut self, ty: &'static str, label: &'static str) {
        *self.m.entry((ty, label)).or_insert(0) += 1;
    }
}

fn witness(ty: &Ty, op: &str, classes: (&str, &str), args: &[Arg]) -> Json {
    json!({
        "field": ty.name,
        "op": op,
        "operand_classes": [classes.0, classes.1],
        "args": args.iter().map(|a| a.j()).collect::<Vec<_>>(),
        "modulus": to_hex(ty.rf.p()),
    })
}
fn is_harness_file(f: &str) -> bool {
    f.contains("/verif/harness") || f.starts_with("src/bin/c10.rs") || f.starts_with("src/refs/") || f.contains("harness/src/")
}

/// Runs one case: library and reference inside one `catch`, one comparison per label.
fn run_case(part: &mut Part, ty: &Ty, op: &'static str, classes: (&'static str, &'static str), args: &[Arg]) {
    let first = catch_any(|| (ty.exec)(op, args));
    let mut oph = 0xcbf29ce484222325u64;
    args.iter().for_each(|a| a.hash_into(&mut oph));
    match first {
        Ok(None) => part.bump(ty.name, intern(format!("{op}:not_applicable"))),
        Ok(Some(cmps)) => {
            for c in cmps {
                part.rep.eval();
                part.bump(ty.name, c.label);
                part.rep.nontrivial(&(ty.name, c.label, classes.0, classes.1, oph & 0xff));
                if part.samples_left > 0 {
                    part.samples_left -= 1;
                    part.rep.sample(json!({ "case": witness(ty, op, classes, args), "label": c.label, "library": c.got.j(), "reference": c.want.j() }));
                }
                if c.pass {
                    continue;
                }
                // re-execute once before reporting
                let again = catch_any(|| (ty.exec)(op, args));
                let still = match &again {
                    Ok(Some(v)) => v.iter().any(|d| d.label == c.label && !d.pass && d.got == c.got),
                    _ => false,
                };
                let mut w = witness(ty, op, classes, args);
                w["label"] = json!(c.label);
                w["library"] = c.got.j();
                w["reference"] = c.want.j();
                if still {
                    part.rep.violation(
                        &format!("C10/{}/{}/{}@{}", ty.name, c.label, c.kind, ty.src),
                        &format!("{} {}: library {} ; reference {}", ty.name, c.label, short(&c.got.j()), short(&c.want.j())),
                        w,
                    );
                } else {
                    part.rep.inconclusive(&format!("{} {}: mismatch did not reproduce", ty.name, c.label));
                }
            }
        }
        Err(p) => {
            part.rep.eval();
            let exec_op = op;
            if is_harness_file(&p.file) {
                part.bump(ty.name, intern(format!("{op}:harness_panic")));
                part.rep.inconclusive(&format!("harness panic in {} {op}: {} at {}", ty.name, p.message, p.location));
                return;
            }
            if p.message == "not implemented" {
                // `unimplemented!()` in the repository: a declared omission, counted, not failed
                part.bump(ty.name, intern(format!("{op}:declared_unimplemented")));
                return;
            }
            // refine the operation name by the codec / extra operation it addresses
            let op: &'static str = match (op, args.first()) {
                ("dec", Some(Arg::W(w))) | ("enc", Some(Arg::W(w))) => intern(format!("{op}/{}", ty.codecs[w[0] as usize].0)),
                ("extra", _) => match args.get(1) {
                    Some(Arg::W(w)) => ty.extras[w[0] as usize],
                    _ => op,
                },
                _ => op,
            };
            part.bump(ty.name, intern(format!("{op}:panic")));
            part.rep.nontrivial(&(ty.name, op, "panic", classes.0, classes.1));
            let again = catch_any(|| (ty.exec)(exec_op, args));
            let mut w = witness(ty, exec_op, classes, args);
            w["panic"] = json!({ "message": p.message, "location": p.location });
            match again {
                Err(p2) if p2.message == p.message => part.rep.violation(
                    &format!("C10/{}/{}/panic@{}", ty.name, op, ty.src),
                    &format!("{} {op} panicked: {} at {}", ty.name, p.message, repo_file(&p.location)),
                    w,
                ),
                _ => part.rep.inconclusive(&format!("{} {op}: panic did not reproduce", ty.name)),
            }
        }
    }
}
fn short(j: &Json) -> String {
    let s = j.to_string();
    if s.len() > 200 {
        format!("{}…", &s[..200])
    } else {
        s
    }
}

/// Budgets (logical; functions of the tier / stage only).
#[derive(Clone, Copy)]
struct Plan {
    /// values taken per boundary class
    cap: usize,
    /// keep every `stride`-th pair of fixed operands in the all-pairs sweeps
    stride: usize,
    /// base number of random cases per (type, op)
    base: usize,
    /// cases per task
    chunk: usize,
    /// keep every `thin`-th item in the unary / decoder / pattern sweeps
    thin: usize,
    san: bool,
}

#[derive(Clone)]
enum Kind {
    FixedBinary(&'static str),
    FixedUnary,
    FixedMisc,
    FixedPow,
    FixedFrobenius,
    Random(&'static str, usize, usize), // op, chunk index, cases
}
struct Task {
    ty: Ty,
    kind: Kind,
}

fn op_cases(op: &str, d: usize, base: usize) -> usize {
    let n = match op {
        "mul" | "square" | "cube" | "sum" | "product" | "extra_cheap" => base as f64 / (1.0 + d as f64 / 3.0),
        "invert" | "batch_invert" | "sqrt" | "sqrt_ratio" | "legendre" => base as f64 / (2.0 * d as f64),
        "pow" => base as f64 / (2.0 * (d * d) as f64),
        "frobenius" => base as f64 / (20.0 * (d * d) as f64),
        _ => base as f64,
    };
    (n.ceil() as usize).max(2)
}

fn exp_words(e: &BigUint) -> Vec<u64> {
    let mut w = e.to_u64_digits();
    while w.len() < 4 {
        w.push(0);
    }
    w
}

const UNARY_OPS: [&str; 9] = ["neg", "square", "double", "cube", "invert", "is_zero", "roundtrip", "sqrt", "legendre"];

fn frob_index(ty: &Ty) -> Option<usize> {
    ty.extras.iter().position(|e| *e == "frobenius_map")
}

fn plan_tasks(types: &[Ty], plan: Plan) -> Vec<Task> {
    let mut tasks = vec![];
    for ty in types {
        let d = ty.rf.degree();
        let push = |tasks: &mut Vec<Task>, kind| tasks.push(Task { ty: ty.clone(), kind });
        for op in ["add", "sub", "mul", "eq", "sqrt_ratio"] {
            push(&mut tasks, Kind::FixedBinary(op));
        }
        push(&mut tasks, Kind::FixedUnary);
        push(&mut tasks, Kind::FixedMisc);
        push(&mut tasks, Kind::FixedPow);
        if frob_index(ty).is_some() {
            push(&mut tasks, Kind::FixedFrobenius);
        }
        let mut rand_ops: Vec<(&'static str, usize)> = vec![];
        for op in ["add", "sub", "eq", "neg", "double", "is_zero", "roundtrip"] {
            rand_ops.push((op, op_cases(op, d, plan.base)));
        }
        for op in ["mul", "square", "cube", "sum", "product"] {
            rand_ops.push((op, op_cases(op, d, plan.base)));
        }
        for op in ["invert", "batch_invert", "sqrt", "sqrt_ratio"] {
            rand_ops.push((op, op_cases(op, d, plan.base)));
        }
        rand_ops.push(("pow", op_cases("pow", d, plan.base)));
        if ty.has_legendre {
            rand_ops.push(("legendre", op_cases("legendre", d, plan.base)));
        }
        if ty.prime {
            for op in ["from_repr", "from_u64", "from_u128", "is_odd"] {
                rand_ops.push((op, plan.base));
            }
        }
        if !ty.uniform_lens.is_empty() {
            rand_ops.push(("uniform", plan.base));
        }
        if ty.has_from_raw {
            rand_ops.push(("from_raw", plan.base));
        }
        if !ty.codecs.is_empty() {
            rand_ops.push(("dec", plan.base));
            rand_ops.push(("enc", plan.base));
        }
        if ty.has_raw {
            rand_ops.push(("raw", plan.base));
            rand_ops.push(("raw_alias", plan.base / 4 + 1));
        }
        if ty.has_json {
            rand_ops.push(("json", plan.base / 2 + 1));
        }
        if !ty.extras.is_empty() {
            rand_ops.push(("extra", op_cases("extra_cheap", d, plan.base)));
            if frob_index(ty).is_some() {
                rand_ops.push(("extra_frobenius", op_cases("frobenius", d, plan.base)));
            }
        }
        for (op, n) in rand_ops {
            // the sanitizer stage favours the blst-backed types
            let n = if plan.san && !ty.blst { (n / 2).max(1) } else { n };
            let mut left = n;
            let mut i = 0;
            while left > 0 {
                let c = left.min(plan.chunk);
                push(&mut tasks, Kind::Random(op, i, c));
                left -= c;
                i += 1;
            }
        }
    }
    tasks
}

fn small_list(fixed: &[(&'static str, El)], rf: &RefField) -> Vec<Vec<El>> {
    let take = |k: usize| fixed.iter().take(k).map(|(_, e)| e.clone()).collect::<Vec<_>>();
    let nz: Vec<El> = fixed.iter().filter(|(_, e)| !rf.is_zero(e)).take(5).map(|(_, e)| e.clone()).collect();
    let mut with_zeros = vec![rf.zero()];
    with_zeros.extend(nz.iter().cloned());
    with_zeros.insert(3.min(with_zeros.len()), rf.zero());
    with_zeros.push(rf.zero());
    let last = fixed.last().map(|(_, e)| e.clone()).unwrap_or_else(|| rf.one());
    let top = vec![rf.one(), last, rf.from_int(&BigUint::from(2u32))];
    vec![top, vec![], vec![rf.zero()], vec![rf.one()], vec![rf.zero(), rf.zero()], take(3), take(9), nz, with_zeros]
}

fn run_task(rep: &Report, task: &Task, plan: Plan) -> Part {
    let mut part = Part::new(rep);
    let ty = &task.ty;
    let rf = ty.rf;
    let p = rf.p();
    let d = rf.degree();
    let fixed = fixed_operands(rf, plan.cap);
    match &task.kind {
        Kind::FixedBinary(op) => {
            let mut k = 0usize;
            for (ca, a) in &fixed {
                for (cb, b) in &fixed {
                    k += 1;
                    // sqrt_ratio is expensive on the reference side: thinner sweep
                    let stride = if *op == "sqrt_ratio" { plan.stride * (4 * d * d) } else { plan.stride };
                    if k % stride != 0 {
                        continue;
                    }
                    run_case(&mut part, ty, op, (ca, cb), &[Arg::E(a.clone()), Arg::E(b.clone())]);
                }
            }
        }
        Kind::FixedUnary => {
            for (i, (ca, a)) in fixed.iter().enumerate().step_by(plan.thin) {
                for op in UNARY_OPS {
                    if op == "legendre" && !ty.has_legendre {
                        continue;
                    }
                    run_case(&mut part, ty, op, (ca, "-"), &[Arg::E(a.clone())]);
                }
                if ty.prime {
                    run_case(&mut part, ty, "is_odd", (ca, "-"), &[Arg::E(a.clone())]);
                }
                if ty.has_raw {
                    run_case(&mut part, ty, "raw", (ca, "-"), &[Arg::E(a.clone())]);
                    for c in 0..d.min(2) {
                        run_case(&mut part, ty, "raw_alias", (ca, "-"), &[Arg::E(a.clone()), Arg::W(vec![(c * (d - 1)) as u64])]);
                    }
                }
                if ty.has_json {
                    run_case(&mut part, ty, "json", (ca, "-"), &[Arg::E(a.clone())]);
                }
                for (ci, c) in ty.codecs.iter().enumerate() {
                    if c.3 {
                        run_case(&mut part, ty, "enc", (ca, "-"), &[Arg::W(vec![ci as u64]), Arg::E(a.clone())]);
                    }
                }
                for (ei, e) in ty.extras.iter().enumerate() {
                    if *e == "frobenius_map" {
                        continue;
                    }
                    let _ = i;
                    run_case(&mut part, ty, "extra", (ca, "-"), &[Arg::E(a.clone()), Arg::W(vec![ei as u64, 0])]);
                }
            }
        }
        Kind::FixedFrobenius => {
            let ei = frob_index(ty).unwrap() as u64;
            let ks: &[u64] = if plan.san { &[0, 1, 4] } else { &[0, 1, 2, 3, 4, 5, 6, 7, 11, 12, 13] };
            let picks: Vec<&(&'static str, El)> = fixed
                .iter()
                .filter(|(c, _)| matches!(*c, "minus_one" | "mont" | "sparse_top" | "half"))
                .take(if plan.san { 1 } else if d >= 12 { 2 } else { 4 })
                .collect();
            for (ca, a) in picks {
                for k in ks {
                    run_case(&mut part, ty, "extra", (ca, "-"), &[Arg::E(a.clone()), Arg::W(vec![ei, *k])]);
                }
            }
        }
        Kind::FixedPow => {
            let mut exps: Vec<BigUint> = vec![
                BigUint::zero(),
                BigUint::one(),
                BigUint::from(2u32),
                BigUint::from(3u32),
                p - 2u32,
                p - 1u32,
                p.clone(),
                p + 1u32,
                BigUint::one() << 64,
                (BigUint::one() << 256) - 1u32,
            ];
            if plan.san {
                exps.truncate(6);
            }
            let mut seen = vec![];
            for (ca, a) in &fixed {
                if seen.contains(ca) {
                    continue;
                }
                seen.push(*ca);
                if plan.san && seen.len() > 3 {
                    break;
                }
                for e in &exps {
                    run_case(&mut part, ty, "pow", (ca, "-"), &[Arg::E(a.clone()), Arg::W(exp_words(e))]);
                }
            }
        }
        Kind::FixedMisc => {
            if ty.prime {
                run_case(&mut part, ty, "const", ("-", "-"), &[]);
                if ty.zeta {
                    run_case(&mut part, ty, "const_zeta", ("-", "-"), &[]);
                }
                for (c, b) in decoder_inputs(p, ty.repr_len, 1, ty.repr_le).into_iter().step_by(plan.thin) {
                    run_case(&mut part, ty, "from_repr", (c, "-"), &[Arg::B(b)]);
                }
                for w in [0u64, u64::MAX, 1, 2, u64::MAX - 1, 1 << 63, 0xffff_ffff, 1 << 32].into_iter().take(if plan.san { 2 } else { 8 }) {
                    run_case(&mut part, ty, "from_u64", ("-", "-"), &[Arg::W(vec![w])]);
                    for hi in [0u64, 1, u64::MAX, 1 << 63] {
                        run_case(&mut part, ty, "from_u128", ("-", "-"), &[Arg::W(vec![w, hi])]);
                    }
                }
            }
            if ty.has_consts {
                run_case(&mut part, ty, "const_ext", ("-", "-"), &[]);
            }
            for (ci, c) in ty.codecs.iter().enumerate() {
                if !c.2 {
                    continue;
                }
                for (cl, b) in decoder_inputs(p, c.1, c.5, c.4).into_iter().step_by(plan.thin) {
                    run_case(&mut part, ty, "dec", (cl, "-"), &[Arg::W(vec![ci as u64]), Arg::B(b)]);
                }
            }
            for len in ty.uniform_lens {
                for (cl, b) in uniform_inputs(p, *len).into_iter().step_by(plan.thin) {
                    run_case(&mut part, ty, "uniform", (cl, "-"), &[Arg::B(b)]);
                }
            }
            if ty.has_from_raw {
                let pl = exp_words(p);
                let mut pats: Vec<Vec<u64>> = vec![vec![0; 4], vec![1, 0, 0, 0], pl.clone(), vec![u64::MAX; 4], exp_words(&(p - 1u32)), exp_words(&(p + 1u32)), exp_words(&(p * 2u32 % (BigUint::one() << 256)))];
                for i in 0..4 {
                    let mut l = vec![0u64; 4];
                    l[i] = u64::MAX;
                    pats.push(l.clone());
                    l = pl.clone();
                    l[i] ^= 1 << 63;
                    pats.push(l);
                }
                for l in pats.into_iter().step_by(plan.thin) {
                    run_case(&mut part, ty, "from_raw", ("-", "-"), &[Arg::W(l)]);
                }
            }
            for l in small_list(&fixed, rf).into_iter().step_by(if plan.san { 2 } else { 1 }) {
                for op in ["sum", "product", "batch_invert"] {
                    run_case(&mut part, ty, op, ("list", "-"), &[Arg::Es(l.clone())]);
                }
            }
        }
        Kind::Random(op, chunk, n) => {
            let mut rng = rep.ctx.rng(&format!("C10/{}/{}/{}", ty.name, op, chunk));
            for _ in 0..*n {
                let cl = ("random", "random");
                let one_fixed = |rng: &mut ChaCha8Rng| -> (&'static str, El) {
                    // a random operand, or (1 in 4) a boundary operand
                    if rng.gen_range(0..4) == 0 {
                        fixed[rng.gen_range(0..fixed.len())].clone()
                    } else {
                        ("random", rand_el(rf, rng))
                    }
                };
                match *op {
                    "add" | "sub" | "mul" | "eq" | "sqrt_ratio" => {
                        let (ca, a) = one_fixed(&mut rng);
                        let (cb, mut b) = one_fixed(&mut rng);
                        if *op == "eq" && rng.gen_range(0..3) == 0 {
                            b = a.clone();
                        }
                        run_case(&mut part, ty, op, (ca, cb), &[Arg::E(a), Arg::E(b)]);
                    }
                    "neg" | "square" | "double" | "cube" | "invert" | "is_zero" | "roundtrip" | "legendre" | "is_odd" | "raw" | "json" => {
                        let (ca, a) = one_fixed(&mut rng);
                        run_case(&mut part, ty, op, (ca, "-"), &[Arg::E(a)]);
                    }
                    "sqrt" => {
                        // half of the inputs are squares by construction
                        let (ca, a) = one_fixed(&mut rng);
                        let a = if rng.gen() { rf.square(&a) } else { a };
                        run_case(&mut part, ty, op, (ca, "-"), &[Arg::E(a)]);
                    }
                    "raw_alias" => {
                        let (ca, a) = one_fixed(&mut rng);
                        run_case(&mut part, ty, op, (ca, "-"), &[Arg::E(a), Arg::W(vec![rng.next_u64()])]);
                    }
                    "sum" | "product" | "batch_invert" => {
                        let len = rng.gen_range(0..=8);
                        let l: Vec<El> = (0..len)
                            .map(|_| if rng.gen_range(0..6) == 0 { rf.zero() } else { one_fixed(&mut rng).1 })
                            .collect();
                        run_case(&mut part, ty, op, ("list", "-"), &[Arg::Es(l)]);
                    }
                    "pow" => {
                        let (ca, a) = one_fixed(&mut rng);
                        let bits = [1u64, 64, 128, 255, 256, 256, 256, 384][rng.gen_range(0..8)];
                        let e = rng.gen_biguint(bits);
                        run_case(&mut part, ty, op, (ca, "rand_exp"), &[Arg::E(a), Arg::W(exp_words(&e))]);
                    }
                    "from_repr" => {
                        let b = rand_decoder_input(p, ty.repr_len, 1, ty.repr_le, &mut rng);
                        run_case(&mut part, ty, op, cl, &[Arg::B(b)]);
                    }
                    "from_u64" => run_case(&mut part, ty, op, cl, &[Arg::W(vec![rng.next_u64()])]),
                    "from_u128" => run_case(&mut part, ty, op, cl, &[Arg::W(vec![rng.next_u64(), rng.next_u64()])]),
                    "uniform" => {
                        let len = ty.uniform_lens[rng.gen_range(0..ty.uniform_lens.len())];
                        let mut b = vec![0u8; len];
                        rng.fill_bytes(&mut b);
                        // sometimes force whole limbs to 0x00 / 0xff
                        if rng.gen_range(0..3) == 0 {
                            for k in 0..len / 8 {
                                match rng.gen_range(0..4) {
                                    0 => b[k * 8..k * 8 + 8].fill(0),
                                    1 => b[k * 8..k * 8 + 8].fill(0xff),
                                    _ => {}
                                }
                            }
                        }
                        run_case(&mut part, ty, op, cl, &[Arg::B(b)]);
                    }
                    "from_raw" => {
                        let l: Vec<u64> = (0..4)
                            .map(|_| match rng.gen_range(0..5) {
                                0 => 0,
                                1 => u64::MAX,
                                _ => rng.next_u64(),
                            })
                            .collect();
                        run_case(&mut part, ty, op, cl, &[Arg::W(l)]);
                    }
                    "dec" => {
                        let ci = rng.gen_range(0..ty.codecs.len());
                        if !ty.codecs[ci].2 {
                            continue;
                        }
                        let c = ty.codecs[ci];
                        let b = rand_decoder_input(p, c.1, c.5, c.4, &mut rng);
                        run_case(&mut part, ty, op, cl, &[Arg::W(vec![ci as u64]), Arg::B(b)]);
                    }
                    "enc" => {
                        let ci = rng.gen_range(0..ty.codecs.len());
                        if !ty.codecs[ci].3 {
                            continue;
                        }
                        let (ca, a) = one_fixed(&mut rng);
                        run_case(&mut part, ty, op, (ca, "-"), &[Arg::W(vec![ci as u64]), Arg::E(a)]);
                    }
                    "extra" => {
                        let cheap: Vec<usize> = (0..ty.extras.len()).filter(|i| ty.extras[*i] != "frobenius_map").collect();
                        if cheap.is_empty() {
                            continue;
                        }
                        let ei = cheap[rng.gen_range(0..cheap.len())];
                        let (ca, a) = one_fixed(&mut rng);
                        run_case(&mut part, ty, "extra", (ca, "-"), &[Arg::E(a), Arg::W(vec![ei as u64, 0])]);
                    }
                    "extra_frobenius" => {
                        let ei = frob_index(ty).unwrap();
                        let (ca, a) = one_fixed(&mut rng);
                        let k = rng.gen_range(0..14u64);
                        run_case(&mut part, ty, "extra", (ca, "-"), &[Arg::E(a), Arg::W(vec![ei as u64, k])]);
                    }
                    other => panic!("harness: unplanned op {other}"),
                }
            }
        }
    }
    part
}

fn matrix_json(m: &BTreeMap<(String, String), u64>) -> Json {
    let mut out: BTreeMap<String, BTreeMap<String, u64>> = BTreeMap::new();
    for ((t, l), n) in m {
        out.entry(t.clone()).or_default().insert(l.clone(), *n);
    }
    json!(out)
}

fn replay(ctx: &Ctx, rep: &mut Report, types: &[Ty]) {
    let path = ctx.replay.clone().unwrap();
    let Some(j) = load_replay(&path) else {
        rep.inconclusive("replay file unreadable");
        return;
    };
    let w = &j["witness"];
    let (Some(field), Some(op)) = (w["field"].as_str(), w["op"].as_str()) else {
        rep.inconclusive("replay file has no field/op");
        return;
    };
    let Some(ty) = types.iter().find(|t| t.name == field) else {
        rep.inconclusive("replay: unknown field");
        return;
    };
    let args: Option<Vec<Arg>> = w["args"].as_array().map(|a| a.iter().filter_map(Arg::from_json).collect());
    let Some(args) = args else {
        rep.inconclusive("replay: bad args");
        return;
    };
    let mut part = Part::new(rep);
    part.samples_left = 4;
    run_case(&mut part, ty, intern(op.to_string()), ("replay", "replay"), &args);
    // a replayed single case is the whole observation
    part.rep.nontrivial(&"replay-a");
    part.rep.nontrivial(&"replay-b");
    let Part { rep: r, .. } = part;
    rep.merge(r);
}

/// Documented contract of the *raw* k256 field element (curves/src/k256/base_field.rs tests):
/// predicates on a non-normalized `k256::FieldElement` panic under debug assertions. The wrapper
/// `k256::Fp` must not; the raw behaviour is only counted.
fn k256_documented_contract(rep: &mut Report) {
    let a = k2::Fp::from(100u64);
    let b = k2::Fp::from(97u64);
    let raw = catch_any(|| bool::from((a.into_inner() - b.into_inner()).is_odd()));
    match raw {
        Err(_) => rep.count("documented.k256.raw_FieldElement_is_odd_unnormalized.panics"),
        Ok(_) => rep.count("documented.k256.raw_FieldElement_is_odd_unnormalized.returns"),
    }
    let raw = catch_any(|| bool::from((a.into_inner() - a.into_inner()).is_zero()));
    match raw {
        Err(_) => rep.count("documented.k256.raw_FieldElement_is_zero_unnormalized.panics"),
        Ok(_) => rep.count("documented.k256.raw_FieldElement_is_zero_unnormalized.returns"),
    }
}

fn main() {
    let ctx = Ctx::from_args("C10");
    let san = ctx.extra.get("stage").map(|s| s == "san").unwrap_or(false);
    let mut rep = Report::new(
        &ctx,
        "operands: boundary classes {0,1,-1,2,2^(64k)±1,(p±1)/2,R,R²,R³,R⁻¹,all-ones,p-2^(64k),Montgomery-pattern} (all pairs for \
         binary operations; coefficient-wise / sparse / embedded for towers) + seeded random (uniform, limb patterns, near 0/p, \
         Montgomery patterns); byte strings around p for decoders; wide patterns for uniform reduction. Every library result is \
         compared with the BigUint reference through its canonical encoding, and element-valued results additionally through the          type's own `==` against the canonical element (labels `<op>~eq`). A compared case is non-trivial by construction (library executed, outcome compared); \
         distinct_nontrivial counts distinct (type, operation label, operand class of each argument, operand hash mod 256).",
    );
    rep.assume("reference model mzv::refs::field (self-tested at start against published parameter identities)");
    rep.assume("conversion library<->integers uses from_repr/to_repr (byte order detected from the encoding of 0x0102) and the component constructors/accessors of towers; bn256 Fq6/Fq12 coefficients are read from their Debug output (no accessor is exported)");
    rep.assume("`unimplemented!()` bodies in the repository (sqrt/sqrt_ratio of towers, Fp::sqrt_ratio) are declared omissions: counted in the matrix as `<op>:declared_unimplemented`, not failed");
    rep.assume("from_uniform_bytes of a quadratic tower: either assignment of the two halves to (c0, c1) is accepted");

    if let Err(e) = rfm::selftest() {
        rep.inconclusive(&format!("reference model self-test failed: {e}"));
        rep.finish();
    }
    let types = match catch_any(all_types) {
        Ok(t) => t,
        Err(p) => {
            rep.inconclusive(&format!("type table construction panicked: {} at {}", p.message, p.location));
            rep.finish();
        }
    };
    if ctx.replay.is_some() {
        replay(&ctx, &mut rep, &types);
        rep.finish();
    }

    let plan = if san {
        Plan { cap: 1, stride: 29, base: 2, chunk: 1000, thin: 4, san: true }
    } else {
        Plan {
            cap: usize::MAX,
            stride: 1,
            base: ctx.tier.pick(60, 40_000),
            chunk: 2_000,
            thin: 1,
            san: false,
        }
    };
    let tasks = plan_tasks(&types, plan);
    rep.set("tasks", json!(tasks.len()));
    rep.set("plan", json!({ "fixed_values_per_class": if plan.cap == usize::MAX { json!("all") } else { json!(plan.cap) }, "pair_stride": plan.stride, "random_base": plan.base, "stage": if san { "san" } else { "full" } }));

    let parts: Vec<Part> = if san {
        tasks.iter().map(|t| run_task(&rep, t, plan)).collect()
    } else {
        tasks.par_iter().map(|t| run_task(&rep, t, plan)).collect()
    };
    let mut matrix: BTreeMap<(String, String), u64> = BTreeMap::new();
    for part in parts {
        for ((t, l), n) in &part.m {
            *matrix.entry((t.to_string(), l.to_string())).or_insert(0) += n;
        }
        rep.merge(part.rep);
    }
    k256_documented_contract(&mut rep);
    // one witness per signature is enough
    {
        let mut seen = std::collections::BTreeSet::new();
        rep.violations.retain(|v| seen.insert(v.signature.clone()));
        let dup: Vec<String> = rep.counters.keys().filter(|k| k.starts_with("violations_suppressed_dup")).cloned().collect();
        for k in dup {
            rep.counters.remove(&k);
        }
    }

    // every planned (type, core operation) must have been compared at least once
    for ty in &types {
        for l in ["add", "sub", "mul", "neg", "square", "double", "invert", "pow", "sum", "product", "batch_invert", "roundtrip"] {
            if matrix.get(&(ty.name.to_string(), l.to_string())).copied().unwrap_or(0) == 0 {
                rep.inconclusive(&format!("no comparison recorded for {} {l}", ty.name));
            }
        }
    }
    let declared: Vec<String> =
        matrix.keys().filter(|(_, l)| l.ends_with(":declared_unimplemented")).map(|(t, l)| format!("{t} {l}")).collect();
    rep.set("declared_unimplemented", json!(declared));
    rep.set("matrix", matrix_json(&matrix));
    rep.set("types", json!(types.iter().map(|t| json!({ "name": t.name, "degree": t.rf.degree(), "modulus": to_hex(t.rf.p()), "repr_len": t.repr_len, "repr_little_endian": t.repr_le })).collect::<Vec<_>>()));
    rep.min_nontrivial = if san { 300 } else { ctx.tier.pick(20_000, 100_000) };
    if rep.inconclusive > 0 && rep.violations.is_empty() {
        // a hole in the planned workload makes the run inconclusive rather than "held"
        rep.min_nontrivial = u64::MAX;
    }
    rep.finish();
}
